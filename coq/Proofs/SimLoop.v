(* C03 — proofs about Model/SimLoop.v (the index-class instruction loop of the simulator):
   (1) call_items_sem: the item list with the identity matrices of relaxation / bitflip kept has the semantics of
       run_items of the noise-free program nf_prog (the dropped calls are exactly the identity ones);
   (2) layout_covers: _process_layout's used list contains every qubit of every non-delay instruction on one or two qubits;
   (3) translate_calls_ok / translate_wf: on instruction lists as Qiskit builds them (wf_qiskit) and the layout extracted from
       them, the loop raises nothing, every internal index is list.index of the call's own physical label in the layout,
       two-qubit calls get distinct indices, and the noise-free program is well-formed over n = number of used qubits. *)
From Coq Require Import List Bool Arith NArith ZArith Lia Permutation.
Require Import QG.Base.Res QG.Base.State QG.Model.FixCounts QG.Model.SimRun QG.Model.NoiseFreeRun QG.Model.SimLoop.
Require Import QG.Proofs.FrameSim QG.Proofs.SimRunKeys QG.Proofs.SimRunProofs.
Import ListNotations.

(* ================================================================== (1) dropped calls are identities *)
Section Items.
Variable R : Type.
Variables (rO rI : R) (radd rmul rsub : R -> R -> R) (ropp : R -> R).
Variable Rth : ring_theory rO rI radd rmul rsub ropp eq.
Variables A D : Type.
Variable K : consts R A.
Notation sem := (sem R radd rmul).
Notation run_items_from := (run_items_from R rO rI radd rmul ropp A K).
Notation call_items_from := (call_items_from R rO rI radd rmul ropp A D K).
Notation fstep := (fstep R rO rI radd rmul ropp A K).

Lemma sem_ext_pt items (s t : state R) : (forall b, s b = t b) -> forall b, sem items s b = sem items t b.
Proof. intros H b. apply (sem_ext R radd rmul (length b) items s t); [intros c _; apply H | reflexivity]. Qed.

Lemma run_items_from_one ff x r :
  run_items_from ff (x :: r) = run_items_from ff [x] ++ run_items_from (fold_left fstep [x] ff) r.
Proof. cbn [NoiseFreeRun.run_items_from fold_left]. now rewrite app_nil_r. Qed.

Lemma call_items_sem_from (cs : list (call A D)) : forall ff psi b,
  sem (call_items_from ff cs) psi b = sem (run_items_from ff (nf_prog A D cs)) psi b.
Proof.
  induction cs as [|c r IH]; intros ff psi b; [reflexivity|].
  cbn [SimLoop.call_items_from nf_prog flat_map]. fold (nf_prog A D r).
  destruct c as [v th|k v q|k cv tv c t|v d q|k q]; cbn [idle_qubit].
  - cbn [nf_of_call app]. rewrite (run_items_from_one ff _ (nf_prog A D r)), !sem_app. apply IH.
  - destruct k; cbn [nf_of_call app]; rewrite (run_items_from_one ff _ (nf_prog A D r)), !sem_app; apply IH.
  - destruct k; cbn [nf_of_call app]; rewrite (run_items_from_one ff _ (nf_prog A D r)), !sem_app; apply IH.
  - cbn [nf_of_call app]. change (sem (It1 (id2 R rO rI) v :: call_items_from ff r) psi b)
      with (sem (call_items_from ff r) (apply1 R radd rmul v (id2 R rO rI) psi) b).
    rewrite <- IH. apply sem_ext_pt. intros c. apply (apply1_id R rO rI radd rmul rsub ropp Rth).
  - cbn [nf_of_call app]. change (sem (It1 (id2 R rO rI) k :: call_items_from ff r) psi b)
      with (sem (call_items_from ff r) (apply1 R radd rmul k (id2 R rO rI) psi) b).
    rewrite <- IH. apply sem_ext_pt. intros c. apply (apply1_id R rO rI radd rmul rsub ropp Rth).
Qed.

Theorem call_items_sem (cs : list (call A D)) psi b :
  sem (call_items R rO rI radd rmul ropp A D K cs) psi b
  = sem (run_items R rO rI radd rmul ropp A K (nf_prog A D cs)) psi b.
Proof. apply call_items_sem_from. Qed.
End Items.

(* ================================================================== (2) the layout covers the instructions *)
(* what Qiskit guarantees about circ.data: a measure has one qubit and one clbit, cx / ecr two DISTINCT qubits, the other
   native operations one qubit, a barrier (or any other operation) at least one *)
Definition wf_qiskit (x : qinstr) : Prop :=
  match iname x with
  | OpMeasure => exists q c, iqs x = [q] /\ ics x = [c]
  | OpCx | OpEcr => exists c t, iqs x = [c; t] /\ c <> t
  | OpRz | OpSx | OpX | OpDelay => exists q, iqs x = [q]
  | OpBarrier | OpOther => iqs x <> []
  end.
Lemma wf_qiskit_wf_instr x : wf_qiskit x -> SimRunProofs.wf_instr x.
Proof. unfold wf_qiskit, SimRunProofs.wf_instr. intros H E. now rewrite E in H. Qed.

Definition covered (used : list N) (x : qinstr) : Prop :=
  if is_delay (iname x) then True
  else match iqs x with [q] => In q used | [q1; q2] => In q1 used /\ In q2 used | _ => True end.
Lemma covered_mono (u u' : list N) x : (forall y, In y u -> In y u') -> covered u x -> covered u' x.
Proof.
  intros H. unfold covered. destruct (is_delay (iname x)); auto.
  destruct (iqs x) as [|q1 [|q2 [|q3 r]]]; auto. intros [H1 H2]. auto.
Qed.
Lemma covered_step x used : covered (step_used x used) x.
Proof.
  unfold covered, step_used. destruct (is_delay (iname x)); auto.
  destruct (iqs x) as [|q1 [|q2 [|q3 r]]]; auto.
  - apply add_used_in. auto.
  - split; apply add_used_in; auto. right. apply add_used_in. auto.
Qed.

Lemma layout_loop_step x rest used meas u m :
  layout_loop (x :: rest) used meas = Ok (u, m) -> exists meas', layout_loop rest (step_used x used) meas' = Ok (u, m).
Proof.
  cbn [layout_loop]. fold (step_used x used). intros H.
  destruct (is_measure (iname x)); [|eauto].
  destruct (iqs x) as [|q r1]; [discriminate|]. destruct (ics x) as [|c r2]; [discriminate|]. eauto.
Qed.
Lemma layout_loop_mono data : forall used meas u m,
  layout_loop data used meas = Ok (u, m) -> forall y, In y used -> In y u.
Proof.
  induction data as [|x rest IH]; intros used meas u m H y Hy.
  - cbn in H. injection H as <- <-. exact Hy.
  - apply layout_loop_step in H as [meas' H]. eapply IH; eauto. now apply step_used_incl.
Qed.
Lemma layout_loop_covers data : forall used meas u m,
  layout_loop data used meas = Ok (u, m) -> Forall (covered u) data.
Proof.
  induction data as [|x rest IH]; intros used meas u m H; [constructor|].
  apply layout_loop_step in H as [meas' H]. constructor; [|eapply IH; eauto].
  eapply covered_mono; [|apply covered_step]. intros y Hy. eapply layout_loop_mono; eauto.
Qed.
Theorem layout_covers data used meas n :
  process_layout data = Ok (used, meas, n) -> Forall (covered used) data.
Proof.
  unfold process_layout. destruct (layout_loop data [] []) as [[u m]|e] eqn:E; cbn [rbind]; [|discriminate].
  cbn [fst snd]. intros H. injection H as <- <- <-.
  eapply Forall_impl; [|eapply layout_loop_covers; eauto].
  intros x. apply covered_mono. intros y Hy. eapply Permutation_in; [symmetry; apply sortN_perm|auto].
Qed.

(* ================================================================== (3) the loop on well-formed data *)
Section Loop.
Variables A D : Type.
Variable theta : nat -> A.
Variable dur : nat -> D.
Notation call := (call A D).
Notation pre_step := (pre_step). Notation app_step := (app_step A D theta dur).
Notation apply_loop := (apply_loop A D theta dur).

(* every internal index is list.index of the call's own label; the k-th read-out call carries the k-th label *)
Definition call_on (used : list N) (c : call) : Prop :=
  match c with
  | CRz v _ => (v < length used)%nat
  | C1 _ v q | CRelax v _ q => index_of q used = Some v
  | C2 _ cv tv c t => index_of c used = Some cv /\ index_of t used = Some tv /\ c <> t
  | CBitflip k q => nth_error used k = Some q
  end.

Lemma index_lt q used i : index_of q used = Some i -> (i < length used)%nat.
Proof. intros H. apply index_of_nth in H. apply nth_error_Some. congruence. Qed.

Lemma call_on_wf used c : call_on used c -> Forall (NoiseFreeRun.wf_instr (length used)) (nf_of_call A D c).
Proof.
  destruct c as [v th|k v q|k cv tv c t|v d q|k q]; cbn [call_on nf_of_call]; intros H.
  - repeat constructor. exact H.
  - apply index_lt in H. destruct k; repeat constructor; exact H.
  - destruct H as (Hc & Ht & Hne).
    assert (cv <> tv). { intros ->. apply Hne. eapply index_of_inj; eauto. }
    apply index_lt in Hc, Ht. destruct k; repeat constructor; auto.
  - constructor.
  - constructor.
Qed.
Lemma calls_on_wf used cs : Forall (call_on used) cs -> Forall (NoiseFreeRun.wf_instr (length used)) (nf_prog A D cs).
Proof.
  induction 1 as [|c r Hc _ IH]; [constructor|]. cbn [nf_prog flat_map]. apply Forall_app. split; auto. now apply call_on_wf.
Qed.

Lemma apply_loop_app used a b :
  apply_loop used (a ++ b) = (x <- apply_loop used a ;; y <- apply_loop used b ;; Ok (x ++ y)).
Proof.
  induction a as [|jx r IH]; cbn [app SimLoop.apply_loop rbind].
  - destruct (apply_loop used b); reflexivity.
  - destruct (app_step used jx) as [ca|e]; cbn [rbind]; [|reflexivity]. rewrite IH.
    destruct (apply_loop used r) as [cr|e]; cbn [rbind]; [|reflexivity].
    destruct (apply_loop used b) as [cb|e]; cbn [rbind]; [|reflexivity]. now rewrite app_assoc.
Qed.

Lemma lindex_in q used : In q used -> exists i, lindex q used = Ok i /\ index_of q used = Some i.
Proof. intros H. destruct (index_of_some q used H) as (i & E & _). exists i. unfold lindex. now rewrite E. Qed.
Lemma memN_true q used : In q used -> memN q used = true.
Proof. apply memN_In. Qed.

Lemma apply_loop_one used jx : apply_loop used [jx] = (a <- app_step used jx ;; Ok (a ++ [])).
Proof. reflexivity. Qed.

(* one instruction: kept or not, its calls *)
Lemma step_ok used jx : wf_qiskit (snd jx) -> covered used (snd jx) ->
  exists a ca, pre_step used jx = Ok a /\ apply_loop used a = Ok ca /\ Forall (call_on used) ca.
Proof.
  destruct jx as [j x]. cbn [snd]. unfold wf_qiskit, covered, SimLoop.pre_step. cbn [snd].
  destruct (iname x) eqn:En; cbn [is_delay is_barrier]; intros W C.
  - (* delay *) destruct W as (q & Eq). rewrite Eq. cbn [negb]. rewrite andb_true_r.
    destruct (memN q used) eqn:Em.
    + apply memN_In in Em. destruct (lindex_in q used Em) as (i & El & Ei).
      eexists; eexists. split; [reflexivity|]. rewrite apply_loop_one. unfold SimLoop.app_step. cbn [fst snd]. rewrite En. unfold one_qubit.
      rewrite Eq, El. cbn [rbind app]. split; [reflexivity|]. repeat constructor. exact Ei.
    + eexists; eexists. split; [reflexivity|]. split; [reflexivity|constructor].
  - (* measure *) destruct W as (q & c & Eq & Ec). rewrite Eq, Ec in *.
    destruct (lindex_in q used C) as (i & El & _). rewrite El. cbn [rbind].
    eexists; eexists. split; [reflexivity|]. split; [reflexivity|constructor].
  - (* barrier *) destruct (iqs x) as [|q r]; [congruence|]. cbn [negb]. rewrite andb_false_r.
    eexists; eexists. split; [reflexivity|]. split; [reflexivity|constructor].
  - (* rz *) destruct W as (q & Eq). rewrite Eq in *. rewrite (memN_true _ _ C). cbn [negb andb].
    destruct (lindex_in q used C) as (i & El & Ei).
    eexists; eexists. split; [reflexivity|]. rewrite apply_loop_one. unfold SimLoop.app_step. cbn [fst snd]. rewrite En. unfold one_qubit.
    rewrite Eq, El. cbn [rbind app]. split; [reflexivity|]. repeat constructor. now apply index_lt in Ei.
  - (* sx *) destruct W as (q & Eq). rewrite Eq in *. rewrite (memN_true _ _ C). cbn [negb andb].
    destruct (lindex_in q used C) as (i & El & Ei).
    eexists; eexists. split; [reflexivity|]. rewrite apply_loop_one. unfold SimLoop.app_step. cbn [fst snd]. rewrite En. unfold one_qubit.
    rewrite Eq, El. cbn [rbind app]. split; [reflexivity|]. repeat constructor. exact Ei.
  - (* x *) destruct W as (q & Eq). rewrite Eq in *. rewrite (memN_true _ _ C). cbn [negb andb].
    destruct (lindex_in q used C) as (i & El & Ei).
    eexists; eexists. split; [reflexivity|]. rewrite apply_loop_one. unfold SimLoop.app_step. cbn [fst snd]. rewrite En. unfold one_qubit.
    rewrite Eq, El. cbn [rbind app]. split; [reflexivity|]. repeat constructor. exact Ei.
  - (* cx *) destruct W as (c & t & Eq & Hne). rewrite Eq in *. destruct C as [Cc Ct].
    rewrite (memN_true _ _ Cc), (memN_true _ _ Ct). cbn [andb].
    destruct (lindex_in c used Cc) as (i & El & Ei). destruct (lindex_in t used Ct) as (k & Elk & Ek).
    eexists; eexists. split; [reflexivity|]. rewrite apply_loop_one. unfold SimLoop.app_step. cbn [fst snd]. rewrite En. unfold two_qubit.
    rewrite Eq, El. cbn [rbind]. rewrite Elk. cbn [rbind app]. split; [reflexivity|]. repeat constructor; auto.
  - (* ecr *) destruct W as (c & t & Eq & Hne). rewrite Eq in *. destruct C as [Cc Ct].
    rewrite (memN_true _ _ Cc), (memN_true _ _ Ct). cbn [andb].
    destruct (lindex_in c used Cc) as (i & El & Ei). destruct (lindex_in t used Ct) as (k & Elk & Ek).
    eexists; eexists. split; [reflexivity|]. rewrite apply_loop_one. unfold SimLoop.app_step. cbn [fst snd]. rewrite En. unfold two_qubit.
    rewrite Eq, El. cbn [rbind]. rewrite Elk. cbn [rbind app]. split; [reflexivity|]. repeat constructor; auto.
  - (* any other name *) destruct (iqs x) as [|q r]; [congruence|]. cbn [negb]. rewrite andb_true_r.
    destruct (memN q used).
    + eexists; eexists. split; [reflexivity|]. rewrite apply_loop_one. unfold SimLoop.app_step. cbn [fst snd]. rewrite En. cbn [rbind app].
      split; [reflexivity|constructor].
    + eexists; eexists. split; [reflexivity|]. split; [reflexivity|constructor].
Qed.

Lemma body_ok used (l : list (nat * qinstr)) :
  Forall (fun jx => wf_qiskit (snd jx) /\ covered used (snd jx)) l ->
  exists d cs, preprocess used l = Ok d /\ apply_loop used d = Ok cs /\ Forall (call_on used) cs.
Proof.
  induction 1 as [|jx r [W C] _ (d & cs & Ep & Ea & Fc)].
  - exists [], []. repeat split; constructor.
  - destruct (step_ok used jx W C) as (a & ca & E1 & E2 & F1).
    exists (a ++ d), (ca ++ cs). cbn [preprocess]. rewrite E1. cbn [rbind]. rewrite Ep. cbn [rbind].
    split; [reflexivity|]. rewrite apply_loop_app, E2. cbn [rbind]. rewrite Ea. cbn [rbind].
    split; [reflexivity|]. apply Forall_app. auto.
Qed.

Lemma readout_ok used : forall cnt k, (k + cnt <= length used)%nat ->
  exists ro, readout A D used k cnt = Ok ro /\ Forall (call_on used) ro.
Proof.
  induction cnt as [|c IH]; intros k H; cbn [readout].
  - exists []. split; [reflexivity|constructor].
  - destruct (nth_error used k) as [q|] eqn:E; [|apply nth_error_None in E; lia].
    destruct (IH (S k) ltac:(lia)) as (ro & Er & Fr). rewrite Er. cbn [rbind].
    eexists. split; [reflexivity|]. constructor; auto.
Qed.

Lemma numbered_snd (data : list qinstr) (P : qinstr -> Prop) :
  Forall P data -> Forall (fun jx => P (snd jx)) (numbered data).
Proof.
  unfold numbered. generalize 0%nat. induction data as [|x r IH]; intros s F; cbn [length seq combine]; [constructor|].
  apply Forall_cons_iff in F as [Hx F]. constructor; auto.
Qed.

Theorem translate_calls_ok used nq data :
  Forall wf_qiskit data -> Forall (covered used) data -> (nq <= Z.of_nat (length used))%Z ->
  exists cs, translate_calls A D theta dur used nq data = Ok cs /\ Forall (call_on used) cs.
Proof.
  intros W C Hn. unfold translate_calls.
  assert (F : Forall (fun jx => wf_qiskit (snd jx) /\ covered used (snd jx)) (numbered data)).
  { apply (numbered_snd data (fun x => wf_qiskit x /\ covered used x)).
    rewrite Forall_forall in *. intros x Hx. split; auto. }
  destruct (body_ok used _ F) as (d & cs & Ep & Ea & Fc). rewrite Ep. cbn [rbind]. rewrite Ea. cbn [rbind].
  destruct (readout_ok used (Z.to_nat nq) 0 ltac:(lia)) as (ro & Er & Fr). rewrite Er. cbn [rbind].
  eexists. split; [reflexivity|]. apply Forall_app. auto.
Qed.

(* for data accepted by _process_layout: the loop succeeds on the extracted layout, for every nqubit up to the number of used
   qubits, and the noise-free program is well-formed over n qubits *)
Theorem translate_wf data used meas n nq :
  Forall wf_qiskit data -> process_layout data = Ok (used, meas, n) -> (nq <= Z.of_nat n)%Z ->
  exists cs, translate_calls A D theta dur used nq data = Ok cs /\ Forall (call_on used) cs /\
    translate A D theta dur used nq data = Ok (nf_prog A D cs) /\ Forall (NoiseFreeRun.wf_instr n) (nf_prog A D cs).
Proof.
  intros W Hl Hn.
  assert (Wi : Forall SimRunProofs.wf_instr data) by (eapply Forall_impl; [|exact W]; apply wf_qiskit_wf_instr).
  destruct (process_layout_inv data used meas n Wi Hl) as (_ & _ & En).
  destruct (translate_calls_ok used nq data W (layout_covers _ _ _ _ Hl) ltac:(lia)) as (cs & E & F).
  exists cs. split; [exact E|]. split; [exact F|]. split.
  - unfold translate. now rewrite E.
  - rewrite En. now apply calls_on_wf.
Qed.
End Loop.
