(* C04 — semantic readings of the reflection lemmas of C04Refl. *)
From Coq Require Import QArith Qreals List String Bool Reals Lra.
From Coquelicot Require Import Complex.
Require Import QG.Sym.Expr QG.Sym.ExprEq QG.Sym.Norm QG.Sym.Mat QG.Sym.Sound QG.Sym.Subst.
Require Import QG.Model.GateModel QG.Model.Composite QG.Proofs.GateRefl QG.Proofs.C07Refl QG.Proofs.C05Refl QG.Proofs.C05Sem QG.Proofs.C04Refl QG.Gen.GenGates.
Import ListNotations.
Close Scope Q_scope.

(* the generator restricted to one Lindblad operator: samples of group j replaced by their integrand functions of the
   instantaneous angle, every other sample by 0 *)
Definition block_env (p : epath) (j : nat) (gs : list expr) (rho : env) : env := env_of (group_subst p j gs) rho.

Theorem interaction_picture_sem p j gs L s : block_strength p j gs L = Some s ->
  forall rho, interpM (block_env p j gs rho) (ep_N p) =
              interpM (block_env p j gs rho) (MScale (EMul EI s) (MMul (MDag (ep_U p)) (MMul L (ep_U p)))).
Proof.
  unfold block_strength. intros F rho. apply find_some in F as [_ F]. apply andb_prop in F as [A F].
  unfold block_env. now apply (mrefl_subst cf).
Qed.

(* noise strengths of the driven single-qubit gate over the reals *)
Lemma Re_RtoC_div a b : b <> 0%R -> Re (RtoC a / RtoC b)%C = (a / b)%R.
Proof. intros Hb. rewrite <- RtoC_div by assumption. reflexivity. Qed.

Lemma sqrt_def_sq rho v e : respects_def rho v (OSqrt e) -> (0 <= Re (interpC rho e))%R -> (rho v * rho v = Re (interpC rho e))%R.
Proof. simpl. intros -> H. now apply sqrt_sqrt. Qed.

Lemma Re_ep_form a b : Re (RtoC (1 / 2) * (RtoC a * (RtoC a * RtoC 1) - RtoC b * (RtoC b * RtoC 1) / RtoC 2))%C = ((1 / 2) * (a * a - (b * b) / 2))%R.
Proof.
  rewrite <- !RtoC_mult. rewrite <- RtoC_div by lra. rewrite <- RtoC_minus, <- RtoC_mult. simpl Re. field.
Qed.

Theorem strengths_sq_sem rho :
  respects rho (ep_defs sq_full) ->
  (0 <= rho (vi "p"))%R -> (0 < rho (vi "T1"))%R -> (0 < rho (vi "T2"))%R -> (rho (vi "T2") <= 2 * rho (vi "T1"))%R ->
  (rho v_ed * rho v_ed = rho (vi "p") / 4)%R /\
  (rho v_e1 * rho v_e1 = tgR / rho (vi "T1"))%R /\
  (rho v_ep * rho v_ep = (tgR / rho (vi "T2") - tgR / (2 * rho (vi "T1"))) / 2)%R.
Proof.
  rewrite sq_full_defs_eq. intros R Hp H1 H2 H21.
  pose proof (e1_squared _ _ _ rho e1_found R H1) as S1. pose proof (e1_squared _ _ _ rho e2_found R H2) as S2.
  pose proof (respects_lookup _ _ _ _ R ed_def) as Red. pose proof (respects_lookup _ _ _ _ R ep_def) as Rep.
  pose proof (expr_eq_sound cf _ _ ed_arg_spec rho) as Eed. pose proof (expr_eq_sound cf _ _ ep_arg_spec rho) as Eep.
  assert (Q4 : Q2R (4#1) = 4%R) by (unfold Q2R; simpl; lra). assert (Q2 : Q2R (2#1) = 2%R) by (unfold Q2R; simpl; lra).
  assert (Qh : Q2R (1#2) = (1/2)%R) by (unfold Q2R; simpl; lra).
  split; [|split].
  - rewrite (sqrt_def_sq rho v_ed ed_arg Red); rewrite Eed; cbn [interpC]; rewrite Q4.
    + apply Re_RtoC_div. lra.
    + rewrite Re_RtoC_div by lra. apply Rmult_le_pos; lra.
  - exact S1.
  - assert (V : Re (interpC rho ep_arg) = ((tgR / rho (vi "T2") - tgR / (2 * rho (vi "T1"))) / 2)%R).
    { rewrite Eep. cbn [interpC Cpown]. rewrite Qh, Q2.
      rewrite Re_ep_form.
      rewrite S1, S2. field. split; lra. }
    rewrite (sqrt_def_sq rho v_ep ep_arg Rep); rewrite V; [reflexivity|].
    assert (tgR > 0)%R by (unfold tgR, Q2R; simpl; lra).
    assert (tgR / rho (vi "T2") >= tgR / (2 * rho (vi "T1")))%R.
    { apply Rle_ge. unfold Rdiv. apply Rmult_le_compat_l; [lra|]. apply Rinv_le_contravar; lra. }
    lra.
Qed.
