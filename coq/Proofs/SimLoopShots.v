(* C03 — the shot loop around a deterministic shot.  _perform_simulation (Model/Shots.v: perform_seq / perform_par, the model
   of C09) accumulates S per-shot Born vectors into zeros(2**nqubit) and divides by S.  When every shot returns the same
   vector v whatever samples it reads (the noise-free gate set), the mean is v (exact arithmetic on reals; floating-point
   averaging is rounding), so run() returns the same dictionary as with the single shot.  S >= 1 is enforced by run()'s
   validation (C14's front). *)
From Coq Require Import List Bool Arith NArith ZArith Lia Reals Lra RealField Permutation.
From Coquelicot Require Import Complex.
Require Import QG.Base.Res QG.Base.State QG.Model.FixCounts QG.Model.SimRun QG.Model.NoiseFreeRun QG.Model.SimLoop QG.Model.Shots.
Require Import QG.Proofs.FixCountsKeys QG.Proofs.FixCountsProofs QG.Proofs.SimRunKeys QG.Proofs.SimRunProofs QG.Proofs.ShotsProofs.
Require Import QG.Proofs.FrameSim QG.Proofs.NoiseFreeRun QG.Proofs.NoiseFreeRunC QG.Proofs.SimLoop QG.Proofs.SimLoopE2E QG.Proofs.SimLoopC
  QG.Proofs.NormPres QG.Proofs.NormPresE2E.
Import ListNotations.
Local Open Scope R_scope.

(* ================================================================== S copies of one vector: sum and mean *)
Notation vadd2R := (vadd2 R Rplus).
Lemma fold_repeat_cons k : forall (x : R) (v : list R) (a : R) (r : list R),
  fold_left vadd2R (repeat (x :: v) k) (a :: r) = (a + INR k * x) :: fold_left vadd2R (repeat v k) r.
Proof.
  induction k as [|k IH]; intros x v a r.
  - cbn [repeat fold_left INR]. f_equal. lra.
  - cbn [repeat fold_left vadd2]. rewrite IH. f_equal. rewrite S_INR. lra.
Qed.
Lemma fold_repeat_nil k : fold_left vadd2R (repeat [] k) [] = [].
Proof. induction k as [|k IH]; cbn [repeat fold_left vadd2]; auto. Qed.
Lemma sum_of_copies k (v : list R) :
  fold_left vadd2R (repeat v k) (repeat 0 (length v)) = map (fun x => INR k * x) v.
Proof.
  induction v as [|x v IH]; cbn [length repeat map].
  - apply fold_repeat_nil.
  - rewrite fold_repeat_cons, IH. f_equal. lra.
Qed.
Lemma mean_of_copies (S : Z) (len : N) (v : list R) : (1 <= S)%Z -> N.to_nat len = length v ->
  mean R Rdiv IZR S (fold_left vadd2R (repeat v (Z.to_nat S)) (zeros R 0 len)) = v.
Proof.
  intros HS Hl. unfold zeros, mean. rewrite Hl, sum_of_copies, map_map.
  rewrite <- (map_id v) at 2. apply map_ext. intros x.
  rewrite INR_IZR_INZ, Z2Nat.id by lia. field. apply not_0_IZR. lia.
Qed.

Section Shots.
Variable sample : Type.
Variable init : list sample -> N -> sample.
(* the shot as a reader program over the random stream that returns v whatever it reads (Ret v: reads nothing) *)
Variable mk : list R -> prog sample (list R).
Hypothesis mk_det : forall v s p, fst (run_prog sample (mk v) s p) = v.

Lemma seq_spec_const v n : forall s p, map (seg_vec R) (seq_spec R sample (mk v) n s p) = repeat v n.
Proof.
  induction n as [|n IH]; intros s p; cbn [seq_spec repeat map]; [reflexivity|].
  pose proof (mk_det v s p) as E. destruct (run_prog sample (mk v) s p) as [w p']. cbn [fst] in E. subst w.
  cbn [map seg_vec fst]. now rewrite IH.
Qed.

(* _perform_simulation, sequential mode, on the parent's generator g: the shot is evaluated (an exception of the first shot
   is the exception of the loop, S >= 1), then r_sum = zeros(2**nqubit); S times r_sum += shot; r_sum / S *)
Definition seq_perform (g : gen sample) (one : front_out -> res (list R)) (f : front_out) : res (list R) :=
  v <- one f ;;
  x <- perform_seq R 0 Rplus Rdiv IZR sample init (mk v) (f_shots f) (Z.to_N (2 ^ f_nqubit f)) g ;;
  Ok (fst (fst x)).
(* parallel mode: cpu count, schedule sc (worker assignment, execution and delivery order), worker generators ws *)
Definition par_perform (cpu : Z) (g : gen sample) (sc : sched) (ws : nat -> gen sample)
  (one : front_out -> res (list R)) (f : front_out) : res (list R) :=
  v <- one f ;;
  x <- perform_par R 0 Rplus Rdiv IZR sample init (mk v) (f_shots f) (Z.to_N (2 ^ f_nqubit f)) cpu g sc ws ;;
  Ok (fst (fst x)).

Lemma seq_perform_one g one f v : (1 <= f_shots f)%Z -> one f = Ok v -> length v = Z.to_nat (2 ^ f_nqubit f) ->
  seq_perform g one f = Ok v.
Proof.
  intros HS E Hl. unfold seq_perform. rewrite E. cbn [rbind]. destruct g as [s p].
  destruct (seq_mean R 0 Rplus Rdiv IZR sample init (mk v) (length v)
              ltac:(intros; now rewrite mk_det) (f_shots f) (Z.to_N (2 ^ f_nqubit f)) s p ltac:(lia)
              ltac:(now rewrite Z_N_nat)) as [Es _].
  cbv zeta in Es. rewrite Es. cbn [rbind fst]. f_equal. rewrite seq_spec_const.
  apply mean_of_copies; [assumption | now rewrite Z_N_nat].
Qed.

Lemma chunks_fuel_map {A B} (h : A -> B) cs fuel : forall l, chunks_fuel fuel cs (map h l) = map (map h) (chunks_fuel fuel cs l).
Proof.
  induction fuel as [|fu IH]; intros l; [reflexivity|]. destruct l as [|x r]; [reflexivity|].
  change (map h (x :: r)) with (h x :: map h r) at 1. cbn [chunks_fuel map].
  change (h x :: map h r) with (map h (x :: r)). now rewrite firstn_map, skipn_map, IH.
Qed.
Lemma chunks_length_map {A B} (h : A -> B) cs l : length (chunks cs (map h l)) = length (chunks cs l).
Proof. unfold chunks. now rewrite map_length, chunks_fuel_map, map_length. Qed.
Lemma map_const_repeat {A B} (h : A -> B) (v : B) l : (forall x, h x = v) -> map h l = repeat v (length l).
Proof. intros H. induction l as [|x r IH]; cbn [map length repeat]; [reflexivity|]. now rewrite H, IH. Qed.

(* the schedule: execution order and delivery order are permutations of the chunk indices (C09_pool_independent) *)
Lemma par_perform_one cpu g sc ws one f v : (1 <= f_shots f)%Z -> one f = Ok v -> length v = Z.to_nat (2 ^ f_nqubit f) ->
  let nch := length (chunks (Z.to_nat (chunksize (f_shots f) (n_processes cpu))) (seq 0 (Z.to_nat (f_shots f)))) in
  Permutation (sc_exec sc) (seq 0 nch) -> Permutation (sc_deliver sc) (seq 0 nch) ->
  par_perform cpu g sc ws one f = Ok v.
Proof.
  intros HS E Hl nch Pe Pd. unfold par_perform. rewrite E. cbn [rbind]. destruct g as [s p].
  destruct (pool_run R 0 Rplus Rdiv IZR sample init (mk v) (length v) ltac:(intros; now rewrite mk_det)
              Rplus_comm (fun x y z => eq_sym (Rplus_assoc x y z))
              (f_shots f) (Z.to_N (2 ^ f_nqubit f)) cpu s p sc ws HS ltac:(now rewrite Z_N_nat))
    as (log & Ep & _).
  1,2: cbv zeta; rewrite chunks_length_map; assumption.
  rewrite Ep. cbn [rbind fst]. f_equal.
  rewrite (map_const_repeat (shot_of_seed R sample init (mk v)) v) by (intros sd; apply mk_det).
  rewrite map_length, seq_length. apply mean_of_copies; [assumption | now rewrite Z_N_nat].
Qed.
End Shots.

(* run()'s validation accepts only nqubit >= 1: some measured qubit's index must be below nqubit *)
Lemma front_nqubit_pos a f : front a = Ok f -> (0 < f_nqubit f)%Z.
Proof.
  unfold front, front_step. intros H.
  destruct (a_circ a) as [|is_qc data]; [discriminate|].
  destruct (process_layout data) as [[[used meas] n]|e] eqn:El; [|discriminate].
  destruct (Nat.eqb (length meas) 0) eqn:E0; [discriminate|].
  destruct is_qc; cbn [negb] in H; [|discriminate].
  destruct (a_shots a) as [shots|]; [|discriminate].
  destruct (a_params a) as [t1|]; [|discriminate].
  destruct (a_nqubit a) as [nq|]; [|discriminate].
  destruct (shots <? 1)%Z eqn:E1; [discriminate|].
  destruct (a_psi0 a) as [|dims]; [discriminate|].
  destruct (pow2_shape_ok dims nq) eqn:E2; cbn [negb] in H; [|discriminate].
  destruct (Z.of_nat n <? nq)%Z eqn:E3; [discriminate|].
  destruct t1 as [| |k]; try discriminate.
  destruct (k <? nq)%Z eqn:E4; [discriminate|].
  destruct (swap_check meas used nq) as [[u|e] s] eqn:Es; [|discriminate].
  cbn [fst] in H. injection H as <-. cbn [f_nqubit].
  destruct meas as [|[q c] rest]; [discriminate|].
  unfold swap_check in Es. cbn [meas_positions] in Es.
  destruct (index_of q used) as [i|]; [|discriminate].
  destruct (meas_positions rest used) as [idx|]; cbn [rbind] in Es; [|discriminate].
  cbn [swap_assign] in Es. destruct (Z.of_nat i <? nq)%Z eqn:Ei; [|discriminate].
  apply Z.ltb_lt in Ei. lia.
Qed.

Section Run.
Variable sample : Type.
Variable init : list sample -> N -> sample.
Variable mk : list R -> prog sample (list R).
Hypothesis mk_det : forall v s p, fst (run_prog sample (mk v) s p) = v.
Variable a : args.
Variable one : front_out -> res (list R).
Hypothesis one_len : forall f v, front a = Ok f -> one f = Ok v -> length v = Z.to_nat (2 ^ f_nqubit f).
Notation run := (run_model R 0 Rplus Rdiv rpos a).

Theorem run_seq_shots g : run (seq_perform sample init mk g one) = run one.
Proof.
  pose proof (front_ok_inv a) as Inv.
  unfold run_model. destruct (front a) as [f|e]; cbn [rbind]; [|reflexivity].
  destruct (Inv f eq_refl) as (_ & _ & _ & _ & _ & HS & _).
  destruct (one f) as [v|e] eqn:E.
  - now rewrite (seq_perform_one sample init mk mk_det g one f v HS E (one_len f v eq_refl E)).
  - unfold seq_perform. now rewrite E.
Qed.
Theorem run_par_shots cpu g sc ws :
  (forall f, front a = Ok f ->
     let nch := length (chunks (Z.to_nat (chunksize (f_shots f) (n_processes cpu))) (seq 0 (Z.to_nat (f_shots f)))) in
     Permutation (sc_exec sc) (seq 0 nch) /\ Permutation (sc_deliver sc) (seq 0 nch)) ->
  run (par_perform sample init mk cpu g sc ws one) = run one.
Proof.
  intros Hsc. pose proof (front_ok_inv a) as Inv.
  unfold run_model. destruct (front a) as [f|e]; cbn [rbind]; [|reflexivity].
  destruct (Inv f eq_refl) as (_ & _ & _ & _ & _ & HS & _). destruct (Hsc f eq_refl) as [Pe Pd].
  destruct (one f) as [v|e] eqn:E.
  - now rewrite (par_perform_one sample init mk mk_det cpu g sc ws one f v HS E (one_len f v eq_refl E) Pe Pd).
  - unfold par_perform. now rewrite E.
Qed.
End Run.

(* ================================================================== the noise-free shot *)
Lemma pow2_to_nat z : (0 <= z)%Z -> Z.to_nat (2 ^ z) = Nat.pow 2 (Z.to_nat z).
Proof.
  intros Hz. rewrite <- (Z2Nat.id z) at 1 by assumption. generalize (Z.to_nat z). intros k.
  apply Nat2Z.inj. rewrite Z2Nat.id by (apply Z.pow_nonneg; lia). now rewrite Nat2Z.inj_pow.
Qed.

Section NoiseFree.
Variable T : Type.
Variables (rO rI : T) (radd rmul : T -> T -> T) (ropp : T -> T).
Variables A D : Type.
Variable K : consts T A.
Variable born : T -> R.
Variables (theta : nat -> A) (dur : nat -> D).
Variable data : list qinstr.
Variable psi0 : state T.
Notation nf := (nf_perform T rO rI radd rmul ropp A D K R born theta dur data psi0).

Lemma nf_perform_length a f v : front a = Ok f -> nf f = Ok v -> length v = Z.to_nat (2 ^ f_nqubit f).
Proof.
  intros Hf E. unfold nf_perform in E.
  destruct (translate_calls A D theta dur (f_used f) (f_nqubit f) data) as [cs|e]; cbn [rbind] in E; [|discriminate].
  injection E as <-. rewrite map_length, binary_vector_length.
  symmetry. apply pow2_to_nat. pose proof (front_nqubit_pos a f Hf). lia.
Qed.

Variable sample : Type.
Variable init : list sample -> N -> sample.
Variable mk : list R -> prog sample (list R).
Hypothesis mk_det : forall v s p, fst (run_prog sample (mk v) s p) = v.

Theorem shots_irrelevant a g :
  run_model R 0 Rplus Rdiv rpos a (seq_perform sample init mk g nf) = run_model R 0 Rplus Rdiv rpos a nf.
Proof. apply run_seq_shots; [exact mk_det|]. intros f v. apply nf_perform_length. Qed.
Theorem shots_irrelevant_parallel a cpu g sc ws :
  (forall f, front a = Ok f ->
     let nch := length (chunks (Z.to_nat (chunksize (f_shots f) (n_processes cpu))) (seq 0 (Z.to_nat (f_shots f)))) in
     Permutation (sc_exec sc) (seq 0 nch) /\ Permutation (sc_deliver sc) (seq 0 nch)) ->
  run_model R 0 Rplus Rdiv rpos a (par_perform sample init mk cpu g sc ws nf) = run_model R 0 Rplus Rdiv rpos a nf.
Proof. intros H. apply run_par_shots; [exact mk_det| |exact H]. intros f v. apply nf_perform_length. Qed.
End NoiseFree.

(* ================================================================== composed: normalised initial state, any number of shots, both modes *)
Theorem end_to_end_C_shots (D : Type) (theta : nat -> R) (dur : nat -> D)
  (a : args) (f : front_out) (data : list qinstr) (psi0 : state C)
  (sample : Type) (init : list sample -> N -> sample) (mk : list R -> prog sample (list R)) :
  (forall v s p, fst (run_prog sample (mk v) s p) = v) ->
  front a = Ok f -> a_circ a = CData true data -> Forall wf_qiskit data ->
  NoDup (map fst (f_meas f)) -> f_nqubit f = Z.of_nat (f_n f) ->
  rsum (map (fun b => Cmod (psi0 b) ^ 2) (binary_vector (f_n f))) = 1 ->
  exists prog, translate R D theta dur (f_used f) (f_nqubit f) data = Ok prog /\
    Forall (NoiseFreeRun.wf_instr (f_n f)) prog /\
    let ideal := fun b => Cmod (semC (ideal_itemsC prog) psi0 b) ^ 2 in
    let shot := nf_perform C (RtoC 0) (RtoC 1) Cplus Cmult Copp R D KC R bornC theta dur data psi0 in
    rsum (map ideal (binary_vector (f_n f))) = 1 /\
    exists out,
      (forall g, run_model R 0 Rplus Rdiv rpos a (seq_perform sample init mk g shot) = Ok out) /\
      (forall cpu g sc ws,
         (let nch := length (chunks (Z.to_nat (chunksize (f_shots f) (n_processes cpu))) (seq 0 (Z.to_nat (f_shots f)))) in
          Permutation (sc_exec sc) (seq 0 nch) /\ Permutation (sc_deliver sc) (seq 0 nch)) ->
         run_model R 0 Rplus Rdiv rpos a (par_perform sample init mk cpu g sc ws shot) = Ok out) /\
      forall t, length t = length (f_meas f) ->
        lookup R t out = Some (marginal_sum ideal (f_n f) (meas_ranks f) t).
Proof.
  intros Hmk Hf Hc W NDm Hnq Hpsi.
  destruct (end_to_end_C_normalised D theta dur a f data psi0 Hf Hc W NDm Hnq Hpsi) as (prog & Et & Wp & Hn & out & Er & Hl).
  exists prog. split; [exact Et|]. split; [exact Wp|]. cbv zeta. split; [exact Hn|].
  exists out. split; [|split; [|exact Hl]].
  - intros g. rewrite shots_irrelevant by exact Hmk. exact Er.
  - intros cpu g sc ws Hsc. rewrite shots_irrelevant_parallel; [exact Er|exact Hmk|].
    intros f' Hf'. rewrite Hf in Hf'. injection Hf' as <-. exact Hsc.
Qed.
