(* C01 — EfficientBackend: chunk_list lemmas, the three regimes, eff_spec. *)
From Coq Require Import List Bool Arith Lia Ring.
Require Import QG.Base.Res QG.Base.State QG.Base.Mat QG.Model.Backends QG.Proofs.BackendsSpec QG.Proofs.BackendsKron
  QG.Proofs.BackendsContract.
Import ListNotations.

(* ---------- chunking (no scalars involved) ---------- *)
Section Chunks.
Context {A : Type}.
Lemma chunks_of_spec opt : 1 <= opt -> forall fuel (l : list A), length l <= fuel ->
  concat (chunks_of fuel opt l) = l /\ Forall (fun c => c <> []) (chunks_of fuel opt l) /\
  length (chunks_of fuel opt l) * opt < length l + opt.
Proof.
  intros Ho. induction fuel as [|f IH]; intros l Hl.
  - destruct l; [|simpl in Hl; lia]. simpl. split; [reflexivity|]. split; [constructor | lia].
  - destruct l as [|x l]; [simpl; split; [reflexivity|]; split; [constructor | lia]|].
    cbn [chunks_of]. remember (x :: l) as xl eqn:E.
    assert (Ls : length (skipn opt xl) <= f) by (rewrite skipn_length; lia).
    destruct (IH (skipn opt xl) Ls) as (H1 & H2 & H3). cbn [concat]. rewrite H1, firstn_skipn.
    split; [reflexivity|]. split.
    + constructor; [|assumption]. subst xl. destruct opt; [lia|]. simpl. discriminate.
    + cbn [length]. rewrite skipn_length in H3.
      destruct (le_lt_dec (length xl) opt) as [Hs|Hs].
      * assert (Z : skipn opt xl = []) by (apply skipn_all2; assumption).
        rewrite Z. destruct f; simpl; subst xl; simpl; lia.
      * nia.
Qed.

Lemma chunks_of_two opt (l : list A) : 1 <= opt -> 2 * opt <= length l ->
  exists c1 c2 rest, chunks_of (length l) opt l = c1 :: c2 :: rest.
Proof.
  intros Ho Hl. destruct l as [|x l]; [simpl in Hl; lia|].
  cbn [length chunks_of]. remember (x :: l) as xl eqn:E.
  assert (L2 : 1 <= length (skipn opt xl)) by (rewrite skipn_length; subst xl; cbn [length] in *; lia).
  destruct (skipn opt xl) as [|y r] eqn:Es; [simpl in L2; lia|].
  destruct (length l) as [|f] eqn:El.
  - subst xl. simpl in Hl. lia.
  - cbn [chunks_of]. eauto.
Qed.

Lemma chunk_list_spec (l : list A) mn opt : 1 <= opt -> 2 * opt <= length l ->
  exists cs, chunk_list l mn opt = Ok cs /\ concat cs = l /\ Forall (fun c => c <> []) cs /\
             length cs <= length l / opt + 1.
Proof.
  intros Ho Hl. unfold chunk_list.
  destruct (Nat.ltb_spec (length l) (2 * opt)) as [C|_]; [lia|].
  destruct (Nat.eqb_spec opt 0) as [C|_]; [lia|].
  destruct (chunks_of_spec opt Ho (length l) l (le_n _)) as (H1 & H2 & H3).
  destruct (chunks_of_two opt l Ho Hl) as (c1 & c2 & rest & E2).
  set (chunks := chunks_of (length l) opt l) in *.
  assert (K : length chunks <= length l / opt + 1).
  { assert (length chunks - 1 <= length l / opt); [|lia].
    apply Nat.div_le_lower_bound; [lia|]. nia. }
  assert (Lr : 2 <= length (rev chunks)) by (rewrite rev_length, E2; simpl; lia).
  destruct (rev chunks) as [|last [|prev before]] eqn:Er; try (simpl in Lr; lia).
  assert (Ec : chunks = rev before ++ [prev; last]).
  { rewrite <- (rev_involutive chunks), Er. simpl. rewrite <- app_assoc. reflexivity. }
  destruct (length last <? mn).
  - exists (rev before ++ [prev ++ last]). split; [reflexivity|].
    rewrite Ec in H1, H2, K. rewrite concat_app in *. cbn [concat] in *. rewrite app_nil_r in *.
    split; [exact H1|]. split.
    + apply Forall_app in H2. destruct H2 as [Hb Hpl]. apply Forall_app. split; [assumption|].
      constructor; [|constructor]. pose proof (Forall_inv Hpl) as Hp. destruct prev; [congruence | discriminate].
    + rewrite app_length in *. simpl in *. lia.
  - exists chunks. auto.
Qed.
End Chunks.

Section Eff.
Variable R : Type.
Variables (rO rI : R) (radd rmul rsub : R -> R -> R) (ropp : R -> R).
Variable Rth : ring_theory rO rI radd rmul rsub ropp eq.
Add Ring RrE : Rth.
Notation entry := (entry R).
Notation wmat := (nat * (bits -> bits -> R))%type (only parsing).
Notation ofE := (ofE R rI).
Notation mv := (mv R radd rmul).
Notation sem := (sem R radd rmul).
Notation kronW := (kronW R rI rmul).
Notation weq := (weq R).
Notation meq := (meq R).
Notation wf_layer := (wf_layer R).
Notation layer_items := (layer_items R).
Notation layers_sem := (layers_sem R radd rmul).
Notation plan_ok := (plan_ok R radd rmul).
Notation state_eq := (state_eq R).
Notation many_matrices := (many_matrices R).
Notation reduce_arr := (reduce_arr R rI rmul).
Notation leg_mat := (leg_mat R rO rI).

Let legs_of (ms : list wmat) := map (fun a : wmat => (fst a, Some (snd a))) ms.

Lemma legs_of_width ms : legs_width R (legs_of ms) = widths R ms.
Proof. unfold legs_width, widths, legs_of. induction ms as [|a ms IH]; [reflexivity|]. cbn [map fold_right fst]. now rewrite IH. Qed.
Lemma legs_of_mats ms : weq (kronW (map leg_mat (legs_of ms))) (kronW ms).
Proof.
  apply kronW_weq_list. induction ms as [|[w a] ms IH]; [constructor|]. constructor; [|exact IH].
  apply weq_refl.
Qed.

(* the common core of the medium and high regimes: matrices equal to the Kronecker products of consecutive chunks *)
Lemma many_ok n l (chunks : list (list entry)) (ms : list wmat) :
  wf_layer n l -> concat chunks = l ->
  Forall2 (fun c m => weq m (kronW (map ofE c))) chunks ms -> 2 * length ms <= 26 ->
  exists p, many_matrices n ms = Ok p /\ plan_ok n l p.
Proof.
  intros Hl Hc HF H26. unfold Backends.many_matrices. fold (legs_of ms).
  destruct (Nat.ltb_spec 26 (2 * length ms)) as [C|_]; [lia|].
  assert (W : weq (kronW ms) (kronW (map ofE l))).
  { eapply weq_trans; [apply kronW_weq_list with (l' := map kronW (map (map ofE) chunks))|].
    - clear -HF. induction HF; constructor; auto.
    - eapply weq_trans; [apply (kronW_concat R rO rI radd rmul rsub ropp Rth)|].
      rewrite <- concat_map, Hc. apply weq_refl. }
  assert (Wn : legs_width R (legs_of ms) = n).
  { rewrite legs_of_width, <- fst_kronW with (rI := rI) (rmul := rmul). destruct W as [W1 _]. rewrite W1.
    now apply kron_layer_width. }
  rewrite Wn, Nat.eqb_refl. eexists. split; [reflexivity|].
  intros psi b Lb. cbn [Backends.exec1]. rewrite memoT_get by assumption.
  rewrite (contractI_spec R rO rI radd rmul rsub ropp Rth) by congruence. rewrite Wn.
  assert (W2 : weq (kronW (map leg_mat (legs_of ms))) (kronW (map ofE l))) by (eapply weq_trans; [apply legs_of_mats | exact W]).
  destruct W2 as [W21 W22].
  assert (Fn : fst (kronW (map leg_mat (legs_of ms))) = n) by (rewrite W21; now apply kron_layer_width).
  rewrite Fn in W22.
  rewrite (mv_meq R radd rmul n _ (snd (kronW (map ofE l))) psi psi b); auto.
  now apply (kron_is_slots R rO rI radd rmul rsub ropp Rth).
Qed.

(* a chunk that contains a matrix passes the scalar guard; with np.atleast_2d every chunk passes *)
Lemma reduce_arr_ok b c : c <> [] -> (b = true \/ forallb (isOne R) c = false) ->
  exists m, reduce_arr b c = Ok m /\ weq m (kronW (map ofE c)).
Proof.
  intros Hc Hb. unfold Backends.reduce_arr.
  destruct (reduce_kron_spec R rO rI radd rmul rsub ropp Rth (map ofE c)) as (m & Hm & W); [destruct c; [congruence | discriminate]|].
  rewrite Hm. cbn [rbind]. exists m. split; [|exact W].
  destruct Hb as [-> | ->]; [reflexivity|]. now rewrite andb_false_r.
Qed.

(* a well-formed layer has a matrix among its first two entries, and in every suffix of length >= 2 *)
Lemma wf_has_matrix n l : wf_layer n l -> 1 <= n -> forallb (isOne R) l = false.
Proof. intros H Hn. destruct H; cbn; try reflexivity. lia. Qed.
Lemma wf_prefix_matrix n l s : wf_layer n l -> 2 <= s -> 2 <= n -> forallb (isOne R) (firstn s l) = false.
Proof.
  intros H Hs Hn. destruct s as [|[|s]]; try lia. destruct H; cbn; try reflexivity; try lia.
Qed.
Lemma wf_suffix_matrix n l : wf_layer n l -> forall s, s + 2 <= length l -> forallb (isOne R) (skipn s l) = false.
Proof.
  induction 1 as [|n A l Hl IH|n G l Hl IH|n G l Hl IH]; intros s Hs; cbn [length] in Hs.
  - lia.
  - destruct s; [reflexivity|]. cbn [skipn]. apply IH. lia.
  - destruct s as [|[|s]]; [reflexivity| |cbn [skipn]; apply IH; lia].
    cbn [skipn forallb isOne andb]. apply (wf_has_matrix n l Hl). rewrite <- (wf_layer_length R n l Hl). lia.
  - destruct s as [|[|s]]; [reflexivity|reflexivity|cbn [skipn]; apply IH; lia].
Qed.

Lemma half_bounds n : 4 <= n -> 2 <= n / 2 /\ n / 2 + 2 <= n.
Proof.
  intros H. pose proof (Nat.div_mod n 2 ltac:(lia)) as E. pose proof (Nat.mod_upper_bound n 2 ltac:(lia)) as U. lia.
Qed.

Notation eff_low := (eff_low R rI rmul).
Notation eff_medium := (eff_medium R rI rmul).
Notation eff_high := (eff_high R rI rmul).
Notation eff_plan := (eff_plan R rI rmul).
Notation eff := (eff R rI radd rmul).

Lemma eff_low_ok n l : 1 <= n -> wf_layer n l -> exists p, eff_low n l = Ok p /\ plan_ok n l p.
Proof.
  intros Hn Hl. unfold Backends.eff_low.
  destruct (reduce_kron_spec R rO rI radd rmul rsub ropp Rth (map ofE l) (wf_nonempty R rI n l Hl Hn)) as (m & Hm & [Hm1 Hm2]).
  rewrite (kron_layer_width R rI rmul n l Hl) in Hm1. rewrite Hm. cbn [rbind]. rewrite Hm1, Nat.eqb_refl.
  eexists. split; [reflexivity|]. apply (matvec_ok R rO rI radd rmul rsub ropp Rth); [assumption|]. now rewrite <- Hm1.
Qed.

Lemma eff_medium_ok n l : 4 <= n -> wf_layer n l -> exists p, eff_medium n l = Ok p /\ plan_ok n l p.
Proof.
  intros Hn Hl. unfold Backends.eff_medium. destruct (half_bounds n Hn) as [B1 B2].
  pose proof (wf_layer_length R n l Hl) as Ll.
  destruct (reduce_arr_ok false (firstn (n / 2) l)) as (a1 & E1 & W1).
  { intros C. apply (f_equal (@length _)) in C. rewrite firstn_length in C. cbn [length] in C. lia. }
  { right. apply (wf_prefix_matrix n l); auto; lia. }
  destruct (reduce_arr_ok false (skipn (n / 2) l)) as (a2 & E2 & W2).
  { intros C. apply (f_equal (@length _)) in C. rewrite skipn_length in C. cbn [length] in C. lia. }
  { right. apply (wf_suffix_matrix n l Hl). lia. }
  rewrite E1. cbn [rbind]. rewrite E2. cbn [rbind].
  apply (many_ok n l [firstn (n / 2) l; skipn (n / 2) l] [a1; a2]); auto.
  - cbn [concat]. now rewrite app_nil_r, firstn_skipn.
  - simpl. lia.
Qed.

Lemma eff_high_ok n mn op l : 1 <= op -> 2 * op <= n -> 2 * (n / op + 1) <= 26 -> wf_layer n l ->
  exists p, eff_high n mn op l = Ok p /\ plan_ok n l p.
Proof.
  intros Ho H2 H26 Hl. unfold Backends.eff_high. pose proof (wf_layer_length R n l Hl) as Ll.
  destruct (chunk_list_spec l mn op Ho ltac:(lia)) as (cs & Ec & Hc & Hne & Hk).
  rewrite Ec. cbn [rbind].
  destruct (mapM_ok (reduce_arr true) (fun c m => weq m (kronW (map ofE c))) cs) as (ms & Em & HF).
  { intros c Hin. rewrite Forall_forall in Hne. apply reduce_arr_ok; [now apply Hne | now left]. }
  rewrite Em. cbn [rbind]. apply (many_ok n l cs ms); auto.
  assert (Lm : length ms = length cs) by (clear -HF; induction HF; simpl; congruence).
  rewrite Lm. rewrite Ll in Hk. lia.
Qed.

(* eff_spec: every regime of EfficientBackend computes the layered product.  The last hypothesis implies the code's
   26-letter assertion (at most n/opt + 1 chunks); it only matters in the many-chunk regime 2*opt <= n. *)
Theorem eff_spec n mn op ls psi :
  1 <= n -> 1 <= mn -> 1 <= op -> ls <> [] -> Forall (wf_layer n) ls ->
  (4 <= n -> 2 * op <= n -> 2 * (n / op + 1) <= 26) ->
  exists out, eff n mn op ls psi = Ok out /\ state_eq n out (layers_sem ls psi).
Proof.
  intros Hn Hmn Ho Hne Hwf H26. unfold Backends.eff.
  assert (P : exists ps, eff_plan n mn op ls = Ok ps /\ Forall2 (plan_ok n) ls ps).
  { unfold Backends.eff_plan. destruct ls as [|l0 rest] eqn:Els; [congruence|]. rewrite <- Els in *. clear Els l0 rest.
    rewrite Forall_forall in Hwf.
    destruct (Nat.ltb_spec n 4) as [C|C].
    - apply mapM_ok. intros l Hin. apply eff_low_ok; auto.
    - destruct (Nat.leb_spec (2 * op) n) as [D|D].
      + apply mapM_ok. intros l Hin. apply eff_high_ok; auto.
      + apply mapM_ok. intros l Hin. apply eff_medium_ok; auto. }
  destruct P as (ps & Ep & HF). rewrite Ep. cbn [rbind]. eexists. split; [reflexivity|].
  now apply (exec_ok R radd rmul).
Qed.

End Eff.
