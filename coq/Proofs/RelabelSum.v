(* C08, relabelling and subset clauses, part 3: sums of outcome weights over bit lists (any commutative ring of weights).

   Vocabulary.  w : bits -> R assigns a weight (Born weight, probability) to every assignment of bits to the n
   internal qubits (position i of the bit list = internal qubit i).  Measuring the positions pos (in this order) gives
   the key  bsel b pos = [b[pos_0]; b[pos_1]; ...];  the weight of key t is
       marg n w pos t = sum over all b of length n with bsel b pos = t of w b
   (this is C14's msum, see RelabelMsum.v).
   - bsum_reindex: a sum over all bit lists of length w is invariant under a bijection of the bit lists of length w;
   - marg_relabel: weights that agree through a permutation s of the positions give the same key weights when the
     measured positions are mapped by s;
   - subset_is_marginal: measuring the sub-selection  pos'[idx_0], pos'[idx_1], ...  of the measured positions pos'
     gives the marginal of the key weights of measuring pos'. *)
From Coq Require Import List Bool Arith Lia Ring Permutation.
Require Import QG.Base.State QG.Base.Mat QG.Base.Perm.
Import ListNotations.

Definition bsel (b : bits) (pos : list nat) : bits := map (get b) pos.

Lemma bsel_length b pos : length (bsel b pos) = length pos.
Proof. unfold bsel. apply map_length. Qed.

Lemma bsel_bsel b pos idx : Forall (fun k => k < length pos) idx ->
  bsel (bsel b pos) idx = bsel b (map (fun k => nth k pos 0) idx).
Proof.
  intros F. unfold bsel. rewrite map_map. apply map_ext_in. intros k Hk.
  rewrite Forall_forall in F. specialize (F k Hk). unfold get at 1.
  rewrite (nth_indep _ false (get b 0)) by (now rewrite map_length). now rewrite map_nth.
Qed.

Lemma bsel_permute s b pos : perm_on (length b) s -> Forall (fun q => q < length b) pos ->
  bsel (permute s b) (map s pos) = bsel b pos.
Proof.
  intros Hp F. unfold bsel. rewrite map_map. apply map_ext_in. intros q Hq.
  rewrite Forall_forall in F. now apply get_permute; auto.
Qed.

(* ---- all bit lists of a given length, without repetition ---- *)
Lemma all_bits_complete w : forall b, length b = w -> In b (all_bits w).
Proof.
  induction w as [|w IH]; intros b L.
  - destruct b; [now left | discriminate].
  - destruct b as [|h t]; [discriminate|]. cbn [all_bits]. apply in_or_app.
    destruct h; [right | left]; apply in_map; apply IH; simpl in L; lia.
Qed.

Lemma NoDup_app_disj {A} (a b : list A) : NoDup a -> NoDup b -> (forall x, In x a -> ~ In x b) -> NoDup (a ++ b).
Proof.
  induction a as [|x r IH]; intros Na Nb D; cbn [app]; auto.
  apply NoDup_cons_iff in Na as [Hx Nr]. constructor.
  - intros Hin. apply in_app_or in Hin as [Hin|Hin]; [now apply Hx|]. apply (D x); [now left | assumption].
  - apply IH; auto. intros y Hy. apply D. now right.
Qed.

Lemma all_bits_nodup w : NoDup (all_bits w).
Proof.
  induction w as [|w IH]; cbn [all_bits].
  - constructor; [intros []|constructor].
  - apply NoDup_app_disj.
    + apply NoDup_map_inj_in; auto. intros x y _ _ E. now injection E.
    + apply NoDup_map_inj_in; auto. intros x y _ _ E. now injection E.
    + intros x Hx Hy. apply in_map_iff in Hx as (a & <- & _). apply in_map_iff in Hy as (c & E & _). discriminate E.
Qed.

Section Sums.
Variable R : Type.
Variables (rO rI : R) (radd rmul rsub : R -> R -> R) (ropp : R -> R).
Variable Rth : ring_theory rO rI radd rmul rsub ropp eq.
Add Ring RrRelabelSum : Rth.
Infix "+" := radd. Infix "*" := rmul.
Notation bsum := (bsum R radd).

Fixpoint lsum (l : list R) : R := match l with [] => rO | x :: r => x + lsum r end.
Lemma lsum_app a b : lsum (a ++ b) = lsum a + lsum b.
Proof. induction a as [|x r IH]; cbn [app lsum]; [ring|]. rewrite IH. ring. Qed.
Lemma lsum_perm l l' : Permutation l l' -> lsum l = lsum l'.
Proof.
  induction 1; cbn [lsum]; auto.
  - now rewrite IHPermutation.
  - ring.
  - congruence.
Qed.

Lemma bsum_lsum w : forall f, bsum w f = lsum (map f (all_bits w)).
Proof.
  induction w as [|w IH]; intros f; cbn [Mat.bsum all_bits map].
  - cbn [lsum]. ring.
  - rewrite map_app, lsum_app, !map_map, !IH. reflexivity.
Qed.

(* a sum over all bit lists of length w is invariant under a bijection of those bit lists *)
Lemma bsum_reindex w (g : bits -> bits) (f : bits -> R) :
  (forall b, length b = w -> length (g b) = w) ->
  (forall a b, length a = w -> length b = w -> g a = g b -> a = b) ->
  bsum w (fun b => f (g b)) = bsum w f.
Proof.
  intros Hl Hi. rewrite !bsum_lsum. rewrite <- (map_map g f). apply lsum_perm. apply Permutation_map.
  apply NoDup_Permutation_bis.
  - apply NoDup_map_inj_in; [apply all_bits_nodup|]. intros x y Hx Hy. apply Hi; now apply all_bits_length.
  - rewrite map_length. lia.
  - intros y Hy. apply in_map_iff in Hy as (x & <- & Hx). apply all_bits_complete. apply Hl. now apply all_bits_length.
Qed.

(* weight of the key t when the positions pos are measured *)
Definition marg (n : nat) (w : bits -> R) (pos : list nat) (t : bits) : R :=
  bsum n (fun b => if beq (bsel b pos) t then w b else rO).

(* relabelling: weights that agree through the permutation s give the same key weights on the s-images of the positions *)
Lemma marg_relabel n s (w w' : bits -> R) pos t :
  perm_on n s -> Forall (fun q => q < n) pos -> (forall b, length b = n -> w' (permute s b) = w b) ->
  marg n w' (map s pos) t = marg n w pos t.
Proof.
  intros Hp F Hw. unfold marg.
  rewrite <- (bsum_reindex n (permute s) (fun b => if beq (bsel b (map s pos)) t then w' b else rO)).
  - apply bsum_ext. intros b L. rewrite bsel_permute by (now rewrite L). now rewrite Hw.
  - intros b L. now rewrite permute_length.
  - intros a b La Lb. apply permute_inj; [now rewrite La | congruence].
Qed.

(* measuring a sub-selection of the measured positions = marginal of measuring all of them *)
Lemma subset_is_marginal n (w : bits -> R) pos' idx t :
  Forall (fun k => k < length pos') idx ->
  marg n w (map (fun k => nth k pos' 0) idx) t
  = bsum (length pos') (fun t' => if beq (bsel t' idx) t then marg n w pos' t' else rO).
Proof.
  intros F. symmetry. unfold marg.
  rewrite (bsum_ext R radd (length pos') _
            (fun t' => bsum n (fun b => if beq (bsel t' idx) t then (if beq (bsel b pos') t' then w b else rO) else rO))).
  2:{ intros t' _. destruct (beq (bsel t' idx) t); [reflexivity|]. symmetry. apply (bsum_zero_ext R rO rI radd rmul rsub ropp Rth). reflexivity. }
  rewrite (bsum_swap R rO rI radd rmul rsub ropp Rth).
  apply bsum_ext. intros b Lb.
  rewrite (bsum_ext R radd (length pos') _
            (fun t' => (if beq (bsel b pos') t' then rI else rO) * (if beq (bsel t' idx) t then w b else rO))).
  2:{ intros t' _. destruct (beq (bsel t' idx) t), (beq (bsel b pos') t'); ring. }
  rewrite (bsum_delta R rO rI radd rmul rsub ropp Rth) by apply bsel_length.
  now rewrite bsel_bsel.
Qed.

(* total weight is the sum of the key weights (measuring nothing: the single empty key carries everything) *)
Lemma marg_nil n (w : bits -> R) : marg n w [] [] = bsum n w.
Proof. unfold marg. apply bsum_ext. intros b _. reflexivity. Qed.

End Sums.
