(* C03 — proofs about Model/SimLoopLayered.v (the layered branch of the simulator's instruction loop):
   translate_layered_wf: on instruction lists as Qiskit builds them (wf_qiskit), whose used labels are exactly 0..n-1 (the layout
   the layered classes are meant for: physical label = index) and whose cx / ecr act on neighbouring labels (adjacent_q), the loop
   raises nothing with nqubit = n; every group (per-instruction loop of calls) addresses indices < n, two-qubit groups distinct
   neighbouring ones; the noise-free program is well-formed over n qubits and adjacent. *)
From Coq Require Import List Bool Arith NArith ZArith Lia.
Require Import QG.Base.Res QG.Base.State QG.Model.FixCounts QG.Model.SimRun QG.Model.NoiseFreeRun QG.Model.SimLoop QG.Model.SimLoopLayered.
Require Import QG.Proofs.FrameSim QG.Proofs.SimRunKeys QG.Proofs.SimRunProofs QG.Proofs.SimLoop QG.Proofs.SimLoopLayeredCalls.
Import ListNotations.

(* cx / ecr on neighbouring physical labels *)
Definition adjacent_q (x : qinstr) : Prop :=
  match iname x with
  | OpCx | OpEcr =>
      match iqs x with [c; t] => N.to_nat c = S (N.to_nat t) \/ N.to_nat t = S (N.to_nat c) | _ => True end
  | _ => True
  end.
(* the layout 0, 1, ..., n-1 *)
Definition id_layout (n : nat) : list N := map N.of_nat (seq 0 n).
Lemma in_id_layout q n : In q (id_layout n) -> N.to_nat q < n.
Proof. unfold id_layout. intros H. apply in_map_iff in H as (k & <- & Hk). apply in_seq in Hk. rewrite Nat2N.id. lia. Qed.

Section LoopL.
Variables A D : Type.
Variable theta : nat -> A.
Variable dur : nat -> D.
Notation group := (group A D).
Notation app_step_l := (app_step_l A D theta dur).
Notation apply_loop_l := (apply_loop_l A D theta dur).
Notation group_wf := (group_wf A D). Notation group_adj := (group_adj A D).
Notation nf_prog_groups := (nf_prog_groups A D).

Lemma apply_loop_l_app a b :
  apply_loop_l (a ++ b) = (x <- apply_loop_l a ;; y <- apply_loop_l b ;; Ok (x ++ y)).
Proof.
  induction a as [|jx r IH]; cbn [app SimLoopLayered.apply_loop_l rbind].
  - destruct (apply_loop_l b); reflexivity.
  - destruct (app_step_l jx) as [ca|e]; cbn [rbind]; [|reflexivity]. rewrite IH.
    destruct (apply_loop_l r) as [cr|e]; cbn [rbind]; [|reflexivity].
    destruct (apply_loop_l b) as [cb|e]; cbn [rbind]; [|reflexivity]. now rewrite app_assoc.
Qed.
Lemma apply_loop_l_one jx : apply_loop_l [jx] = (a <- app_step_l jx ;; Ok (a ++ [])).
Proof. reflexivity. Qed.

(* one instruction: kept or not, its group *)
Lemma lstep_ok used n jx : (forall q, In q used -> N.to_nat q < n) ->
  wf_qiskit (snd jx) -> covered used (snd jx) -> adjacent_q (snd jx) ->
  exists a ga, pre_step used jx = Ok a /\ apply_loop_l a = Ok ga /\ Forall (group_wf n) ga /\ Forall group_adj ga.
Proof.
  intros Hu. destruct jx as [j x]. cbn [snd]. unfold wf_qiskit, covered, adjacent_q, SimLoop.pre_step. cbn [snd].
  destruct (iname x) eqn:En; cbn [is_delay is_barrier]; intros W C Ad.
  - (* delay *) destruct W as (q & Eq). rewrite Eq. cbn [negb]. rewrite andb_true_r.
    destruct (memN q used) eqn:Em.
    + apply memN_In in Em. eexists; eexists. split; [reflexivity|]. rewrite apply_loop_l_one. unfold SimLoopLayered.app_step_l.
      cbn [fst snd]. rewrite En. unfold one_label. rewrite Eq. cbn [rbind app]. split; [reflexivity|].
      split; (apply Forall_cons; [|apply Forall_nil]); cbn; auto.
    + eexists; eexists. split; [reflexivity|]. split; [reflexivity|split; constructor].
  - (* measure *) destruct W as (q & c & Eq & Ec). rewrite Eq, Ec in *.
    destruct (lindex_in q used C) as (i & El & _). rewrite El. cbn [rbind].
    eexists; eexists. split; [reflexivity|]. split; [reflexivity|split; constructor].
  - (* barrier *) destruct (iqs x) as [|q r]; [congruence|]. cbn [negb]. rewrite andb_false_r.
    eexists; eexists. split; [reflexivity|]. split; [reflexivity|split; constructor].
  - (* rz *) destruct W as (q & Eq). rewrite Eq in *. rewrite (memN_true _ _ C). cbn [negb andb].
    eexists; eexists. split; [reflexivity|]. rewrite apply_loop_l_one. unfold SimLoopLayered.app_step_l. cbn [fst snd]. rewrite En.
    unfold one_label. rewrite Eq. cbn [rbind app]. split; [reflexivity|]. split; (apply Forall_cons; [|apply Forall_nil]); cbn; auto.
  - (* sx *) destruct W as (q & Eq). rewrite Eq in *. rewrite (memN_true _ _ C). cbn [negb andb].
    eexists; eexists. split; [reflexivity|]. rewrite apply_loop_l_one. unfold SimLoopLayered.app_step_l. cbn [fst snd]. rewrite En.
    unfold one_label. rewrite Eq. cbn [rbind app]. split; [reflexivity|]. split; (apply Forall_cons; [|apply Forall_nil]); cbn; auto.
  - (* x *) destruct W as (q & Eq). rewrite Eq in *. rewrite (memN_true _ _ C). cbn [negb andb].
    eexists; eexists. split; [reflexivity|]. rewrite apply_loop_l_one. unfold SimLoopLayered.app_step_l. cbn [fst snd]. rewrite En.
    unfold one_label. rewrite Eq. cbn [rbind app]. split; [reflexivity|]. split; (apply Forall_cons; [|apply Forall_nil]); cbn; auto.
  - (* cx *) destruct W as (c & t & Eq & Hne). rewrite Eq in *. destruct C as [Cc Ct].
    rewrite (memN_true _ _ Cc), (memN_true _ _ Ct). cbn [andb].
    eexists; eexists. split; [reflexivity|]. rewrite apply_loop_l_one. unfold SimLoopLayered.app_step_l. cbn [fst snd]. rewrite En.
    unfold two_labels. rewrite Eq. cbn [rbind app]. split; [reflexivity|]. split; (apply Forall_cons; [|apply Forall_nil]).
    + cbn. repeat split; auto. intros E. apply Hne. now apply N2Nat.inj.
    + cbn. exact Ad.
  - (* ecr *) destruct W as (c & t & Eq & Hne). rewrite Eq in *. destruct C as [Cc Ct].
    rewrite (memN_true _ _ Cc), (memN_true _ _ Ct). cbn [andb].
    eexists; eexists. split; [reflexivity|]. rewrite apply_loop_l_one. unfold SimLoopLayered.app_step_l. cbn [fst snd]. rewrite En.
    unfold two_labels. rewrite Eq. cbn [rbind app]. split; [reflexivity|]. split; (apply Forall_cons; [|apply Forall_nil]).
    + cbn. repeat split; auto. intros E. apply Hne. now apply N2Nat.inj.
    + cbn. exact Ad.
  - (* any other name *) destruct (iqs x) as [|q r]; [congruence|]. cbn [negb]. rewrite andb_true_r.
    destruct (memN q used).
    + eexists; eexists. split; [reflexivity|]. rewrite apply_loop_l_one. unfold SimLoopLayered.app_step_l. cbn [fst snd]. rewrite En. cbn [rbind app].
      split; [reflexivity|split; constructor].
    + eexists; eexists. split; [reflexivity|]. split; [reflexivity|split; constructor].
Qed.

Lemma lbody_ok used n (l : list (nat * qinstr)) : (forall q, In q used -> N.to_nat q < n) ->
  Forall (fun jx => wf_qiskit (snd jx) /\ covered used (snd jx) /\ adjacent_q (snd jx)) l ->
  exists d gs, preprocess used l = Ok d /\ apply_loop_l d = Ok gs /\ Forall (group_wf n) gs /\ Forall group_adj gs.
Proof.
  intros Hu. induction 1 as [|jx r (W & C & Ad) _ (d & gs & Ep & Ea & Fw & Fa)].
  - exists [], []. repeat split; constructor.
  - destruct (lstep_ok used n jx Hu W C Ad) as (a & ga & E1 & E2 & F1 & F2).
    exists (a ++ d), (ga ++ gs). cbn [preprocess]. rewrite E1. cbn [rbind]. rewrite Ep. cbn [rbind].
    split; [reflexivity|]. rewrite apply_loop_l_app, E2. cbn [rbind]. rewrite Ea. cbn [rbind].
    split; [reflexivity|]. split; apply Forall_app; auto.
Qed.

Theorem translate_layered_wf data used meas n :
  Forall wf_qiskit data -> process_layout data = Ok (used, meas, n) -> used = id_layout n -> Forall adjacent_q data ->
  exists gs, translate_groups A D theta dur used data = Ok gs /\
    Forall (group_wf n) gs /\ Forall group_adj gs /\
    translate_calls_layered A D theta dur used (Z.of_nat n) data = Ok (calls_of_groups A D n gs) /\
    translate_layered A D theta dur used data = Ok (nf_prog_groups gs) /\
    Forall (NoiseFreeRun.wf_instr n) (nf_prog_groups gs) /\ Forall NoiseFreeRun.adjacent_instr (nf_prog_groups gs).
Proof.
  intros W Hl Hu Ad.
  assert (Hin : forall q, In q used -> N.to_nat q < n) by (intros q Hq; rewrite Hu in Hq; now apply in_id_layout).
  pose proof (layout_covers _ _ _ _ Hl) as C.
  assert (F : Forall (fun jx => wf_qiskit (snd jx) /\ covered used (snd jx) /\ adjacent_q (snd jx)) (numbered data)).
  { apply (numbered_snd data (fun x => wf_qiskit x /\ covered used x /\ adjacent_q x)).
    rewrite Forall_forall in *. intros x Hx. auto. }
  destruct (lbody_ok used n _ Hin F) as (d & gs & Ep & Ea & Fw & Fa).
  exists gs. unfold translate_calls_layered, translate_layered, translate_groups. rewrite Ep. cbn [rbind]. rewrite Ea. cbn [rbind rmap].
  rewrite Nat2Z.id. repeat split; auto.
  - now apply groups_wf_prog.
  - now apply groups_adj_prog.
Qed.
End LoopL.
