(* C03 — proofs about Model/SimLoopLayered.v (the layered branch of the simulator's instruction loop):
   translate_layered_wf: on instruction lists as Qiskit builds them (wf_qiskit), whose used labels are exactly 0..n-1 (the layout
   the layered classes are meant for: physical label = index) and whose cx / ecr act on neighbouring labels (adjacent_q), the loop
   raises nothing with nqubit = n; every group (per-instruction loop of calls) addresses indices < n, two-qubit groups distinct
   neighbouring ones; the noise-free program is well-formed over n qubits and adjacent. *)
From Coq Require Import List Bool Arith NArith ZArith Lia.
Require Import QG.Base.Res QG.Base.State QG.Model.FixCounts QG.Model.SimRun QG.Model.NoiseFreeRun QG.Model.SimLoop QG.Model.SimLoopLayered.
Require Import QG.Proofs.FrameSim QG.Proofs.SimRunKeys QG.Proofs.SimRunProofs QG.Proofs.SimLoop QG.Proofs.SimLoopLayeredCalls.
Import ListNotations.

(* cx / ecr on neighbouring physical labels *)
Definition adjacent_q (x : qinstr) : Prop :=
  match iname x with
  | OpCx | OpEcr =>
      match iqs x with [c; t] => N.to_nat c = S (N.to_nat t) \/ N.to_nat t = S (N.to_nat c) | _ => True end
  | _ => True
  end.
(* the layout 0, 1, ..., n-1 *)
Definition id_layout (n : nat) : list N := map N.of_nat (seq 0 n).
Lemma in_id_layout q n : In q (id_layout n) -> N.to_nat q < n.
Proof. unfold id_layout. intros H. apply in_map_iff in H as (k & <- & Hk). apply in_seq in Hk. rewrite Nat2N.id. lia. Qed.

Section LoopL.
Variables A D : Type.
Variable theta : nat -> A.
Variable dur : nat -> D.
Notation group := (group A D).
Notation app_step_l := (app_step_l A D theta dur).
Notation apply_loop_l := (apply_loop_l A D theta dur).
Notation group_wf := (group_wf A D). Notation group_adj := (group_adj A D).
Notation nf_prog_groups := (nf_prog_groups A D).

Lemma apply_loop_l_app a b :
  apply_loop_l (a ++ b) = (x <- apply_loop_l a ;; y <- apply_loop_l b ;; Ok (x ++ y)).
Proof.
  induction a as [|jx r IH]; cbn [app SimLoopLayered.apply_loop_l rbind].
  - destruct (apply_loop_l b); reflexivity.
  - destruct (app_step_l jx) as [ca|e]; cbn [rbind]; [|reflexivity]. rewrite IH.
    destruct (apply_loop_l r) as [cr|e]; cbn [rbind]; [|reflexivity].
    destruct (apply_loop_l b) as [cb|e]; cbn [rbind]; [|reflexivity]. now rewrite app_assoc.
Qed.
Lemma apply_loop_l_one jx : apply_loop_l [jx] = (a <- app_step_l jx ;; Ok (a ++ [])).
Proof. reflexivity. Qed.

(* one instruction: kept or not, its group *)
Lemma lstep_ok used n jx : (forall q, In q used -> N.to_nat q < n) ->
  wf_qiskit (snd jx) -> covered used (snd jx) -> adjacent_q (snd jx) ->
  exists a ga, pre_step used jx = Ok a /\ apply_loop_l a = Ok ga /\ Forall (group_wf n) ga /\ Forall group_adj ga.
Proof.
  intros Hu. destruct jx as [j x]. cbn [snd]. unfold wf_qiskit, covered, adjacent_q, SimLoop.pre_step. cbn [snd].
  destruct (iname x) eqn:En; cbn [is_delay is_barrier]; intros W C Ad.
  - (* delay *) destruct W as (q & Eq). rewrite Eq. cbn [negb]. rewrite andb_true_r.
    destruct (memN q used) eqn:Em.
    + apply memN_In in Em. eexists; eexists. split; [reflexivity|]. rewrite apply_loop_l_one. unfold SimLoopLayered.app_step_l.
      cbn [fst snd]. rewrite En. unfold one_label. rewrite Eq. cbn [rbind app]. split; [reflexivity|].
      split; (apply Forall_cons; [|apply Forall_nil]); cbn; auto.
    + eexists; eexists. split; [reflexivity|]. split; [reflexivity|split; constructor].
  - (* measure *) destruct W as (q & c & Eq & Ec). rewrite Eq, Ec in *.
    destruct (lindex_in q used C) as (i & El & _). rewrite El. cbn [rbind].
    eexists; eexists. split; [reflexivity|]. split; [reflexivity|split; constructor].
  - (* barrier *) destruct (iqs x) as [|q r]; [congruence|]. cbn [negb]. rewrite andb_false_r.
    eexists; eexists. split; [reflexivity|]. split; [reflexivity|split; constructor].
  - (* rz *) destruct W as (q & Eq). rewrite Eq in *. rewrite (memN_true _ _ C). cbn [negb andb].
    eexists; eexists. split; [reflexivity|]. rewrite apply_loop_l_one. unfold SimLoopLayered.app_step_l. cbn [fst snd]. rewrite En.
    unfold one_label. rewrite Eq. cbn [rbind app]. split; [reflexivity|]. split; (apply Forall_cons; [|apply Forall_nil]); cbn; auto.
  - (* sx *) destruct W as (q & Eq). rewrite Eq in *. rewrite (memN_true _ _ C). cbn [negb andb].
    eexists; eexists. split; [reflexivity|]. rewrite apply_loop_l_one. unfold SimLoopLayered.app_step_l. cbn [fst snd]. rewrite En.
    unfold one_label. rewrite Eq. cbn [rbind app]. split; [reflexivity|]. split; (apply Forall_cons; [|apply Forall_nil]); cbn; auto.
  - (* x *) destruct W as (q & Eq). rewrite Eq in *. rewrite (memN_true _ _ C). cbn [negb andb].
    eexists; eexists. split; [reflexivity|]. rewrite apply_loop_l_one. unfold SimLoopLayered.app_step_l. cbn [fst snd]. rewrite En.
    unfold one_label. rewrite Eq. cbn [rbind app]. split; [reflexivity|]. split; (apply Forall_cons; [|apply Forall_nil]); cbn; auto.
  - (* cx *) destruct W as (c & t & Eq & Hne). rewrite Eq in *. destruct C as [Cc Ct].
    rewrite (memN_true _ _ Cc), (memN_true _ _ Ct). cbn [andb].
    eexists; eexists. split; [reflexivity|]. rewrite apply_loop_l_one. unfold SimLoopLayered.app_step_l. cbn [fst snd]. rewrite En.
    unfold two_labels. rewrite Eq. cbn [rbind app]. split; [reflexivity|]. split; (apply Forall_cons; [|apply Forall_nil]).
    + cbn. repeat split; auto. intros E. apply Hne. now apply N2Nat.inj.
    + cbn. exact Ad.
  - (* ecr *) destruct W as (c & t & Eq & Hne). rewrite Eq in *. destruct C as [Cc Ct].
    rewrite (memN_true _ _ Cc), (memN_true _ _ Ct). cbn [andb].
    eexists; eexists. split; [reflexivity|]. rewrite apply_loop_l_one. unfold SimLoopLayered.app_step_l. cbn [fst snd]. rewrite En.
    unfold two_labels. rewrite Eq. cbn [rbind app]. split; [reflexivity|]. split; (apply Forall_cons; [|apply Forall_nil]).
    + cbn. repeat split; auto. intros E. apply Hne. now apply N2Nat.inj.
    + cbn. exact Ad.
  - (* any other name *) destruct (iqs x) as [|q r]; [congruence|]. cbn [negb]. rewrite andb_true_r.
    destruct (memN q used).
    + eexists; eexists. split; [reflexivity|]. rewrite apply_loop_l_one. unfold SimLoopLayered.app_step_l. cbn [fst snd]. rewrite En. cbn [rbind app].
      split; [reflexivity|split; constructor].
    + eexists; eexists. split; [reflexivity|]. split; [reflexivity|split; constructor].
Qed.

Lemma lbody_ok used n (l : list (nat * qinstr)) : (forall q, In q used -> N.to_nat q < n) ->
  Forall (fun jx => wf_qiskit (snd jx) /\ covered used (snd jx) /\ adjacent_q (snd jx)) l ->
  exists d gs, preprocess used l = Ok d /\ apply_loop_l d = Ok gs /\ Forall (group_wf n) gs /\ Forall group_adj gs.
Proof.
  intros Hu. induction 1 as [|jx r (W & C & Ad) _ (d & gs & Ep & Ea & Fw & Fa)].
  - exists [], []. repeat split; constructor.
  - destruct (lstep_ok used n jx Hu W C Ad) as (a & ga & E1 & E2 & F1 & F2).
    exists (a ++ d), (ga ++ gs). cbn [preprocess]. rewrite E1. cbn [rbind]. rewrite Ep. cbn [rbind].
    split; [reflexivity|]. rewrite apply_loop_l_app, E2. cbn [rbind]. rewrite Ea. cbn [rbind].
    split; [reflexivity|]. split; apply Forall_app; auto.
Qed.

Theorem translate_layered_wf data used meas n :
  Forall wf_qiskit data -> process_layout data = Ok (used, meas, n) -> used = id_layout n -> Forall adjacent_q data ->
  exists gs, translate_groups A D theta dur used data = Ok gs /\
    Forall (group_wf n) gs /\ Forall group_adj gs /\
    translate_calls_layered A D theta dur used (Z.of_nat n) data = Ok (calls_of_groups A D n gs) /\
    translate_layered A D theta dur used data = Ok (nf_prog_groups gs) /\
    Forall (NoiseFreeRun.wf_instr n) (nf_prog_groups gs) /\ Forall NoiseFreeRun.adjacent_instr (nf_prog_groups gs).
Proof.
  intros W Hl Hu Ad.
  assert (Hin : forall q, In q used -> N.to_nat q < n) by (intros q Hq; rewrite Hu in Hq; now apply in_id_layout).
  pose proof (layout_covers _ _ _ _ Hl) as C.
  assert (F : Forall (fun jx => wf_qiskit (snd jx) /\ covered used (snd jx) /\ adjacent_q (snd jx)) (numbered data)).
  { apply (numbered_snd data (fun x => wf_qiskit x /\ covered used x /\ adjacent_q x)).
    rewrite Forall_forall in *. intros x Hx. auto. }
  destruct (lbody_ok used n _ Hin F) as (d & gs & Ep & Ea & Fw & Fa).
  exists gs. unfold translate_calls_layered, translate_layered, translate_groups. rewrite Ep. cbn [rbind]. rewrite Ea. cbn [rbind rmap].
  rewrite Nat2Z.id. repeat split; auto.
  - now apply groups_wf_prog.
  - now apply groups_adj_prog.
Qed.
(* ---- with the layout 0..n-1 the layered branch and the index branch (Model/SimLoop.v) run the SAME noise-free program:
        qubits_layout.index(q) = q ---- *)
Lemma index_of_id_from : forall m a k, k < m -> index_of (N.of_nat (a + k)) (map N.of_nat (seq a m)) = Some k.
Proof.
  induction m as [|m IH]; intros a k Hk; [lia|]. cbn [seq map index_of].
  destruct k as [|k].
  - rewrite Nat.add_0_r, N.eqb_refl. reflexivity.
  - destruct (N.eqb_spec (N.of_nat (a + S k)) (N.of_nat a)) as [E|_]; [apply Nat2N.inj in E; lia|].
    replace (a + S k) with (S a + k) by lia. rewrite IH by lia. reflexivity.
Qed.
Lemma lindex_id q n : In q (id_layout n) -> lindex q (id_layout n) = Ok (N.to_nat q).
Proof.
  intros H. pose proof (in_id_layout q n H) as Hq. unfold lindex, id_layout.
  pose proof (index_of_id_from n 0 (N.to_nat q) Hq) as E. cbn [Nat.add] in E. rewrite N2Nat.id in E. now rewrite E.
Qed.

Lemma both_step n jx : wf_qiskit (snd jx) -> covered (id_layout n) (snd jx) ->
  exists a ca ga, pre_step (id_layout n) jx = Ok a /\ SimLoop.apply_loop A D theta dur (id_layout n) a = Ok ca /\
    apply_loop_l a = Ok ga /\ nf_prog A D ca = nf_prog_groups ga.
Proof.
  destruct jx as [j x]. cbn [snd]. unfold wf_qiskit, covered, SimLoop.pre_step. cbn [snd].
  destruct (iname x) eqn:En; cbn [is_delay is_barrier]; intros W C.
  - (* delay *) destruct W as (q & Eq). rewrite Eq. cbn [negb]. rewrite andb_true_r.
    destruct (memN q (id_layout n)) eqn:Em.
    + apply memN_In in Em. do 3 eexists. split; [reflexivity|]. rewrite apply_loop_one, apply_loop_l_one.
      unfold SimLoop.app_step, SimLoopLayered.app_step_l. cbn [fst snd]. rewrite En. unfold one_qubit, one_label. rewrite Eq, (lindex_id q n Em).
      cbn [rbind app]. repeat split.
    + do 3 eexists. repeat split.
  - (* measure *) destruct W as (q & c & Eq & Ec). rewrite Eq, Ec in *. rewrite (lindex_id q n C). cbn [rbind]. do 3 eexists. repeat split.
  - (* barrier *) destruct (iqs x) as [|q r]; [congruence|]. cbn [negb]. rewrite andb_false_r. do 3 eexists. repeat split.
  - (* rz *) destruct W as (q & Eq). rewrite Eq in *. rewrite (memN_true _ _ C). cbn [negb andb].
    do 3 eexists. split; [reflexivity|]. rewrite apply_loop_one, apply_loop_l_one.
    unfold SimLoop.app_step, SimLoopLayered.app_step_l. cbn [fst snd]. rewrite En. unfold one_qubit, one_label. rewrite Eq, (lindex_id q n C).
    cbn [rbind app]. repeat split.
  - (* sx *) destruct W as (q & Eq). rewrite Eq in *. rewrite (memN_true _ _ C). cbn [negb andb].
    do 3 eexists. split; [reflexivity|]. rewrite apply_loop_one, apply_loop_l_one.
    unfold SimLoop.app_step, SimLoopLayered.app_step_l. cbn [fst snd]. rewrite En. unfold one_qubit, one_label. rewrite Eq, (lindex_id q n C).
    cbn [rbind app]. repeat split.
  - (* x *) destruct W as (q & Eq). rewrite Eq in *. rewrite (memN_true _ _ C). cbn [negb andb].
    do 3 eexists. split; [reflexivity|]. rewrite apply_loop_one, apply_loop_l_one.
    unfold SimLoop.app_step, SimLoopLayered.app_step_l. cbn [fst snd]. rewrite En. unfold one_qubit, one_label. rewrite Eq, (lindex_id q n C).
    cbn [rbind app]. repeat split.
  - (* cx *) destruct W as (c & t & Eq & Hne). rewrite Eq in *. destruct C as [Cc Ct].
    rewrite (memN_true _ _ Cc), (memN_true _ _ Ct). cbn [andb].
    do 3 eexists. split; [reflexivity|]. rewrite apply_loop_one, apply_loop_l_one.
    unfold SimLoop.app_step, SimLoopLayered.app_step_l. cbn [fst snd]. rewrite En. unfold two_qubit, two_labels.
    rewrite Eq, (lindex_id c n Cc). cbn [rbind]. rewrite (lindex_id t n Ct). cbn [rbind app]. repeat split.
  - (* ecr *) destruct W as (c & t & Eq & Hne). rewrite Eq in *. destruct C as [Cc Ct].
    rewrite (memN_true _ _ Cc), (memN_true _ _ Ct). cbn [andb].
    do 3 eexists. split; [reflexivity|]. rewrite apply_loop_one, apply_loop_l_one.
    unfold SimLoop.app_step, SimLoopLayered.app_step_l. cbn [fst snd]. rewrite En. unfold two_qubit, two_labels.
    rewrite Eq, (lindex_id c n Cc). cbn [rbind]. rewrite (lindex_id t n Ct). cbn [rbind app]. repeat split.
  - (* any other name *) destruct (iqs x) as [|q r]; [congruence|]. cbn [negb]. rewrite andb_true_r.
    destruct (memN q (id_layout n)).
    + do 3 eexists. split; [reflexivity|]. rewrite apply_loop_one, apply_loop_l_one.
      unfold SimLoop.app_step, SimLoopLayered.app_step_l. cbn [fst snd]. rewrite En. cbn [rbind app]. repeat split.
    + do 3 eexists. repeat split.
Qed.
Lemma nf_prog_app (a b : list (call A D)) : nf_prog A D (a ++ b) = nf_prog A D a ++ nf_prog A D b.
Proof. unfold nf_prog. apply flat_map_app. Qed.
Lemma nf_prog_groups_app (a b : list group) : nf_prog_groups (a ++ b) = nf_prog_groups a ++ nf_prog_groups b.
Proof. unfold SimLoopLayered.nf_prog_groups. apply flat_map_app. Qed.
Lemma both_body n (l : list (nat * qinstr)) :
  Forall (fun jx => wf_qiskit (snd jx) /\ covered (id_layout n) (snd jx)) l ->
  exists d cs gs, preprocess (id_layout n) l = Ok d /\ SimLoop.apply_loop A D theta dur (id_layout n) d = Ok cs /\
    apply_loop_l d = Ok gs /\ nf_prog A D cs = nf_prog_groups gs.
Proof.
  induction 1 as [|jx r (W & C) _ (d & cs & gs & Ep & Ea & El & En)].
  - exists [], [], []. repeat split.
  - destruct (both_step n jx W C) as (a & ca & ga & E1 & E2 & E3 & E4).
    exists (a ++ d), (ca ++ cs), (ga ++ gs). cbn [preprocess]. rewrite E1. cbn [rbind]. rewrite Ep. cbn [rbind].
    split; [reflexivity|]. rewrite apply_loop_app, E2. cbn [rbind]. rewrite Ea. cbn [rbind]. split; [reflexivity|].
    rewrite apply_loop_l_app, E3. cbn [rbind]. rewrite El. cbn [rbind]. split; [reflexivity|].
    now rewrite nf_prog_app, nf_prog_groups_app, E4, En.
Qed.
Lemma readout_nf used : forall cnt k ro, readout A D used k cnt = Ok ro -> nf_prog A D ro = [].
Proof.
  induction cnt as [|c IH]; intros k ro; cbn [readout].
  - intros H. injection H as <-. reflexivity.
  - destruct (nth_error used k) as [q|]; [|discriminate]. destruct (readout A D used (S k) c) as [r|e] eqn:E; cbn [rbind]; [|discriminate].
    intros H. injection H as <-. cbn [nf_prog flat_map nf_of_call app]. exact (IH (S k) r E).
Qed.

(* the index-class translation of Model/SimLoop.v (C03_end_to_end) and the layered one yield the same program *)
Theorem translate_layered_is_translate data used meas n :
  Forall wf_qiskit data -> process_layout data = Ok (used, meas, n) -> used = id_layout n ->
  translate A D theta dur used (Z.of_nat n) data = translate_layered A D theta dur used data.
Proof.
  intros W Hl Hu. subst used.
  pose proof (layout_covers _ _ _ _ Hl) as C.
  assert (F : Forall (fun jx => wf_qiskit (snd jx) /\ covered (id_layout n) (snd jx)) (numbered data)).
  { apply (numbered_snd data (fun x => wf_qiskit x /\ covered (id_layout n) x)). rewrite Forall_forall in *. intros x Hx. auto. }
  destruct (both_body n _ F) as (d & cs & gs & Ep & Ea & El & En).
  unfold translate, translate_calls, translate_layered, translate_groups. rewrite Ep. cbn [rbind]. rewrite Ea, El. cbn [rbind rmap].
  assert (Wi : Forall SimRunProofs.wf_instr data) by (eapply Forall_impl; [|exact W]; apply wf_qiskit_wf_instr).
  destruct (process_layout_inv data _ meas n Wi Hl) as (_ & _ & Hn).
  destruct (readout_ok A D (id_layout n) (Z.to_nat (Z.of_nat n)) 0 ltac:(rewrite Nat2Z.id; lia)) as (ro & Er & _). rewrite Er. cbn [rbind rmap].
  now rewrite nf_prog_app, (readout_nf _ _ _ _ Er), app_nil_r, En.
Qed.
End LoopL.
