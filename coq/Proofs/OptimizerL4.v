(* Level 4 of the optimizer: the trailing one-qubit gates (after the last two-qubit gate, or the whole list when
   there is none) are regrouped per qubit.  Sound because one-qubit gates on different qubits commute and the
   per-qubit order is kept. *)
From Coq Require Import List Bool Arith ZArith Lia Ring.
Require Import QG.Base.Res QG.Base.State QG.Model.Optimizer QG.Proofs.OptimizerSem QG.Proofs.OptimizerL13.
Import ListNotations.

Section L4.
Variable R : Type.
Variables (rO rI : R) (radd rmul rsub : R -> R -> R) (ropp : R -> R).
Variable Rth : ring_theory rO rI radd rmul rsub ropp eq.

Notation mat := (mat R).
Notation mmul := (mmul R radd rmul).
Notation mid2 := (mid2 R rO rI).
Notation mitem := (mat * list Z)%type.
Notation wfn := (wfn R).
Notation equiv := (equiv R rO rI radd rmul).
Notation len_is := (len_is mat).
Notation M2 := (M2 R).

Variable n : nat.
Notation eq_app := (equiv_app R rO rI radd rmul n).
Notation eq_app_l := (equiv_app_l R rO rI radd rmul n).
Notation eq_app_r := (equiv_app_r R rO rI radd rmul n).
Notation eq_sym := (equiv_sym R rO rI radd rmul n).
Notation eq_trans := (equiv_trans R rO rI radd rmul n).
Notation eq_cons := (equiv_cons R rO rI radd rmul n).
Notation L_comm := (law_comm11 R rO rI radd rmul rsub ropp Rth n).

(* one-qubit normalised item on a qubit >= s *)
Definition is1_from (s : nat) (it : mitem) : Prop :=
  exists a q, it = (M2 a, [q]) /\ (Z.of_nat s <= q < Z.of_nat n)%Z.
Lemma is1_from_wfn s it : is1_from s it -> wfn n it.
Proof. intros (a & q & -> & H). simpl. lia. Qed.

(* an item on another qubit moves in front of a block of items on qubit q *)
Lemma comm_past s q (sel : list mitem) a qe :
  Forall (fun it => is1_from s it /\ snd it = [q]) sel -> (0 <= qe)%Z -> qe <> q ->
  equiv n (sel ++ [(M2 a, [qe])]) ((M2 a, [qe]) :: sel).
Proof.
  intros Hs Hqe Hne. induction sel as [|x sel IH].
  - apply equiv_refl.
  - apply Forall_inv in Hs as Hx. apply Forall_inv_tail in Hs.
    destruct Hx as [(b & qx & -> & Hqx) E]. simpl in E. injection E as ->.
    simpl. apply (eq_trans _ ((M2 b, [q]) :: (M2 a, [qe]) :: sel)).
    + apply eq_cons. apply IH. auto.
    + apply (eq_app_r sel [(M2 b, [q]); (M2 a, [qe])] [(M2 a, [qe]); (M2 b, [q])]).
      apply L_comm; lia.
Qed.

Lemma select_q_spec s q (lp : list mitem) : Forall (is1_from s) lp ->
  exists sel rest, select_q mat q lp = Ok (sel, rest) /\
    Forall (fun it => is1_from s it /\ snd it = [q]) sel /\
    Forall (fun it => is1_from s it /\ snd it <> [q]) rest /\
    equiv n (sel ++ rest) lp /\ length sel + length rest = length lp.
Proof.
  induction lp as [|e lp IH]; intros H.
  - exists [], []. simpl. repeat split; auto; try apply equiv_refl.
  - apply Forall_inv in H as He. apply Forall_inv_tail in H.
    destruct (IH H) as (sel & rest & E & Hs & Hr & Q & L).
    pose proof He as He'. destruct He' as (a & qe & -> & Hqe).
    cbn [select_q]. rewrite E. unfold q0, idx. cbn [snd fst nth_error rbind].
    destruct (Z.eqb_spec qe q) as [->|Hne].
    + exists ((M2 a, [q]) :: sel), rest. split; [reflexivity|]. split; [constructor; auto|]. split; [auto|]. split.
      * simpl. apply eq_cons. exact Q.
      * simpl. lia.
    + exists sel, ((M2 a, [qe]) :: rest). split; [reflexivity|]. split; [auto|]. split.
      * constructor; auto. split; auto. simpl. congruence.
      * split; [|simpl; lia].
        apply (eq_trans _ ((M2 a, [qe]) :: sel ++ rest)).
        -- change (sel ++ (M2 a, [qe]) :: rest) with (sel ++ [(M2 a, [qe])] ++ rest).
           rewrite app_assoc. apply (eq_app_r rest (sel ++ [(M2 a, [qe])]) ((M2 a, [qe]) :: sel)).
           apply (comm_past s q); auto. lia.
        -- apply eq_cons. exact Q.
Qed.

Lemma emit_q_spec s q (sel : list mitem) :
  Forall (fun it => is1_from s it /\ snd it = [q]) sel ->
  equiv n (emit_q mat mmul mid2 q sel) sel /\ Forall (is1_from s) (emit_q mat mmul mid2 q sel) /\
  length (emit_q mat mmul mid2 q sel) <= length sel.
Proof.
  intros H. destruct sel as [|x [|y l]].
  - simpl. split; [apply equiv_refl|]. auto.
  - apply Forall_inv in H. destruct H as [(a & qx & -> & Hq) E]. simpl in E. injection E as ->.
    simpl. split; [apply equiv_refl|]. split; auto. constructor; auto. exists a, q. auto.
  - apply Forall_inv in H as Hx. apply Forall_inv_tail in H.
    destruct Hx as [(a & qx & -> & Hq) E]. simpl in E. injection E as ->.
    destruct (fuse_from_id R rO rI radd rmul rsub ropp Rth n 1 mid2 (M2 a, [q]) (y :: l)) as [W Q].
    + left. auto.
    + reflexivity.
    + simpl. lia.
    + eapply Forall_impl; [|exact H]. intros it [Hi _]. eapply is1_from_wfn; eauto.
    + eapply Forall_impl; [|exact H]. intros it [_ Hi]. exact Hi.
    + change (emit_q mat mmul mid2 q ((M2 a, [q]) :: y :: l)) with [(fuse_run mat mmul mid2 ((M2 a, [q]) :: y :: l), [q])].
      simpl snd in *. split; [apply eq_sym; exact Q|]. split; [|simpl; lia].
      constructor; auto.
      destruct (wfn_cases R n _ W) as [(b & q' & E & _)|(b & q1 & q2 & E & _)]; [|discriminate].
      rewrite E. injection E as _ <-. exists b, q. split; auto.
Qed.

Lemma regroup_spec : forall m s (lp : list mitem), s + m = n -> Forall (is1_from s) lp ->
  exists out, regroup mat mmul mid2 (seq s m) lp = Ok out /\ equiv n out lp /\ Forall (wfn n) out /\ length out <= length lp.
Proof.
  induction m as [|m IH]; intros s lp Hsm Hlp.
  - (* no qubit left: the list must be empty *)
    destruct lp as [|x lp].
    + exists []. simpl. repeat split; auto; try apply equiv_refl.
    + apply Forall_inv in Hlp. destruct Hlp as (a & q & _ & Hq). lia.
  - cbn [seq regroup].
    destruct (Nat.ltb 1 (length lp)) eqn:El.
    + destruct (select_q_spec s (Z.of_nat s) lp Hlp) as (sel & rest & E & Hs & Hr & Q & L).
      rewrite E. cbn [rbind fst snd].
      destruct (IH (S s) rest) as (r & Er & Qr & Wr & Lr); [lia| |].
      { eapply Forall_impl; [|exact Hr]. intros it [(a & q & -> & Hq) Hne]. simpl in Hne.
        exists a, q. split; auto. assert (q <> Z.of_nat s) by congruence. lia. }
      rewrite Er. cbn [rbind].
      destruct (emit_q_spec s (Z.of_nat s) sel Hs) as (Qe & We & Le).
      exists (emit_q mat mmul mid2 (Z.of_nat s) sel ++ r). split; [reflexivity|]. split; [|split].
      * apply (eq_trans _ (sel ++ rest)); auto. apply eq_app; auto.
      * apply Forall_app. split; auto. eapply Forall_impl; [|exact We]. intros it. apply is1_from_wfn.
      * rewrite app_length. lia.
    + apply Nat.ltb_ge in El.
      destruct lp as [|x [|y lp]]; simpl in El; try lia.
      * exists []. repeat split; auto; try apply equiv_refl.
      * exists [x]. split; [reflexivity|]. split; [apply equiv_refl|]. split; auto.
        eapply Forall_impl; [|exact Hlp]. intros it. apply is1_from_wfn.
Qed.

Lemma lead1_firstn (l : list mitem) : Forall (fun it => len_is 1 it = true) (firstn (lead1 mat l) l).
Proof.
  induction l as [|x l IH]; simpl; auto.
  destruct (len_is 1 x) eqn:E; simpl; auto.
Qed.
Lemma existsb_false (l : list mitem) : existsb (len_is 2) l = false -> Forall (fun it => len_is 2 it = false) l.
Proof.
  induction l as [|x l IH]; simpl; auto. intros H. apply orb_false_iff in H. destruct H. constructor; auto.
Qed.

Lemma wfn1_from0 it : wfn n it -> len_is 1 it = true -> is1_from 0 it.
Proof. intros W L. destruct (wfn_len1 R n it W L) as (a & q & -> & Hq). exists a, q. split; auto; lia. Qed.

Theorem lvl4_spec (gl : list mitem) : Forall (wfn n) gl -> gl <> [] ->
  exists out, opt4 mat mmul mid2 n gl = Ok out /\ equiv n out gl /\ Forall (wfn n) out /\ length out <= length gl.
Proof.
  intros Hwf Hne. unfold opt4. destruct gl as [|g0 gl0]; [congruence|].
  set (gl := g0 :: gl0) in *.
  destruct (existsb (len_is 2) gl) eqn:E2.
  - set (l := lead1 mat (rev gl)).
    destruct (Nat.ltb 1 l) eqn:El.
    + assert (Hsuf : Forall (is1_from 0) (skipn (length gl - l) gl)).
      { pose proof (lead1_firstn (rev gl)) as H. fold l in H. rewrite firstn_rev in H.
        apply Forall_rev in H. rewrite rev_involutive in H.
        pose proof (Forall_skipn' (wfn n) (length gl - l) gl Hwf) as W.
        rewrite Forall_forall in *. intros x Hx. apply wfn1_from0; auto. }
      destruct (regroup_spec n 0 (skipn (length gl - l) gl)) as (r & Er & Qr & Wr & Lr); auto.
      rewrite Er. cbn [rbind]. exists (firstn (length gl - l) gl ++ r).
      split; [reflexivity|]. split; [|split].
      * rewrite <- (firstn_skipn (length gl - l) gl) at 3. apply eq_app_l. exact Qr.
      * apply Forall_app. split; auto. apply Forall_firstn'. auto.
      * rewrite <- (firstn_skipn (length gl - l) gl) at 3. rewrite !app_length. lia.
    + exists gl. repeat split; auto; try apply equiv_refl.
  - destruct (Nat.ltb 1 (length gl)) eqn:El.
    + apply regroup_spec; auto.
      apply existsb_false in E2. rewrite Forall_forall in *. intros x Hx.
      apply wfn1_from0; auto. apply (wfn_not2_is1 R n); auto.
    + exists gl. repeat split; auto; try apply equiv_refl.
Qed.

End L4.
