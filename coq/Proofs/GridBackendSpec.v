(* C03 — Circuit.statevector (Model/GridBackend.v) on the columns of the grid IS StandardBackend.statevector (Model/Backends.v: std)
   on the same lists: on a non-empty rectangular list of columns with at least one row whose first column holds a matrix
   (scalar_col c0 = false; on two untouched leading columns the grid model answers TypeError for scalar @ scalar, a clause
   Model/Backends.v does not have) the two models perform literally the same computation (kron-reduce per column, product from the
   left, one mat-vec); hence C01_std_spec's lemma gives the specification:
   on well-formed columns the grid class returns a vector state_eq to layers_sem of the columns in order.
   Nothing of Proofs/Backends*.v is re-proved. *)
From Coq Require Import List Bool Arith Lia Ring.
Require Import QG.Base.Res QG.Base.State QG.Base.Mat QG.Model.Backends QG.Model.GridBackend.
Require Import QG.Proofs.BackendsSpec QG.Proofs.BackendsContract.
Import ListNotations.

Section GS.
Variable R : Type.
Variables (rO rI : R) (radd rmul rsub : R -> R -> R) (ropp : R -> R).
Variable Rth : ring_theory rO rI radd rmul rsub ropp eq.
Notation entry := (Backends.entry R).
Notation std := (std R rI radd rmul).
Notation grid_statevector_cols := (grid_statevector_cols R rI radd rmul).
Notation grid_statevector := (grid_statevector R rI radd rmul).
Notation layers_sem := (layers_sem R radd rmul).

(* StandardBackend's answer read as a vector (its np.eye answer for an empty list is not a vector) *)
Definition std_vec (r : res (sv_out R)) : res (bits -> R) :=
  match r with Ok (OutVec s) => Ok s | Ok OutEye => Err IndexError | Err e => Err e end.

(* a well-formed column over at least one qubit holds a matrix *)
Lemma wf_not_scalar n c : 1 <= n -> wf_layer R n c -> scalar_col R c = false.
Proof. intros Hn H. destruct H as [|m A l H|m G l H|m G l H]; [lia| | |]; reflexivity. Qed.

Theorem grid_is_std n (c0 : list entry) rest psi : 1 <= n -> c0 <> [] -> scalar_col R c0 = false ->
  Forall (fun c => length c = length c0) rest ->
  grid_statevector_cols n (c0 :: rest) psi = std_vec (std n (c0 :: rest) psi).
Proof.
  intros Hn NE P1 F. unfold GridBackend.grid_statevector_cols, GridBackend.grid_product. rewrite P1. cbn [andb Backends.std].
  assert (E : forallb (fun l => length l =? length c0) rest = true).
  { apply forallb_forall. intros l Hl. rewrite Forall_forall in F. rewrite (F l Hl). apply Nat.eqb_refl. }
  rewrite E. cbn [negb]. destruct c0 as [|e0 c0]; [congruence|].
  destruct (reduce_kron R rmul (map (ofE R rI) (e0 :: c0))) as [m0|e]; cbn [rbind std_vec]; [|reflexivity].
  destruct (fold_left _ rest (Ok m0)) as [p|e]; cbn [rbind std_vec]; [|reflexivity].
  destruct (Nat.eqb_spec (fst p) n) as [->|N].
  - destruct (Nat.ltb_spec 0 n); [reflexivity | lia].
  - rewrite andb_false_r. reflexivity.
Qed.

(* the specification, inherited from StandardBackend's *)
Theorem grid_statevector_cols_spec n cols psi : 1 <= n -> cols <> [] -> Forall (wf_layer R n) cols ->
  exists out, grid_statevector_cols n cols psi = Ok out /\ state_eq R n out (layers_sem cols psi).
Proof.
  intros Hn NE W. destruct cols as [|c0 rest]; [congruence|].
  pose proof (wf_layer_length R n c0 (Forall_inv W)) as L0.
  rewrite grid_is_std; auto.
  - destruct (std_spec R rO rI radd rmul rsub ropp Rth n (c0 :: rest) psi Hn NE W) as (out & E & S). rewrite E. cbn [std_vec]. eauto.
  - intros Z. subst c0. cbn in L0. lia.
  - exact (wf_not_scalar n c0 Hn (Forall_inv W)).
  - eapply Forall_impl; [|exact (Forall_inv_tail W)]. intros c Hc. cbn beta. rewrite (wf_layer_length R n c Hc). auto.
Qed.

(* on the object's fields: the columns are read off the rows *)
Theorem grid_statevector_spec n depth grid psi : 1 <= n -> 1 <= depth -> Forall (wf_layer R n) (columns R depth grid) ->
  exists out, grid_statevector n depth grid psi = Ok out /\ state_eq R n out (layers_sem (columns R depth grid) psi).
Proof.
  intros Hn Hd W. apply grid_statevector_cols_spec; auto.
  unfold columns. destruct depth; [lia|]. cbn [seq map]. discriminate.
Qed.
End GS.
