(* C04 — idle relaxation: the shot average of G rho G^dagger is the T1/T2 (amplitude + phase damping) channel.
   Subject: gen_relax_paths of coq/Gen/GenGates.v (regenerated from RelaxationFactory.construct on every run).

   Structure of the argument, per decision path (T1 == 0 ?, T2 == 0 ?):
   (a) by reflection (coq/Sym):   G rho G^dagger = [[a + i I (e^{-2iu} c - e^{2iu} b) + I^2 d,  o e^{2iu} b + i I o d],
                                                    [o e^{-2iu} c - i I o d,                    o^2 d              ]]
       for ALL values of the variables, with rho = [[a, b], [c, d]], b = br + i bi, c = br - i bi, I the second sample,
       u the phase of G[0][0] and o the modulus of G[1][1];
   (b) semantics: u = K * W with W the first sample and K a strength that does not depend on the samples;
   (c) expectation: an abstract linear functional E over functions of the two samples (W, I) with the moments of two
       independent centred Gaussians (Record gaussian_pair: the ONLY probability facts used, hypotheses of the theorems);
   (d) real analysis: the traced standard deviations and strengths give the rates Dt/T1, Dt/T2. *)
From Coq Require Import QArith Qreals List String Bool Reals Lra Lia FunctionalExtensionality.
From Coquelicot Require Import Complex.
Require Import QG.Sym.Expr QG.Sym.ExprEq QG.Sym.Norm QG.Sym.Mat QG.Sym.Sound QG.Sym.Subst.
Require Import QG.Model.GateModel QG.Proofs.GateRefl QG.Proofs.C07Refl QG.Proofs.C05Refl QG.Proofs.C05Sem QG.Gen.GenGates.
Import ListNotations.
Close Scope Q_scope.
Open Scope R_scope.

(* ================= 1. expressions: variables mentioned, real polynomial fragment ================= *)
Fixpoint mem (v : nat) (l : list nat) : bool := match l with [] => false | w :: r => Nat.eqb v w || mem v r end.
Lemma mem_false v l : mem v l = false -> ~ In v l.
Proof. induction l as [|w r IH]; simpl; [tauto|]. intros H [E|I]; apply orb_false_elim in H as [H1 H2].
  - subst. now rewrite Nat.eqb_refl in H1. - now apply IH. Qed.

(* does e mention a variable of l ? *)
Fixpoint mentions (l : list nat) (e : expr) : bool :=
  match e with
  | EQ _ | EPi | EI => false
  | EVar v => mem v l
  | EAdd a b | ESub a b | EMul a b | EDiv a b => mentions l a || mentions l b
  | ENeg a | EPow a _ | ESin a | ECos a | EExp a | ESqrt a | EConj a => mentions l a
  end.
Lemma interpC_agree l rho rho' : (forall v, mem v l = false -> rho v = rho' v) ->
  forall e, mentions l e = false -> interpC rho e = interpC rho' e.
Proof. intros A. induction e; cbn [mentions interpC]; intros H; try reflexivity;
    try (apply orb_false_elim in H as [H1 H2]; now rewrite (IHe1 H1), (IHe2 H2)); try (now rewrite (IHe H)).
  now rewrite (A _ H). Qed.
Definition mmentions (l : list nat) (m : mexpr) : bool :=
  match m with MLeaf rows => existsb (existsb (mentions l)) rows | _ => true end.

(* real polynomial fragment (division by non-zero rational constants only) and its direct real semantics *)
Fixpoint rpoly (e : expr) : bool :=
  match e with
  | EQ _ | EVar _ => true
  | EAdd a b | ESub a b | EMul a b => rpoly a && rpoly b
  | EDiv a (EQ q) => rpoly a && negb (q_is_zero q)
  | ENeg a | EPow a _ => rpoly a
  | _ => false
  end.
Fixpoint interpR (rho : env) (e : expr) : R :=
  match e with
  | EQ q => Q2R q
  | EVar v => rho v
  | EAdd a b => interpR rho a + interpR rho b
  | ESub a b => interpR rho a - interpR rho b
  | EMul a b => interpR rho a * interpR rho b
  | EDiv a b => interpR rho a / interpR rho b
  | ENeg a => - interpR rho a
  | EPow a n => interpR rho a ^ n
  | _ => 0
  end.
Lemma q_nonzero_Q2R q : q_is_zero q = false -> Q2R q <> 0.
Proof. destruct q as [n d]. unfold q_is_zero, Q2R. simpl. intros H. apply Z.eqb_neq in H.
  intros E. apply Rmult_integral in E as [E|E]. apply eq_IZR_R0 in E. contradiction.
  revert E. apply Rinv_neq_0_compat. apply not_0_IZR. discriminate. Qed.
Lemma Cpown_R x n : Cpown (RtoC x) n = RtoC (x ^ n).
Proof. induction n; simpl. reflexivity. now rewrite IHn, RtoC_mult. Qed.
Lemma interpC_real rho e : rpoly e = true -> interpC rho e = RtoC (interpR rho e).
Proof. induction e; cbn [rpoly interpC interpR]; intros H; try discriminate; try reflexivity.
  - apply andb_prop in H as [H1 H2]. now rewrite IHe1, IHe2, RtoC_plus.
  - apply andb_prop in H as [H1 H2]. now rewrite IHe1, IHe2, RtoC_minus.
  - apply andb_prop in H as [H1 H2]. now rewrite IHe1, IHe2, RtoC_mult.
  - destruct e2; try discriminate. apply andb_prop in H as [H1 H2]. apply negb_true_iff in H2.
    rewrite IHe1 by assumption. cbn [interpC interpR]. rewrite RtoC_div. reflexivity. now apply q_nonzero_Q2R.
  - now rewrite IHe, RtoC_opp.
  - now rewrite IHe, Cpown_R.
Qed.
Lemma Re_interp_real rho e : rpoly e = true -> Re (interpC rho e) = interpR rho e.
Proof. intros H. now rewrite interpC_real. Qed.

(* e^{i x} for a real-valued x *)
Definition ExpI (x : expr) : expr := EExp (EMul EI x).
Lemma interp_ExpI rho x : rpoly x = true -> interpC rho (ExpI x) = Cexp (interpR rho x).
Proof. intros H. unfold ExpI. cbn [interpC]. rewrite (interpC_real _ _ H).
  replace (Re (Ci * RtoC (interpR rho x))%C) with 0 by (simpl; ring).
  replace (Im (Ci * RtoC (interpR rho x))%C) with (interpR rho x) by (simpl; ring).
  rewrite exp_0. apply Cmult_1_l. Qed.

(* ================= 2. the expectation functional: moments of two independent centred Gaussians ================= *)
(* E is the shot average over the two samples (W, I) of the relaxation factory, W ~ N(0, sW^2), I ~ N(0, sI^2),
   independent.  These six facts are the only probability facts used. *)
Record gaussian_pair (E : (R -> R -> C) -> C) (sW sI : R) : Prop := {
  gp_plus : forall f g, E (fun w i => f w i + g w i)%C = (E f + E g)%C;                (* linearity *)
  gp_scal : forall c f, E (fun w i => c * f w i)%C = (c * E f)%C;
  gp_one : E (fun _ _ => RtoC 1) = RtoC 1;                                              (* normalisation *)
  gp_I_indep : forall k, E (fun w i => RtoC i * Cexp (k * w))%C = RtoC 0;              (* E[I f(W)] = E[I] E[f(W)] = 0 *)
  gp_I_sq : E (fun _ i => RtoC i * RtoC i)%C = RtoC (sI * sI);                          (* E[I^2] = sI^2 *)
  gp_W_char : forall k, E (fun w _ => Cexp (k * w)) = RtoC (exp (- (k * k * (sW * sW)) / 2))   (* characteristic function of W *)
}.

(* satisfiable: the point mass at (0, 0) is the degenerate pair sW = sI = 0 *)
Lemma gaussian_pair_dirac : gaussian_pair (fun f => f 0 0) 0 0.
Proof. split; intros; try reflexivity.
  - rewrite Rmult_0_r, Cexp_0. ring.
  - now rewrite RtoC_mult.
  - rewrite Rmult_0_r, Cexp_0. f_equal. replace (- (k * k * (0 * 0)) / 2) with 0 by field. now rewrite exp_0.
Qed.

Section Moments.
  Variables (E : (R -> R -> C) -> C) (sW sI : R).
  Hypothesis G : gaussian_pair E sW sI.
  Lemma E_const c : E (fun _ _ => c) = c.
  Proof. transitivity (E (fun _ _ => c * RtoC 1)%C). f_equal. extensionality w. extensionality i. ring.
    rewrite (gp_scal _ _ _ G), (gp_one _ _ _ G). ring. Qed.
  (* the general shape of an entry of G rho G^dagger *)
  Lemma E_entry c0 c1 k1 c2 k2 c3 c4 k3 :
    E (fun w i => c0 + c1 * (RtoC i * Cexp (k1 * w)) + c2 * (RtoC i * Cexp (k2 * w)) + c3 * (RtoC i * RtoC i) + c4 * Cexp (k3 * w))%C
    = (c0 + c3 * RtoC (sI * sI) + c4 * RtoC (exp (- (k3 * k3 * (sW * sW)) / 2)))%C.
  Proof.
    rewrite (gp_plus _ _ _ G (fun w i => c0 + c1 * (RtoC i * Cexp (k1 * w)) + c2 * (RtoC i * Cexp (k2 * w)) + c3 * (RtoC i * RtoC i))%C (fun w i => c4 * Cexp (k3 * w))%C).
    rewrite (gp_plus _ _ _ G (fun w i => c0 + c1 * (RtoC i * Cexp (k1 * w)) + c2 * (RtoC i * Cexp (k2 * w)))%C (fun w i => c3 * (RtoC i * RtoC i))%C).
    rewrite (gp_plus _ _ _ G (fun w i => c0 + c1 * (RtoC i * Cexp (k1 * w)))%C (fun w i => c2 * (RtoC i * Cexp (k2 * w)))%C).
    rewrite (gp_plus _ _ _ G (fun w i => c0)%C (fun w i => c1 * (RtoC i * Cexp (k1 * w)))%C).
    rewrite E_const.
    rewrite (gp_scal _ _ _ G c1 (fun w i => RtoC i * Cexp (k1 * w))%C), (gp_scal _ _ _ G c2 (fun w i => RtoC i * Cexp (k2 * w))%C).
    rewrite (gp_scal _ _ _ G c3 (fun w i => RtoC i * RtoC i)%C), (gp_scal _ _ _ G c4 (fun w i => Cexp (k3 * w))%C).
    rewrite !(gp_I_indep _ _ _ G), (gp_I_sq _ _ _ G), (gp_W_char _ _ _ G). ring.
  Qed.
End Moments.

(* ================= 3. the traced paths, the density matrix, the expected product ================= *)
Notation relax_path := (list bool * mexpr * list sampler * list (nat * odef))%type.
Definition rp_dec (p : relax_path) : list bool := fst (fst (fst p)).
Definition rp_G (p : relax_path) : mexpr := snd (fst (fst p)).
Definition rp_samplers (p : relax_path) : list sampler := snd (fst p).
Definition rp_defs (p : relax_path) : list (nat * odef) := snd p.
(* W = first draw, I = second draw (np.random.normal(0, std)) *)
Definition rp_W (p : relax_path) : nat := match rp_samplers p with SNormal v _ _ :: _ => v | _ => 4999%nat end.
Definition rp_I (p : relax_path) : nat := match rp_samplers p with _ :: SNormal v _ _ :: _ => v | _ => 4998%nat end.
Definition rp_sW (p : relax_path) : expr := match rp_samplers p with SNormal _ _ s :: _ => s | _ => EVar 4999 end.
Definition rp_sI (p : relax_path) : expr := match rp_samplers p with _ :: SNormal _ _ s :: _ => s | _ => EVar 4999 end.
(* exactly two normal draws, both with mean 0 *)
Definition rp_samplers_ok (p : relax_path) : bool :=
  match rp_samplers p with [SNormal _ m1 _; SNormal _ m2 _] => expr_same m1 E0 && expr_same m2 E0 | _ => false end.
(* phase u of G[0][0] = e^{i u} and modulus o of G[1][1] = o e^{-i u} *)
Definition rp_U (p : relax_path) : expr := match rp_G p with MLeaf ((EExp (EMul EI x) :: _) :: _) => x | _ => EVar 4999 end.
Definition rp_O (p : relax_path) : nat := match rp_G p with MLeaf [_; [_; EMul (EVar o) _]] => o | _ => 4999%nat end.

(* density matrix rho = [[a, br + i bi], [br - i bi, d]] over four fresh real variables *)
Definition va : nat := 3000. Definition vbr : nat := 3001. Definition vbi : nat := 3002. Definition vd : nat := 3003.
Definition Ea := EVar va. Definition Ebr := EVar vbr. Definition Ebi := EVar vbi. Definition Ed := EVar vd.
Definition Eb := EAdd Ebr (EMul EI Ebi). Definition Ec := ESub Ebr (EMul EI Ebi).
Definition Rho : mexpr := MLeaf [[Ea; Eb]; [Ec; Ed]].
Definition GrhoG (p : relax_path) : mexpr := MMul (rp_G p) (MMul Rho (MDag (rp_G p))).

Definition two (x : expr) : expr := EMul (EQ (2#1)%Q) x.
Definition Expected (U O I : expr) : mexpr :=
  MLeaf [[ EAdd (EAdd Ea (EMul (EMul EI I) (ESub (EMul (ExpI (ENeg (two U))) Ec) (EMul (ExpI (two U)) Eb)))) (EMul (EMul I I) Ed);
           EAdd (EMul (EMul O (ExpI (two U))) Eb) (EMul (EMul EI I) (EMul O Ed)) ];
         [ ESub (EMul (EMul O (ExpI (ENeg (two U)))) Ec) (EMul (EMul EI I) (EMul O Ed));
           EMul (EMul O O) Ed ]].
(* (a) the product, for all values of all variables; the fresh variables do not occur in the traced matrix *)
Definition product_ok (p : relax_path) : bool :=
  mexpr_eqb cf (GrhoG p) (Expected (rp_U p) (EVar (rp_O p)) (EVar (rp_I p))) && negb (mmentions [va; vbr; vbi; vd] (rp_G p)).
Lemma relax_products : forallb (fun p => rp_samplers_ok p && product_ok p) gen_relax_paths = true.
Proof. vm_compute. reflexivity. Qed.

(* ================= 4. the environment of a shot ================= *)
(* the two samples take the values w, i; a variable the tracer introduced for a product (OProd) takes the value of that
   product; everything else (parameters, strengths, standard deviations, density matrix) as in rho0 *)
Definition prod_subst (defs : list (nat * odef)) : subst_map :=
  flat_map (fun vd => match snd vd with OProd e => [(fst vd, e)] | _ => [] end) defs.
Definition set2 (rho : env) (vW : nat) (w : R) (vI : nat) (i : R) : env :=
  fun v => if Nat.eqb v vW then w else if Nat.eqb v vI then i else rho v.
Definition sample_env (p : relax_path) (rho0 : env) (w i : R) : env :=
  env_of (prod_subst (rp_defs p)) (set2 rho0 (rp_W p) w (rp_I p) i).

Definition centry (m : Cmat) (k l : nat) : C := nth l (nth k m []) (RtoC 0).
(* the shot average of G rho G^dagger, entry by entry *)
Definition shot_avg (E : (R -> R -> C) -> C) (p : relax_path) (rho0 : env) : Cmat :=
  map (map (fun kl => E (fun w i => centry (interpM (sample_env p rho0 w i) (GrhoG p)) (fst kl) (snd kl))))
      [[(0, 0); (0, 1)]; [(1, 0); (1, 1)]]%nat.

(* variables that are neither samples nor products keep their rho0 value *)
Definition static (p : relax_path) (v : nat) : bool :=
  match lookup (prod_subst (rp_defs p)) v with None => negb (Nat.eqb v (rp_W p)) && negb (Nat.eqb v (rp_I p)) | Some _ => false end.
Lemma sample_env_static p rho0 w i v : static p v = true -> sample_env p rho0 w i v = rho0 v.
Proof. unfold static, sample_env, env_of, set2. destruct (lookup (prod_subst (rp_defs p)) v); [discriminate|].
  intros H. apply andb_prop in H as [H1 H2]. apply negb_true_iff in H1, H2. now rewrite H1, H2. Qed.
Lemma sample_env_I p rho0 w i : lookup (prod_subst (rp_defs p)) (rp_I p) = None -> Nat.eqb (rp_I p) (rp_W p) = false ->
  sample_env p rho0 w i (rp_I p) = i.
Proof. unfold sample_env, env_of, set2. intros -> ->. now rewrite Nat.eqb_refl. Qed.
(* the phase is linear in W: either u = q * W directly, or u = q * x with x := e * W a traced product *)
Lemma rate_direct p rho0 q : rp_U p = EMul (EQ q) (EVar (rp_W p)) -> lookup (prod_subst (rp_defs p)) (rp_W p) = None ->
  forall w i, interpR (sample_env p rho0 w i) (rp_U p) = Q2R q * w.
Proof. intros -> L w i. cbn [interpR]. unfold sample_env, env_of, set2. now rewrite L, Nat.eqb_refl. Qed.
Lemma rate_prod p rho0 q x e : rp_U p = EMul (EQ q) (EVar x) ->
  lookup (prod_subst (rp_defs p)) x = Some (EMul (EVar e) (EVar (rp_W p))) -> static p e = true ->
  forall w i, interpR (sample_env p rho0 w i) (rp_U p) = (Q2R q * rho0 e) * w.
Proof. intros -> L S w i. cbn [interpR]. unfold sample_env at 1. unfold env_of. rewrite L. cbn [interpC].
  unfold static in S. destruct (lookup (prod_subst (rp_defs p)) e); [discriminate|].
  apply andb_prop in S as [S1 S2]. apply negb_true_iff in S1, S2.
  unfold set2. rewrite S1, S2, Nat.eqb_refl. simpl. ring. Qed.

Lemma Q2R_2 : Q2R (2#1) = 2. Proof. unfold Q2R. simpl. lra. Qed.

(* ================= 5. the averaged matrix in terms of the moments ================= *)
Section Sem.
  Variables (E : (R -> R -> C) -> C) (sW sI : R).
  Hypothesis HG : gaussian_pair E sW sI.
  Variables (p : relax_path) (rho0 : env) (K : R).
  Hypothesis Hprod : product_ok p = true.
  Hypothesis HUr : rpoly (rp_U p) = true.
  Hypothesis HU : forall w i, interpR (sample_env p rho0 w i) (rp_U p) = K * w.
  Hypothesis HI : forall w i, sample_env p rho0 w i (rp_I p) = i.
  Hypothesis Hstat : forallb (static p) [rp_O p; va; vbr; vbi; vd] = true.
  Let a := rho0 va. Let br := rho0 vbr. Let bi := rho0 vbi. Let d := rho0 vd. Let o := rho0 (rp_O p).
  Let b : C := (RtoC br + Ci * RtoC bi)%C.
  Let c : C := (RtoC br - Ci * RtoC bi)%C.

  Lemma product_at w i : interpM (sample_env p rho0 w i) (GrhoG p) =
    [[ (RtoC a + Ci * RtoC i * (Cexp (- (2 * (K * w))) * c - Cexp (2 * (K * w)) * b) + RtoC i * RtoC i * RtoC d)%C;
       (RtoC o * Cexp (2 * (K * w)) * b + Ci * RtoC i * (RtoC o * RtoC d))%C ];
     [ (RtoC o * Cexp (- (2 * (K * w))) * c - Ci * RtoC i * (RtoC o * RtoC d))%C;
       (RtoC o * RtoC o * RtoC d)%C ]].
  Proof.
    unfold product_ok in Hprod. apply andb_prop in Hprod as [H _].
    rewrite (mexpr_eq_sound cf _ _ H).
    assert (R2 : rpoly (two (rp_U p)) = true) by (unfold two; cbn [rpoly]; now rewrite HUr).
    assert (R2n : rpoly (ENeg (two (rp_U p))) = true) by (cbn [rpoly]; exact R2).
    cbn [forallb] in Hstat. repeat (apply andb_prop in Hstat as [?S Hstat]).
    unfold Expected, Ea, Eb, Ec, Ed, Ebr, Ebi. cbn [interpM map interpC].
    rewrite !(interp_ExpI _ _ R2), !(interp_ExpI _ _ R2n). unfold two. cbn [interpR]. rewrite HU, HI, Q2R_2.
    rewrite !sample_env_static by assumption. reflexivity.
  Qed.

  Theorem shot_avg_moments : shot_avg E p rho0 =
    [[ (RtoC a + RtoC (sI * sI) * RtoC d)%C;  (RtoC (o * exp (- (2 * (K * K) * (sW * sW)))) * b)%C ];
     [ (RtoC (o * exp (- (2 * (K * K) * (sW * sW)))) * c)%C;  RtoC (o * o * d) ]].
  Proof.
    unfold shot_avg. cbn [map fst snd].
    assert (X : forall k l, (fun w i => centry (interpM (sample_env p rho0 w i) (GrhoG p)) k l) =
                            (fun w i => centry [[ (RtoC a + Ci * RtoC i * (Cexp (- (2 * (K * w))) * c - Cexp (2 * (K * w)) * b) + RtoC i * RtoC i * RtoC d)%C;
       (RtoC o * Cexp (2 * (K * w)) * b + Ci * RtoC i * (RtoC o * RtoC d))%C ];
     [ (RtoC o * Cexp (- (2 * (K * w))) * c - Ci * RtoC i * (RtoC o * RtoC d))%C;
       (RtoC o * RtoC o * RtoC d)%C ]] k l)).
    { intros k l. extensionality w. extensionality i. now rewrite product_at. }
    rewrite !X. unfold centry. cbn [nth].
    assert (EX : exp (- (2 * K * (2 * K) * (sW * sW)) / 2) = exp (- (2 * (K * K) * (sW * sW)))) by (f_equal; field).
    assert (EXn : exp (- (- (2 * K) * - (2 * K) * (sW * sW)) / 2) = exp (- (2 * (K * K) * (sW * sW)))) by (f_equal; field).
    f_equal; [|f_equal]; f_equal; [| f_equal | | f_equal ].
    - transitivity (E (fun w i => RtoC a + (Ci * c) * (RtoC i * Cexp (- (2 * K) * w)) + (- (Ci * b)) * (RtoC i * Cexp (2 * K * w))
                                  + RtoC d * (RtoC i * RtoC i) + RtoC 0 * Cexp (0 * w))%C).
      { f_equal. extensionality w. extensionality i.
        replace (- (2 * (K * w))) with (- (2 * K) * w) by ring. replace (2 * (K * w)) with (2 * K * w) by ring. ring. }
      rewrite (E_entry _ _ _ HG). ring.
    - transitivity (E (fun w i => RtoC 0 + (Ci * RtoC o * RtoC d) * (RtoC i * Cexp (0 * w)) + RtoC 0 * (RtoC i * Cexp (0 * w))
                                  + RtoC 0 * (RtoC i * RtoC i) + (RtoC o * b) * Cexp (2 * K * w))%C).
      { f_equal. extensionality w. extensionality i.
        replace (2 * (K * w)) with (2 * K * w) by ring. rewrite Rmult_0_l, Cexp_0. ring. }
      rewrite (E_entry _ _ _ HG), EX, (RtoC_mult o). ring.
    - transitivity (E (fun w i => RtoC 0 + (- (Ci * RtoC o * RtoC d)) * (RtoC i * Cexp (0 * w)) + RtoC 0 * (RtoC i * Cexp (0 * w))
                                  + RtoC 0 * (RtoC i * RtoC i) + (RtoC o * c) * Cexp (- (2 * K) * w))%C).
      { f_equal. extensionality w. extensionality i.
        replace (- (2 * (K * w))) with (- (2 * K) * w) by ring. rewrite Rmult_0_l, Cexp_0. ring. }
      rewrite (E_entry _ _ _ HG), EXn, (RtoC_mult o). ring.
    - rewrite (E_const _ _ _ HG). now rewrite !RtoC_mult.
  Qed.
End Sem.

(* ================= 6. from the moments to the T1/T2 channel ================= *)
(* amplitude damping with exponent g1 (population decay exp(-g1)) and coherence decay exp(-g2) *)
Definition channel (g1 g2 a br bi d : R) : Cmat :=
  [[ RtoC (a + (1 - exp (- g1)) * d);  (RtoC (exp (- g2)) * (RtoC br + Ci * RtoC bi))%C ];
   [ (RtoC (exp (- g2)) * (RtoC br - Ci * RtoC bi))%C;  RtoC (exp (- g1) * d) ]].

Lemma channel_of_moments a br bi d sW sI o K g1 g2 :
  sI * sI = 1 - exp (- g1) -> o = exp (- (g1 / 2)) -> 2 * (K * K) * (sW * sW) = g2 - g1 / 2 ->
  [[ (RtoC a + RtoC (sI * sI) * RtoC d)%C;  (RtoC (o * exp (- (2 * (K * K) * (sW * sW)))) * (RtoC br + Ci * RtoC bi))%C ];
   [ (RtoC (o * exp (- (2 * (K * K) * (sW * sW)))) * (RtoC br - Ci * RtoC bi))%C;  RtoC (o * o * d) ]] = channel g1 g2 a br bi d.
Proof.
  intros HI Ho HK. unfold channel. rewrite HI, HK, Ho, <- !exp_plus.
  replace (- (g1 / 2) + - (g2 - g1 / 2)) with (- g2) by field. replace (- (g1 / 2) + - (g1 / 2)) with (- g1) by field.
  now rewrite <- RtoC_mult, <- RtoC_plus.
Qed.

(* reading the tracer's definitions over the reals *)
Lemma def_sqrt_sq rho defs v e e' : respects rho defs -> lookup_def v defs = Some (OSqrt e) ->
  expr_eqb cf e e' = true -> rpoly e' = true -> 0 <= interpR rho e' -> rho v * rho v = interpR rho e'.
Proof. intros R L Q P N. pose proof (respects_lookup _ _ _ _ R L) as H. simpl in H.
  rewrite H, (expr_eq_sound cf _ _ Q rho), (Re_interp_real _ _ P). now apply sqrt_sqrt. Qed.
Lemma def_exp rho defs v e e' : respects rho defs -> lookup_def v defs = Some (OExpReal e) ->
  expr_eqb cf e e' = true -> rpoly e' = true -> rho v = exp (interpR rho e').
Proof. intros R L Q P. pose proof (respects_lookup _ _ _ _ R L) as H. simpl in H.
  now rewrite H, (expr_eq_sound cf _ _ Q rho), (Re_interp_real _ _ P). Qed.
Lemma exp_neg_le_1 x : 0 <= x -> exp (- x) <= 1.
Proof. intros [H|<-]. rewrite <- exp_0. apply Rlt_le, exp_increasing. lra. rewrite Ropp_0, exp_0. lra. Qed.
Lemma tgR_pos : 0 < tgR. Proof. unfold tgR, Q2R. simpl. lra. Qed.

(* variables of a path, read off its samplers and definitions *)
Definition var_of (e : expr) : nat := match e with EVar v => v | _ => 4999%nat end.
Definition arg_sqrt (p : relax_path) (v : nat) : expr := match lookup_def v (rp_defs p) with Some (OSqrt e) => e | _ => EVar 4999 end.
Definition arg_exp (p : relax_path) (v : nat) : expr := match lookup_def v (rp_defs p) with Some (OExpReal e) => e | _ => EVar 4999 end.
Definition r_sW (p : relax_path) : nat := var_of (rp_sW p).                      (* std of W *)
Definition r_sI (p : relax_path) : nat := var_of (rp_sI p).                      (* std of I *)
Definition r_x (p : relax_path) : nat := match arg_sqrt p (r_sI p) with ESub _ (EVar x) => x | _ => 4999%nat end.   (* std_I = sqrt(1 - x) *)
Definition r_prod (p : relax_path) : nat := match rp_U p with EMul _ (EVar x) => x | _ => 4999%nat end.
Definition r_q (p : relax_path) : Q := match rp_U p with EMul (EQ q) _ => q | _ => 0%Q end.
Definition r_ep (p : relax_path) : nat := match lookup (prod_subst (rp_defs p)) (r_prod p) with Some (EMul (EVar e) _) => e | _ => 4999%nat end.
Definition r_e1 (p : relax_path) : nat := match find_e1 (rp_defs p) (vi "T1") with Some v => v | None => 4999%nat end.
Definition r_e2 (p : relax_path) : nat := match find_e1 (rp_defs p) (vi "T2") with Some v => v | None => 4999%nat end.
Definition vDt : nat := vi "Dt". Definition vT1 : nat := vi "T1". Definition vT2 : nat := vi "T2".
Definition Delta : expr := EDiv (EVar vDt) tg.            (* Dt / tg *)
Definition sq (v : nat) : expr := EPow (EVar v) 2.

Definition rp_dflt : relax_path := ([], zero_mat 2, [], []).
Definition P00 : relax_path := nth 0 gen_relax_paths rp_dflt.     (* T1 != 0, T2 != 0 *)
Definition P01 : relax_path := nth 1 gen_relax_paths rp_dflt.     (* T1 != 0, T2 == 0 *)
Definition P10 : relax_path := nth 2 gen_relax_paths rp_dflt.     (* T1 == 0, T2 != 0 *)
Definition P11 : relax_path := nth 3 gen_relax_paths rp_dflt.     (* T1 == 0, T2 == 0 *)
Lemma relax_decisions : map rp_dec gen_relax_paths = [[false; false]; [false; true]; [true; false]; [true; true]].
Proof. vm_compute. reflexivity. Qed.

Definition dm_a (rho0 : env) := rho0 va. Definition dm_br (rho0 : env) := rho0 vbr.
Definition dm_bi (rho0 : env) := rho0 vbi. Definition dm_d (rho0 : env) := rho0 vd.
Definition std_W (p : relax_path) (rho0 : env) : R := Re (interpC rho0 (rp_sW p)).
Definition std_I (p : relax_path) (rho0 : env) : R := Re (interpC rho0 (rp_sI p)).

Ltac vmr := vm_compute; reflexivity.
(* rho v * rho v = <canonical argument e'> for a traced v = sqrt(e);  rho v = exp <canonical argument e'> for v = exp(e) *)
Ltac sqrt_fact P rho0 R v e' H :=
  pose proof (def_sqrt_sq rho0 (rp_defs P) v (arg_sqrt P v) e' R ltac:(vmr) ltac:(vmr) ltac:(vmr)) as H.
Ltac exp_fact P rho0 R v e' H :=
  pose proof (def_exp rho0 (rp_defs P) v (arg_exp P v) e' R ltac:(vmr) ltac:(vmr) ltac:(vmr)) as H.
Lemma Q2R_1' : Q2R (1#1) = 1. Proof. unfold Q2R. simpl. lra. Qed.
Lemma Q2R_0' : Q2R (0#1) = 0. Proof. unfold Q2R. simpl. lra. Qed.
Lemma Q2R_half' : Q2R (1#2) = / 2. Proof. unfold Q2R. simpl. lra. Qed.
Lemma ratio_nonneg x y : 0 <= x -> 0 < y -> 0 <= x / y.
Proof. intros. apply Rmult_le_pos; [lra | apply Rlt_le, Rinv_0_lt_compat; lra]. Qed.

(* ---- all noise: T1 > 0, T2 > 0, T2 <= 2 T1 ---- *)
Theorem relaxation_channel_P00 E rho0 :
  respects rho0 (rp_defs P00) ->
  0 <= rho0 vDt -> 0 < rho0 vT1 -> 0 < rho0 vT2 -> rho0 vT2 <= 2 * rho0 vT1 ->
  gaussian_pair E (std_W P00 rho0) (std_I P00 rho0) ->
  shot_avg E P00 rho0 = channel (rho0 vDt / rho0 vT1) (rho0 vDt / rho0 vT2) (dm_a rho0) (dm_br rho0) (dm_bi rho0) (dm_d rho0).
Proof.
  intros R HDt HT1 HT2 H21 HG.
  change (std_W P00 rho0) with (rho0 (r_sW P00)) in HG. change (std_I P00 rho0) with (rho0 (r_sI P00)) in HG.
  rewrite (shot_avg_moments E _ _ HG P00 rho0 (Q2R (r_q P00) * rho0 (r_ep P00))).
  2, 3, 6: vmr.
  2: { apply (rate_prod P00 rho0 (r_q P00) (r_prod P00) (r_ep P00)); vmr. }
  2: { intros w i. apply sample_env_I; vmr. }
  pose proof tgR_pos as Htg.
  assert (S1 : rho0 (r_e1 P00) * rho0 (r_e1 P00) = tgR / rho0 vT1) by (apply (e1_squared (rp_defs P00) vT1); [vmr | exact R | exact HT1]).
  assert (S2 : rho0 (r_e2 P00) * rho0 (r_e2 P00) = tgR / rho0 vT2) by (apply (e1_squared (rp_defs P00) vT2); [vmr | exact R | exact HT2]).
  assert (G0 : 0 <= rho0 vDt / rho0 vT1) by (now apply ratio_nonneg).
  sqrt_fact P00 rho0 R (r_ep P00) (EMul (EQ (1#2)%Q) (ESub (sq (r_e2 P00)) (EDiv (sq (r_e1 P00)) (EQ (2#1)%Q)))) Sp.
  cbn [interpR sq] in Sp. simpl pow in Sp. rewrite !Rmult_1_r, S1, S2, Q2R_2, Q2R_half' in Sp.
  sqrt_fact P00 rho0 R (r_sW P00) Delta SW. cbn [interpR Delta tg] in SW. fold tgR in SW.
  exp_fact P00 rho0 R (r_x P00) (ENeg (EMul (sq (r_e1 P00)) Delta)) SX.
  cbn [interpR sq Delta tg] in SX. fold tgR in SX. simpl pow in SX. rewrite Rmult_1_r, S1 in SX.
  replace (tgR / rho0 vT1 * (rho0 vDt / tgR)) with (rho0 vDt / rho0 vT1) in SX by (field; lra).
  sqrt_fact P00 rho0 R (r_sI P00) (ESub E1 (EVar (r_x P00))) SI. cbn [interpR E1] in SI. rewrite SX, Q2R_1' in SI.
  exp_fact P00 rho0 R (rp_O P00) (ENeg (EDiv (EMul (sq (r_e1 P00)) Delta) (EQ (2#1)%Q))) SO.
  cbn [interpR sq Delta tg] in SO. fold tgR in SO. simpl pow in SO. rewrite Rmult_1_r, S1, Q2R_2 in SO.
  replace (tgR / rho0 vT1 * (rho0 vDt / tgR)) with (rho0 vDt / rho0 vT1) in SO by (field; lra).
  apply channel_of_moments.
  - apply SI. pose proof (exp_neg_le_1 _ G0). lra.
  - exact SO.
  - replace (Q2R (r_q P00)) with 1 by (vm_compute; lra).
    rewrite SW by (apply ratio_nonneg; lra).
    replace (1 * rho0 (r_ep P00) * (1 * rho0 (r_ep P00))) with (rho0 (r_ep P00) * rho0 (r_ep P00)) by ring.
    rewrite Sp. field. lra.
    assert (tgR / rho0 vT2 >= tgR / (2 * rho0 vT1)).
    { apply Rle_ge. unfold Rdiv. apply Rmult_le_compat_l; [lra|]. apply Rinv_le_contravar; lra. }
    replace (tgR / rho0 vT1 / 2) with (tgR / (2 * rho0 vT1)) by (field; lra). lra.
Qed.

(* ---- T2 == 0 (pure dephasing off): T1 > 0; the coherence decays with the T1-limited rate 1/(2 T1) ---- *)
Theorem relaxation_channel_P01 E rho0 :
  respects rho0 (rp_defs P01) ->
  0 <= rho0 vDt -> 0 < rho0 vT1 ->
  gaussian_pair E (std_W P01 rho0) (std_I P01 rho0) ->
  shot_avg E P01 rho0 = channel (rho0 vDt / rho0 vT1) (rho0 vDt / rho0 vT1 / 2) (dm_a rho0) (dm_br rho0) (dm_bi rho0) (dm_d rho0).
Proof.
  intros R HDt HT1 HG.
  change (std_W P01 rho0) with (rho0 (r_sW P01)) in HG. change (std_I P01 rho0) with (rho0 (r_sI P01)) in HG.
  rewrite (shot_avg_moments E _ _ HG P01 rho0 (Q2R (r_q P01))).
  2, 3, 6: vmr.
  2: { apply (rate_direct P01 rho0 (r_q P01)); vmr. }
  2: { intros w i. apply sample_env_I; vmr. }
  pose proof tgR_pos as Htg.
  assert (S1 : rho0 (r_e1 P01) * rho0 (r_e1 P01) = tgR / rho0 vT1) by (apply (e1_squared (rp_defs P01) vT1); [vmr | exact R | exact HT1]).
  assert (G0 : 0 <= rho0 vDt / rho0 vT1) by (now apply ratio_nonneg).
  exp_fact P01 rho0 R (r_x P01) (ENeg (EMul (sq (r_e1 P01)) Delta)) SX.
  cbn [interpR sq Delta tg] in SX. fold tgR in SX. simpl pow in SX. rewrite Rmult_1_r, S1 in SX.
  replace (tgR / rho0 vT1 * (rho0 vDt / tgR)) with (rho0 vDt / rho0 vT1) in SX by (field; lra).
  sqrt_fact P01 rho0 R (r_sI P01) (ESub E1 (EVar (r_x P01))) SI. cbn [interpR E1] in SI. rewrite SX, Q2R_1' in SI.
  exp_fact P01 rho0 R (rp_O P01) (ENeg (EDiv (EMul (sq (r_e1 P01)) Delta) (EQ (2#1)%Q))) SO.
  cbn [interpR sq Delta tg] in SO. fold tgR in SO. simpl pow in SO. rewrite Rmult_1_r, S1, Q2R_2 in SO.
  replace (tgR / rho0 vT1 * (rho0 vDt / tgR)) with (rho0 vDt / rho0 vT1) in SO by (field; lra).
  apply channel_of_moments.
  - apply SI. pose proof (exp_neg_le_1 _ G0). lra.
  - exact SO.
  - replace (Q2R (r_q P01)) with 0 by (vm_compute; lra). ring.
Qed.

(* ---- T1 == 0 (amplitude damping off): T2 > 0; populations unchanged, coherence decays with 1/T2 ---- *)
Theorem relaxation_channel_P10 E rho0 :
  respects rho0 (rp_defs P10) ->
  0 <= rho0 vDt -> 0 < rho0 vT2 ->
  gaussian_pair E (std_W P10 rho0) (std_I P10 rho0) ->
  shot_avg E P10 rho0 = channel 0 (rho0 vDt / rho0 vT2) (dm_a rho0) (dm_br rho0) (dm_bi rho0) (dm_d rho0).
Proof.
  intros R HDt HT2 HG.
  change (std_W P10 rho0) with (rho0 (r_sW P10)) in HG. change (std_I P10 rho0) with (rho0 (r_sI P10)) in HG.
  rewrite (shot_avg_moments E _ _ HG P10 rho0 (Q2R (r_q P10) * rho0 (r_ep P10))).
  2, 3, 6: vmr.
  2: { apply (rate_prod P10 rho0 (r_q P10) (r_prod P10) (r_ep P10)); vmr. }
  2: { intros w i. apply sample_env_I; vmr. }
  pose proof tgR_pos as Htg.
  assert (S2 : rho0 (r_e2 P10) * rho0 (r_e2 P10) = tgR / rho0 vT2) by (apply (e1_squared (rp_defs P10) vT2); [vmr | exact R | exact HT2]).
  sqrt_fact P10 rho0 R (r_ep P10) (EMul (EQ (1#2)%Q) (sq (r_e2 P10))) Sp.
  cbn [interpR sq] in Sp. simpl pow in Sp. rewrite !Rmult_1_r, S2, Q2R_half' in Sp.
  sqrt_fact P10 rho0 R (r_sW P10) Delta SW. cbn [interpR Delta tg] in SW. fold tgR in SW.
  exp_fact P10 rho0 R (r_x P10) E0 SX. cbn [interpR E0] in SX. rewrite Q2R_0', exp_0 in SX.
  sqrt_fact P10 rho0 R (r_sI P10) (ESub E1 (EVar (r_x P10))) SI. cbn [interpR E1] in SI. rewrite SX, Q2R_1' in SI.
  exp_fact P10 rho0 R (rp_O P10) E0 SO. cbn [interpR E0] in SO. rewrite Q2R_0', exp_0 in SO.
  assert (Z : - (0 / 2) = 0) by field.
  apply channel_of_moments.
  - rewrite Ropp_0, exp_0. rewrite SI; lra.
  - rewrite Z, exp_0. exact SO.
  - replace (Q2R (r_q P10)) with 1 by (vm_compute; lra).
    rewrite SW by (apply ratio_nonneg; lra).
    replace (1 * rho0 (r_ep P10) * (1 * rho0 (r_ep P10))) with (rho0 (r_ep P10) * rho0 (r_ep P10)) by ring.
    rewrite Sp. field. lra.
    apply Rmult_le_pos; [lra | apply ratio_nonneg; lra].
Qed.

(* ---- T1 == 0 and T2 == 0: the identity channel ---- *)
Theorem relaxation_channel_P11 E rho0 :
  respects rho0 (rp_defs P11) ->
  gaussian_pair E (std_W P11 rho0) (std_I P11 rho0) ->
  shot_avg E P11 rho0 = channel 0 0 (dm_a rho0) (dm_br rho0) (dm_bi rho0) (dm_d rho0).
Proof.
  intros R HG.
  change (std_W P11 rho0) with (rho0 (r_sW P11)) in HG. change (std_I P11 rho0) with (rho0 (r_sI P11)) in HG.
  rewrite (shot_avg_moments E _ _ HG P11 rho0 (Q2R (r_q P11))).
  2, 3, 6: vmr.
  2: { apply (rate_direct P11 rho0 (r_q P11)); vmr. }
  2: { intros w i. apply sample_env_I; vmr. }
  exp_fact P11 rho0 R (r_x P11) E0 SX. cbn [interpR E0] in SX. rewrite Q2R_0', exp_0 in SX.
  sqrt_fact P11 rho0 R (r_sI P11) (ESub E1 (EVar (r_x P11))) SI. cbn [interpR E1] in SI. rewrite SX, Q2R_1' in SI.
  exp_fact P11 rho0 R (rp_O P11) E0 SO. cbn [interpR E0] in SO. rewrite Q2R_0', exp_0 in SO.
  assert (Z : - (0 / 2) = 0) by field.
  apply channel_of_moments.
  - rewrite Ropp_0, exp_0. rewrite SI; lra.
  - rewrite Z, exp_0. exact SO.
  - replace (Q2R (r_q P11)) with 0 by (vm_compute; lra). field.
Qed.

(* ================= 7. the shot environment is a run of the traced program ================= *)
(* for every pair of sample values the environment of section 4 respects ALL the tracer's definitions (the strengths and
   standard deviations do not depend on the samples; the product variables follow their samples) *)
Definition keys {A} (s : list (nat * A)) : list nat := map fst s.
Lemma lookup_none s v : mem v (keys s) = false -> lookup s v = None.
Proof. induction s as [|[w t] r IH]; simpl; [reflexivity|]. intros H. apply orb_false_elim in H as [H1 H2]. rewrite H1. now apply IH. Qed.
Definition odef_beq (a b : odef) : bool :=
  match a, b with OProd x, OProd y => expr_beq x y | _, _ => false end.
Definition def_static_ok (p : relax_path) (vd : nat * odef) : bool :=
  let ps := prod_subst (rp_defs p) in
  match snd vd with
  | OProd e => match lookup ps (fst vd) with Some e' => expr_beq e' e | None => false end && negb (mentions (keys ps) e)
  | OSqrt e | OExpReal e | OInv e => static p (fst vd) && negb (mentions (rp_W p :: rp_I p :: keys ps) e)
  | OInt _ _ _ => true
  end.
Definition defs_static_ok (p : relax_path) : bool := forallb (def_static_ok p) (rp_defs p).
Lemma relax_defs_static : forallb defs_static_ok gen_relax_paths = true.
Proof. vm_compute. reflexivity. Qed.

Lemma sample_env_out p rho0 w i v : mem v (rp_W p :: rp_I p :: keys (prod_subst (rp_defs p))) = false -> sample_env p rho0 w i v = rho0 v.
Proof. cbn [mem]. intros H. apply orb_false_elim in H as [H1 H]. apply orb_false_elim in H as [H2 H3].
  apply sample_env_static. unfold static. now rewrite (lookup_none _ _ H3), H1, H2. Qed.
Lemma sample_env_noprod p rho0 w i v : mem v (keys (prod_subst (rp_defs p))) = false ->
  sample_env p rho0 w i v = set2 rho0 (rp_W p) w (rp_I p) i v.
Proof. intros H. unfold sample_env, env_of. now rewrite (lookup_none _ _ H). Qed.

Theorem sample_env_respects p rho0 w i : defs_static_ok p = true -> respects rho0 (rp_defs p) ->
  respects (sample_env p rho0 w i) (rp_defs p).
Proof.
  unfold defs_static_ok, respects. rewrite forallb_forall, !Forall_forall. intros K R [v d] Hin.
  specialize (K _ Hin). specialize (R _ Hin). unfold def_static_ok in K. cbn [fst snd] in *.
  set (l := (rp_W p :: rp_I p :: keys (prod_subst (rp_defs p)))) in *.
  assert (A : forall e, mentions l e = false -> interpC (sample_env p rho0 w i) e = interpC rho0 e).
  { intros e. apply interpC_agree. intros v'. apply sample_env_out. }
  destruct d as [e|e|e|e|k a b]; cbn [respects_def] in *.
  - apply andb_prop in K as [K1 K2]. apply negb_true_iff in K2. now rewrite (sample_env_static _ _ _ _ _ K1), (A _ K2).
  - apply andb_prop in K as [K1 K2]. apply negb_true_iff in K2. now rewrite (sample_env_static _ _ _ _ _ K1), (A _ K2).
  - apply andb_prop in K as [K1 K2]. apply negb_true_iff in K2. now rewrite (sample_env_static _ _ _ _ _ K1), (A _ K2).
  - apply andb_prop in K as [K1 K2]. apply negb_true_iff in K2.
    destruct (lookup (prod_subst (rp_defs p)) v) as [e'|] eqn:L; [|discriminate]. apply expr_beq_eq in K1. subst e'.
    rewrite (interpC_agree (keys (prod_subst (rp_defs p))) (sample_env p rho0 w i) (set2 rho0 (rp_W p) w (rp_I p) i)); [| | exact K2].
    + unfold sample_env at 1. unfold env_of. now rewrite L.
    + intros v'. apply sample_env_noprod.
  - exact I.
Qed.

(* ================= 8. the hypotheses are jointly satisfiable ================= *)
(* an environment built by executing the definitions in order *)
Definition upd (rho : env) (v : nat) (x : R) : env := fun u => if Nat.eqb u v then x else rho u.
Definition def_val (d : odef) (rho : env) : R :=
  match d with
  | OSqrt e => sqrt (Re (interpC rho e)) | OExpReal e => exp (Re (interpC rho e))
  | OInv e => / Re (interpC rho e) | OProd e => Re (interpC rho e) | OInt _ _ _ => 0
  end.
Definition def_expr (d : odef) : expr := match d with OSqrt e | OExpReal e | OInv e | OProd e => e | OInt _ _ _ => EQ (0#1)%Q end.
Fixpoint build (defs : list (nat * odef)) (rho : env) : env :=
  match defs with [] => rho | (v, d) :: r => build r (upd rho v (def_val d rho)) end.
Fixpoint ordered (defs : list (nat * odef)) : bool :=
  match defs with [] => true | (v, d) :: r => negb (mentions (v :: keys r) (def_expr d)) && negb (mem v (keys r)) && ordered r end.
Lemma build_out defs : forall rho v, mem v (keys defs) = false -> build defs rho v = rho v.
Proof. induction defs as [|[u d] r IH]; intros rho v H; cbn [build]; [reflexivity|].
  cbn [keys map fst mem] in H. apply orb_false_elim in H as [H1 H2]. rewrite (IH _ _ H2). unfold upd. now rewrite H1. Qed.
Lemma build_respects defs : forall rho, ordered defs = true -> respects (build defs rho) defs.
Proof. induction defs as [|[v d] r IH]; intros rho H; [constructor|].
  cbn [ordered] in H. apply andb_prop in H as [H H3]. apply andb_prop in H as [H1 H2]. apply negb_true_iff in H1, H2.
  constructor; [|apply IH; exact H3]. cbn [fst snd build].
  assert (V : build r (upd rho v (def_val d rho)) v = def_val d rho) by (rewrite (build_out _ _ _ H2); unfold upd; now rewrite Nat.eqb_refl).
  assert (A : interpC (build r (upd rho v (def_val d rho))) (def_expr d) = interpC rho (def_expr d)).
  { apply (interpC_agree (v :: keys r)); [|exact H1]. intros u Hu. cbn [mem] in Hu. apply orb_false_elim in Hu as [U1 U2].
    rewrite (build_out _ _ _ U2). unfold upd. now rewrite U1. }
  destruct d; cbn [respects_def def_expr def_val] in *; try (now rewrite V, A). exact I.
Qed.
Lemma relax_defs_ordered : forallb (fun p => ordered (rp_defs p)) gen_relax_paths = true.
Proof. vm_compute. reflexivity. Qed.

(* parameters T1 = T2 = 1, Dt = 0: both standard deviations are 0 and the point mass is the law of the samples *)
Definition ex_base : env := fun v => if Nat.eqb v vDt then 0 else 1.
Definition ex_env : env := build (rp_defs P00) ex_base.
Lemma sq_zero x : x * x = 0 -> x = 0.
Proof. intros H. apply Rmult_integral in H. tauto. Qed.
Lemma relaxation_channel_hypotheses_satisfiable :
  exists E rho0, respects rho0 (rp_defs P00) /\ 0 <= rho0 vDt /\ 0 < rho0 vT1 /\ 0 < rho0 vT2 /\ rho0 vT2 <= 2 * rho0 vT1 /\
                 gaussian_pair E (std_W P00 rho0) (std_I P00 rho0).
Proof.
  exists (fun f => f 0 0), ex_env.
  assert (R : respects ex_env (rp_defs P00)) by (apply build_respects; vmr).
  assert (VD : ex_env vDt = 0) by (unfold ex_env; rewrite build_out by vmr; reflexivity).
  assert (V1 : ex_env vT1 = 1) by (unfold ex_env; rewrite build_out by vmr; reflexivity).
  assert (V2 : ex_env vT2 = 1) by (unfold ex_env; rewrite build_out by vmr; reflexivity).
  split; [exact R|]. rewrite VD, V1, V2. repeat (split; [lra|]).
  change (std_W P00 ex_env) with (ex_env (r_sW P00)). change (std_I P00 ex_env) with (ex_env (r_sI P00)).
  pose proof tgR_pos as Htg.
  assert (S1 : ex_env (r_e1 P00) * ex_env (r_e1 P00) = tgR / ex_env vT1) by (apply (e1_squared (rp_defs P00) vT1); [vmr | exact R | rewrite V1; lra]).
  sqrt_fact P00 ex_env R (r_sW P00) Delta SW. cbn [interpR Delta tg] in SW. fold tgR in SW. rewrite VD in SW.
  exp_fact P00 ex_env R (r_x P00) (ENeg (EMul (sq (r_e1 P00)) Delta)) SX.
  cbn [interpR sq Delta tg] in SX. fold tgR in SX. simpl pow in SX. rewrite Rmult_1_r, S1, VD in SX.
  replace (- (tgR / ex_env vT1 * (0 / tgR))) with 0 in SX by (unfold Rdiv; ring). rewrite exp_0 in SX.
  sqrt_fact P00 ex_env R (r_sI P00) (ESub E1 (EVar (r_x P00))) SI. cbn [interpR E1] in SI. rewrite SX, Q2R_1' in SI.
  replace (ex_env (r_sW P00)) with 0 by (symmetry; apply sq_zero; rewrite SW; unfold Rdiv; [ring | lra]).
  replace (ex_env (r_sI P00)) with 0 by (symmetry; apply sq_zero; rewrite SI; lra).
  exact gaussian_pair_dirac.
Qed.

(* ================= 9. summary statements used by Props/C04.v ================= *)
Lemma relax_paths_ok : forallb (fun p => rp_samplers_ok p && product_ok p && defs_static_ok p) gen_relax_paths = true.
Proof. vm_compute. reflexivity. Qed.
Theorem shot_env_is_run p rho0 w i : In p gen_relax_paths -> respects rho0 (rp_defs p) -> respects (sample_env p rho0 w i) (rp_defs p).
Proof. intros Hin. apply sample_env_respects. pose proof relax_defs_static as H. rewrite forallb_forall in H. now apply H. Qed.
