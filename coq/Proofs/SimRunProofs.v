(* Proofs for C14: layout facts, the validation sequence, normalisation and marginalisation over the reals. *)
From Coq Require Import List Bool NArith ZArith Arith Lia Permutation Reals Lra.
Require Import QG.Base.Res QG.Model.FixCounts QG.Model.SimRun QG.Proofs.FixCountsKeys QG.Proofs.FixCountsProofs QG.Proofs.SimRunKeys.
Import ListNotations.

(* ------------------------------------------------------------------ _process_layout *)
Lemma memN_In x l : memN x l = true <-> In x l.
Proof.
  induction l as [|y r IH]; cbn [memN In]; [split; [discriminate|tauto]|].
  rewrite orb_true_iff, IH. split; intros [H|H]; auto.
  - left. symmetry. now apply N.eqb_eq.
  - left. apply N.eqb_eq. auto.
Qed.
Lemma add_used_in q u x : In x (add_used q u) <-> x = q \/ In x u.
Proof.
  unfold add_used. destruct (memN q u) eqn:E.
  - apply memN_In in E. split; [auto|]. intros [->|H]; auto.
  - rewrite in_app_iff. simpl. intuition.
Qed.
Lemma add_used_nodup q u : NoDup u -> NoDup (add_used q u).
Proof.
  intros ND. unfold add_used. destruct (memN q u) eqn:E; auto. apply NoDup_snoc; auto.
  intros H. apply memN_In in H. congruence.
Qed.
Lemma insN_perm x l : Permutation (insN x l) (x :: l).
Proof.
  induction l as [|y r IH]; cbn [insN]; auto. destruct (x <=? y)%N; auto.
  rewrite IH. apply perm_swap.
Qed.
Lemma sortN_perm l : Permutation (sortN l) l.
Proof. induction l as [|x r IH]; cbn [sortN fold_right]; auto. fold (sortN r). rewrite insN_perm. now constructor. Qed.

Definition wf_instr (x : instr) : Prop := iname x = OpMeasure -> exists q c, iqs x = [q] /\ ics x = [c].
Definition step_used (x : instr) (used : list N) : list N :=
  if is_delay (iname x) then used
  else match iqs x with [q] => add_used q used | [q1; q2] => add_used q2 (add_used q1 used) | _ => used end.
Lemma step_used_nodup x u : NoDup u -> NoDup (step_used x u).
Proof.
  intros ND. unfold step_used. destruct (is_delay (iname x)); auto.
  destruct (iqs x) as [|q1 [|q2 [|q3 r]]]; auto using add_used_nodup.
Qed.
Lemma step_used_incl x u y : In y u -> In y (step_used x u).
Proof.
  intros H. unfold step_used. destruct (is_delay (iname x)); auto.
  destruct (iqs x) as [|q1 [|q2 [|q3 r]]]; auto.
  - apply add_used_in; auto.
  - apply add_used_in. right. apply add_used_in. auto.
Qed.

Lemma layout_loop_inv data : forall used meas u m,
  Forall wf_instr data -> NoDup used -> Forall (fun qc => In (fst qc) used) meas ->
  layout_loop data used meas = Ok (u, m) ->
  NoDup u /\ Forall (fun qc : N * N => In (fst qc) u) m.
Proof.
  induction data as [|x rest IH]; intros used meas u m Fw ND Fm H; cbn [layout_loop] in H.
  - injection H as <- <-. auto.
  - apply Forall_cons_iff in Fw as [Hx Fw]. fold (step_used x used) in H.
    assert (ND1 := step_used_nodup x used ND).
    assert (Fm1 : Forall (fun qc : N * N => In (fst qc) (step_used x used)) meas).
    { rewrite Forall_forall in *. intros qc Hq. apply step_used_incl. auto. }
    destruct (is_measure (iname x)) eqn:Em.
    + assert (En : iname x = OpMeasure) by (destruct (iname x); try discriminate; reflexivity).
      destruct (Hx En) as (q & c & Eq & Ec). rewrite Eq, Ec in H.
      apply (IH _ _ _ _ Fw ND1) in H; auto. apply Forall_app. split; auto. constructor; auto. cbn [fst].
      unfold step_used. rewrite En, Eq. cbn [is_delay]. apply add_used_in. auto.
    + eapply IH; eauto.
Qed.

Lemma process_layout_inv data used meas n :
  Forall wf_instr data -> process_layout data = Ok (used, meas, n) ->
  NoDup used /\ Forall (fun qc : N * N => In (fst qc) used) meas /\ n = length used.
Proof.
  intros Fw H. unfold process_layout in H. destruct (layout_loop data [] []) as [[u m]|e] eqn:E; cbn [rbind] in H; [|discriminate].
  cbn [fst snd] in H. injection H as <- <- <-.
  destruct (layout_loop_inv data [] [] u m Fw (NoDup_nil _) (Forall_nil _) E) as [ND Fm].
  repeat split; auto.
  - eapply Permutation_NoDup; [symmetry; apply sortN_perm|auto].
  - rewrite Forall_forall in *. intros qc Hq. eapply Permutation_in; [symmetry; apply sortN_perm|]. auto.
Qed.

(* ------------------------------------------------------------------ what an accepted argument tuple looks like *)
Ltac dm H := match type of H with context[match ?x with _ => _ end] => destruct x eqn:?; try discriminate end.

Lemma front_ok_inv a f : front a = Ok f ->
  exists data, a_circ a = CData true data /\ process_layout data = Ok (f_used f, f_meas f, f_n f) /\
    f_meas f <> [] /\ a_shots a = Some (f_shots f) /\ (1 <= f_shots f)%Z /\
    a_nqubit a = Some (f_nqubit f) /\ (f_nqubit f <= Z.of_nat (f_n f))%Z /\
    (exists dims, a_psi0 a = PsiShape dims /\ pow2_shape_ok dims (f_nqubit f) = true) /\
    (exists k, a_params a = Some (T1Len k) /\ (f_nqubit f <= k)%Z).
Proof.
  unfold front, front_step. intros H.
  destruct (a_circ a) as [|is_qc data]; [discriminate|].
  destruct (process_layout data) as [[[used meas] n]|e] eqn:El; [|discriminate].
  destruct (Nat.eqb (length meas) 0) eqn:E0; [discriminate|].
  destruct is_qc; cbn [negb] in H; [|discriminate].
  destruct (a_shots a) as [shots|]; [|discriminate].
  destruct (a_params a) as [t1|]; [|discriminate].
  destruct (a_nqubit a) as [nq|]; [|discriminate].
  destruct (shots <? 1)%Z eqn:E1; [discriminate|].
  destruct (a_psi0 a) as [|dims]; [discriminate|].
  destruct (pow2_shape_ok dims nq) eqn:E2; cbn [negb] in H; [|discriminate].
  destruct (Z.of_nat n <? nq)%Z eqn:E3; [discriminate|].
  destruct t1 as [| |k]; try discriminate.
  destruct (k <? nq)%Z eqn:E4; [discriminate|].
  destruct (swap_check meas used nq) as [[u|e] s]; [|discriminate].
  cbn [fst] in H. injection H as <-. cbn [f_used f_meas f_n f_shots f_nqubit].
  exists data. repeat split; auto; try lia.
  - intros ->. discriminate.
  - eauto.
  - exists k. split; auto. lia.
Qed.

(* ------------------------------------------------------------------ listed malformed arguments are refused *)
Lemma pow2_shape_ok_spec dims nq : (0 <= nq)%Z -> pow2_shape_ok dims nq = true -> dims = [(2 ^ nq)%Z].
Proof.
  intros Hn H. unfold pow2_shape_ok in H. destruct dims as [|d [|d2 r]]; try discriminate.
  destruct (0 <=? nq)%Z eqn:E; [|lia]. apply Z.eqb_eq in H. now subst.
Qed.

Definition listed_malformed (a : args) (n m : nat) : Prop :=
  m = O                                                                                   (* no measurement *)
  \/ a_shots a = None                                                                     (* shots is not an int *)
  \/ (exists s, a_shots a = Some s /\ (s < 1)%Z)                                          (* shot count below one *)
  \/ a_params a = None                                                                    (* device_param is not a dict *)
  \/ (exists dims nq, a_psi0 a = PsiShape dims /\ a_nqubit a = Some nq /\ (0 <= nq)%Z /\ dims <> [(2 ^ nq)%Z])
                                                                                          (* psi0.shape != (2**nqubit,) *)
  \/ (exists nq, a_nqubit a = Some nq /\ (Z.of_nat n < nq)%Z)                             (* more qubits than the circuit uses *)
  \/ (exists nq k, a_nqubit a = Some nq /\ a_params a = Some (T1Len k) /\ (k < nq)%Z)     (* more qubits than the tables cover *)
  \/ a_nqubit a = None.                                                                   (* nqubit is not an int *)

Lemma front_invalid a data used meas n dims :
  a_circ a = CData true data -> process_layout data = Ok (used, meas, n) ->
  a_psi0 a = PsiShape dims -> a_params a <> Some T1Missing -> a_params a <> Some T1NoLen ->
  listed_malformed a n (length meas) -> front a = Err ValueError.
Proof.
  intros Hc Hl Hp Hk1 Hk2 Hm. unfold front, front_step. rewrite Hc, Hl.
  destruct (Nat.eqb (length meas) 0) eqn:E0; [reflexivity|]. cbn [negb].
  destruct (a_shots a) as [shots|] eqn:Es; [|reflexivity].
  destruct (a_params a) as [t1|] eqn:Ep; [|reflexivity].
  destruct (a_nqubit a) as [nq|] eqn:En; [|reflexivity].
  destruct (shots <? 1)%Z eqn:E1; [reflexivity|].
  rewrite Hp. destruct (pow2_shape_ok dims nq) eqn:E2; cbn [negb]; [|reflexivity].
  destruct (Z.of_nat n <? nq)%Z eqn:E3; [reflexivity|].
  destruct t1 as [| |k]; try congruence.
  destruct (k <? nq)%Z eqn:E4; [reflexivity|].
  exfalso. apply Nat.eqb_neq in E0. apply Z.ltb_ge in E1, E3, E4.
  destruct Hm as [H|[H|[H|[H|[H|[H|[H|H]]]]]]]; try congruence.
  - destruct H as (s & Hs & Hlt). rewrite Es in Hs. injection Hs as <-. lia.
  - destruct H as (d & q & Hd & Hq & H0 & Hne). rewrite Hp in Hd. rewrite En in Hq. injection Hd as <-. injection Hq as <-.
    apply Hne. now apply pow2_shape_ok_spec.
  - destruct H as (q & Hq & Hlt). rewrite En in Hq. injection Hq as <-. lia.
  - destruct H as (q & k' & Hq & Hk & Hlt). rewrite En in Hq. rewrite Ep in Hk. injection Hq as <-. injection Hk as <-. lia.
Qed.

(* ------------------------------------------------------------------ normalisation and marginalisation over R *)
Local Open Scope R_scope.
Definition rpos (x : R) : bool := if Rlt_dec 0 x then true else false.
Definition rsum (l : list R) : R := fold_left Rplus l 0.

Lemma rsum_div_acc l a t : t <> 0 -> fold_left Rplus (map (fun x => x / t) l) (a / t) = fold_left Rplus l a / t.
Proof.
  intros Ht. revert a. induction l as [|x r IH]; intros a; cbn [map fold_left]; auto.
  replace (a / t + x / t) with ((a + x) / t) by (unfold Rdiv; ring). apply IH.
Qed.
Lemma rsum_nonneg_acc l a : Forall (Rle 0) l -> 0 <= a -> 0 <= fold_left Rplus l a.
Proof.
  revert a. induction l as [|x r IH]; intros a F Ha; cbn [fold_left]; auto.
  apply Forall_cons_iff in F as [Hx F]. apply IH; auto. lra.
Qed.

Lemma normalise_ok probs : Forall (Rle 0) probs -> 0 < rsum probs ->
  exists final, normalise R 0 Rplus Rdiv rpos probs = Ok final /\ length final = length probs /\
    Forall (Rle 0) final /\ rsum final = 1 /\ final = map (fun x => x / rsum probs) probs.
Proof.
  intros F Hp. unfold normalise, vsum. fold (rsum probs). unfold rpos. destruct (Rlt_dec 0 (rsum probs)) as [_|C]; [|contradiction].
  eexists. split; [reflexivity|]. split; [apply map_length|]. split; [|split; [|reflexivity]].
  - rewrite Forall_forall in *. intros y Hy. apply in_map_iff in Hy as (x & <- & Hx). specialize (F _ Hx).
    apply Rmult_le_pos; auto. left. now apply Rinv_0_lt_compat.
  - unfold rsum at 1. replace 0 with (0 / rsum probs) at 1 by (unfold Rdiv; ring).
    rewrite rsum_div_acc by lra. fold (rsum probs). field. lra.
Qed.

Lemma map_fst_combine {A B} (l1 : list A) (l2 : list B) : length l1 = length l2 -> map fst (combine l1 l2) = l1.
Proof. revert l2. induction l1 as [|a r IH]; intros [|b r2] H; simpl in *; try discriminate; auto. f_equal. apply IH. lia. Qed.
Lemma map_snd_combine {A B} (l1 : list A) (l2 : list B) : length l1 = length l2 -> map snd (combine l1 l2) = l2.
Proof. revert l2. induction l1 as [|a r IH]; intros [|b r2] H; simpl in *; try discriminate; auto. f_equal. apply IH. lia. Qed.
Lemma combine_seq {A B} (g : nat -> B) (d : A) (l : list A) a :
  combine l (map g (seq a (length l))) = map (fun i => (nth (i - a) l d, g i)) (seq a (length l)).
Proof.
  revert a. induction l as [|x r IH]; intros a; cbn [length seq map combine]; auto.
  rewrite Nat.sub_diag. cbn [nth]. f_equal. rewrite IH. apply map_ext_in. intros i Hi. apply in_seq in Hi.
  replace (i - a)%nat with (S (i - S a)) by lia. reflexivity.
Qed.
Lemma filter_map_comm {A B} (h : A -> B) (P : B -> bool) xs : filter P (map h xs) = map h (filter (fun x => P (h x)) xs).
Proof. induction xs as [|x r IH]; cbn [map filter]; auto. destruct (P (h x)); cbn [map]; now rewrite IH. Qed.

(* the key spelled by basis index i: the characters of the n-character binary numeral of i at the measured positions *)
Definition spell (n : nat) (pos : list nat) (i : nat) : list bool := sel (enc n (N.of_nat i)) pos.
(* sum of final[i] over the indices i (ascending) whose measured bits spell t *)
Definition msum (final : list R) (n : nat) (pos : list nat) (t : list bool) : R :=
  fold_left Rplus (map (fun i => nth i final 0) (filter (fun i => key_eqb (spell n pos i) t) (seq 0 (Nat.pow 2 n)))) 0.

Lemma measurament_ok final meas n used :
  (0 < n)%nat -> n = length used -> Forall (fun qc : N * N => In (fst qc) used) meas -> NoDup (map fst meas) ->
  length final = Nat.pow 2 n ->
  let pos := positions_of meas used in
  exists out, measurament R 0 Rplus final meas n used = Ok out /\
    (forall t, In t (map fst out) <-> length t = length meas) /\ NoDup (map fst out) /\
    (forall t, length t = length meas -> lookup R t out = Some (msum final n pos t)) /\
    fold_left Rplus (map snd out) 0 = rsum final.
Proof.
  intros Hn Hlen Fm ND Lf pos.
  destruct (meas_positions_ok meas used Fm ND) as (Ep & Lp & NDp). fold pos in Ep, Lp, NDp. rewrite <- Hlen in Lp.
  assert (Lpos : length pos = length meas) by (unfold pos, positions_of; apply map_length).
  assert (Fbv : Forall (fun s => length s = n) (binary_vector n)).
  { rewrite binary_vector_all_keys by auto. apply Forall_forall. intros s Hs. eapply all_keys_len; eauto. }
  unfold measurament. rewrite Ep. cbn [rbind]. rewrite (select_all_ok _ _ n Fbv Lp). cbn [rbind].
  set (keys := map (fun s => sel s pos) (binary_vector n)).
  assert (Lk : length keys = Nat.pow 2 n). { unfold keys. rewrite map_length, binary_vector_all_keys by auto. apply all_keys_length. }
  eexists. split; [reflexivity|]. fold (step R 0 Rplus).
  assert (Hkeys : forall t, In t keys <-> length t = length meas).
  { intros t. unfold keys. rewrite in_map_iff. split.
    - intros (s & <- & _). now rewrite sel_length.
    - intros Lt. destruct (witness_spells n pos t NDp Lp) as [Lw Sw]; [congruence|].
      exists (witness n pos t). split; auto. rewrite binary_vector_all_keys by auto. now apply in_all_keys. }
  split; [|split; [|split]].
  - intros t. rewrite fold_keys_in. cbn [map]. rewrite map_snd_combine by congruence. rewrite <- Hkeys. simpl. tauto.
  - apply fold_keys_nodup. constructor.
  - intros t Lt. rewrite fold_lookup. cbn [lookup]. unfold base. cbn [lookup].
    assert (Ev : vals R t (combine final keys) = map (fun i => nth i final 0) (filter (fun i => key_eqb (spell n pos i) t) (seq 0 (Nat.pow 2 n)))).
    { unfold vals, keys. rewrite binary_vector_seq, map_map. rewrite <- Lf at 1 2.
      rewrite (combine_seq _ 0 final 0), filter_map_comm, map_map. cbn [snd fst]. rewrite Lf.
      apply map_ext. intros i. now rewrite Nat.sub_0_r. }
    rewrite Ev. unfold msum.
    remember (map (fun i : nat => nth i final 0) (filter (fun i : nat => key_eqb (spell n pos i) t) (seq 0 (Nat.pow 2 n)))) as vs eqn:E.
    destruct vs; [|reflexivity].
    (* the key t occurs, so its value list is not empty *)
    exfalso. apply Hkeys in Lt. rewrite <- (map_snd_combine final keys) in Lt by congruence.
    apply in_map_iff in Lt as ([v k] & Hk & Hin). cbn [snd] in Hk. subst k.
    assert (Hv : In v (vals R t (combine final keys))).
    { unfold vals. apply in_map_iff. exists (v, t). split; auto. apply filter_In. split; auto. cbn [snd]. apply key_eqb_refl. }
    rewrite Ev in Hv. destruct Hv.
  - change (fold_left Rplus (map snd ?d) 0) with (tsum R 0 Rplus d).
    rewrite tsum_fold; try (intros; ring). unfold tsum. cbn [map fold_left]. rewrite map_fst_combine by congruence. reflexivity.
Qed.

(* ------------------------------------------------------------------ the whole run *)
Definition data_wf (a : args) : Prop := match a_circ a with CData _ data => Forall wf_instr data | CNoData => True end.

Lemma msum_nonneg final n pos t : Forall (Rle 0) final -> 0 <= msum final n pos t.
Proof.
  intros F. unfold msum. apply rsum_nonneg_acc; [|lra]. apply Forall_forall. intros y Hy.
  apply in_map_iff in Hy as (i & <- & _). destruct (Nat.lt_ge_cases i (length final)) as [Hi|Hi].
  - rewrite Forall_forall in F. apply F. now apply nth_In.
  - rewrite nth_overflow by lia. lra.
Qed.

Theorem run_distribution a f perform probs :
  front a = Ok f -> data_wf a -> NoDup (map fst (f_meas f)) ->
  perform f = Ok probs -> length probs = Nat.pow 2 (f_n f) -> Forall (Rle 0) probs -> 0 < rsum probs ->
  let pos := positions_of (f_meas f) (f_used f) in
  let final := map (fun x => x / rsum probs) probs in
  exists out, run_model R 0 Rplus Rdiv rpos a perform = Ok out /\
    (forall t, In t (map fst out) <-> length t = length (f_meas f)) /\ NoDup (map fst out) /\
    Forall (fun kv : list bool * R => 0 <= snd kv) out /\ rsum (map snd out) = 1 /\
    (forall t, length t = length (f_meas f) -> lookup R t out = Some (msum final (f_n f) pos t)).
Proof.
  intros Hf Hwf NDm Hperf Lp Fp Hpos pos final.
  destruct (front_ok_inv a f Hf) as (data & Hc & Hl & Hne & _).
  unfold data_wf in Hwf. rewrite Hc in Hwf.
  destruct (process_layout_inv data _ _ _ Hwf Hl) as (NDu & Fm & Hn).
  assert (Hn0 : (0 < f_n f)%nat).
  { destruct (f_meas f) as [|[q c] r] eqn:Em; [congruence|]. apply Forall_cons_iff in Fm as [Hq _]. cbn [fst] in Hq.
    rewrite Hn. destruct (f_used f); [destruct Hq|simpl; lia]. }
  destruct (normalise_ok probs Fp Hpos) as (fin & En & Lfin & Ffin & Sfin & Efin).
  destruct (measurament_ok fin (f_meas f) (f_n f) (f_used f) Hn0 Hn Fm NDm ltac:(congruence)) as (out & Em & Hk & NDo & Hv & Hs).
  exists out. unfold run_model. rewrite Hf. cbn [rbind]. rewrite Hperf. cbn [rbind]. rewrite En. cbn [rbind].
  split; [exact Em|]. split; [exact Hk|]. split; [exact NDo|]. subst fin. fold final in Hv, Hs, Ffin, Sfin.
  split; [|split].
  - apply Forall_forall. intros [k v] Hin. cbn [snd].
    assert (Hl1 := lookup_in R k v out NDo Hin).
    assert (Lk : length k = length (f_meas f)). { apply Hk. apply in_map_iff. exists (k, v). auto. }
    rewrite (Hv k Lk) in Hl1. injection Hl1 as <-. now apply msum_nonneg.
  - unfold rsum at 1. rewrite Hs. exact Sfin.
  - exact Hv.
Qed.

(* reading of the keys: character k of the key of basis index i is character pos_k of the n-character binary numeral
   of i, where pos_k is the rank of the k-th measured qubit in the ascending list of used qubits *)
Lemma spell_char n pos i k : (k < length pos)%nat -> nth k (spell n pos i) false = nth (nth k pos O) (enc n (N.of_nat i)) false.
Proof. intros H. unfold spell, sel. now rewrite (nth_map_lt _ _ _ _ O). Qed.
Lemma positions_of_nth meas used k : Forall (fun qc : N * N => In (fst qc) used) meas -> (k < length meas)%nat ->
  index_of (fst (nth k meas (0%N, 0%N))) used = Some (nth k (positions_of meas used) O).
Proof.
  intros F Hk. unfold positions_of. rewrite (nth_map_lt _ _ _ _ (0%N, 0%N)) by auto.
  rewrite Forall_forall in F. destruct (index_of_some _ used (F _ (nth_In meas (0%N, 0%N) Hk))) as (i & E & _). now rewrite E.
Qed.

Theorem run_invalid (V : Type) vzero vadd vdiv vpos a data used meas n dims (perform : front_out -> res (list V)) :
  a_circ a = CData true data -> process_layout data = Ok (used, meas, n) ->
  a_psi0 a = PsiShape dims -> a_params a <> Some T1Missing -> a_params a <> Some T1NoLen ->
  listed_malformed a n (length meas) -> run_model V vzero vadd vdiv vpos a perform = Err ValueError.
Proof. intros. unfold run_model. erewrite front_invalid; eauto. Qed.

(* the clauses of the property one by one *)
Section Clauses.
Variables (a : args) (f : front_out) (perform : front_out -> res (list R)) (probs : list R).
Hypothesis Hf : front a = Ok f.
Hypothesis Hwf : data_wf a.
Hypothesis NDm : NoDup (map fst (f_meas f)).
Hypothesis Hperf : perform f = Ok probs.
Hypothesis Lp : length probs = Nat.pow 2 (f_n f).
Hypothesis Fp : Forall (Rle 0) probs.
Hypothesis Hpos : 0 < rsum probs.

Lemma keys_all : exists out, run_model R 0 Rplus Rdiv rpos a perform = Ok out /\
  (forall t, In t (map fst out) <-> length t = length (f_meas f)) /\ NoDup (map fst out).
Proof. destruct (run_distribution a f perform probs Hf Hwf NDm Hperf Lp Fp Hpos) as (out & H1 & H2 & H3 & _). eauto. Qed.
Lemma values_nonneg : exists out, run_model R 0 Rplus Rdiv rpos a perform = Ok out /\ Forall (fun kv : list bool * R => 0 <= snd kv) out.
Proof. destruct (run_distribution a f perform probs Hf Hwf NDm Hperf Lp Fp Hpos) as (out & H1 & _ & _ & H4 & _). eauto. Qed.
Lemma values_sum_one : exists out, run_model R 0 Rplus Rdiv rpos a perform = Ok out /\ rsum (map snd out) = 1.
Proof. destruct (run_distribution a f perform probs Hf Hwf NDm Hperf Lp Fp Hpos) as (out & H1 & _ & _ & _ & H5 & _). eauto. Qed.
Lemma marginal_correct : exists out, run_model R 0 Rplus Rdiv rpos a perform = Ok out /\
  forall t, length t = length (f_meas f) ->
    lookup R t out = Some (msum (map (fun x => x / rsum probs) probs) (f_n f) (positions_of (f_meas f) (f_used f)) t).
Proof. destruct (run_distribution a f perform probs Hf Hwf NDm Hperf Lp Fp Hpos) as (out & H1 & _ & _ & _ & _ & H6). eauto. Qed.
End Clauses.
