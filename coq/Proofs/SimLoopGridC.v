(* C03 — the grid end-to-end theorem of Proofs/SimLoopGrid.v at Coquelicot's complex numbers: constants KC (Proofs/NoiseFreeRunC.v),
   conjugation Cconj, Born rule |amplitude|^2.  All algebraic hypotheses of the generic theorem are discharged; what remains
   quantified: the symbolic phase recorder ph. *)
From Coq Require Import List Bool Arith NArith ZArith Reals Lra.
From Coquelicot Require Import Complex.
Require Import QG.Base.Res QG.Base.State QG.Model.FixCounts QG.Model.SimRun QG.Model.Backends QG.Model.Builders.
Require Import QG.Model.NoiseFreeRun QG.Model.SimLoop QG.Model.SimLoopLayered.
Require Import QG.Proofs.FixCountsKeys QG.Proofs.FixCountsProofs QG.Proofs.SimRunKeys QG.Proofs.SimRunProofs QG.Proofs.FrameSim QG.Proofs.NoiseFreeRun QG.Proofs.NoiseFreeRunC.
Require Import QG.Proofs.SimLoop QG.Proofs.SimLoopE2E QG.Proofs.SimLoopC.
Require Import QG.Proofs.SimLoopLayeredCalls QG.Proofs.SimLoopLayered QG.Proofs.SimLoopGrid.
Import ListNotations.
Local Open Scope R_scope.

Theorem end_to_end_grid_C (D : Type) (theta : nat -> R) (dur : nat -> D) (ph : R -> Z * Z)
  (a : args) (f : front_out) (data : list qinstr) (psi0 : state C) :
  front a = Ok f -> a_circ a = CData true data -> Forall wf_qiskit data ->
  NoDup (map fst (f_meas f)) -> f_nqubit f = Z.of_nat (f_n f) ->
  f_used f = id_layout (f_n f) -> Forall adjacent_q data -> Forall native_q data ->
  exists prog, translate_layered R D theta dur (f_used f) data = Ok prog /\
    Forall (NoiseFreeRun.wf_instr (f_n f)) prog /\ Forall NoiseFreeRun.adjacent_instr prog /\
    let ideal := fun b => Cmod (semC (ideal_itemsC prog) psi0 b) ^ 2 in
    let total := rsum (map ideal (binary_vector (f_n f))) in
    (0 < total ->
     exists out, run_model R 0 Rplus Rdiv rpos a
                   (nf_perform_grid C (RtoC 0) (RtoC 1) Cplus Cmult Copp R D KC ph R bornC theta dur data psi0) = Ok out /\
       forall t, length t = length (f_meas f) ->
         lookup R t out = Some (marginal_sum (fun b => ideal b / total) (f_n f) (meas_ranks f) t)).
Proof.
  exact (end_to_end_grid C (RtoC 0) (RtoC 1) Cplus Cmult Cminus Copp C_ring R KC KC_ok Cconj KC_conj bornC
           nrm_eq_Cmod bornC_nonneg D theta dur ph a f data psi0).
Qed.
