(* C16, third clause: fix_counts applied to a simulator result measured in ascending classical-bit order gives Qiskit's
   little-endian table.  Composition of the two hand-written models: Model/SimRun.v (run(): validation, normalisation,
   _measurament; C14) and Model/FixCounts.v (C16).  No new model, no new tie. *)
From Coq Require Import List Bool NArith ZArith Reals Lra Lia.
Require Import QG.Base.Res QG.Model.FixCounts QG.Model.SimRun QG.Proofs.FixCountsKeys QG.Proofs.FixCountsProofs
  QG.Proofs.SimRunKeys QG.Proofs.SimRunProofs.
Import ListNotations.
Local Open Scope R_scope.

Section Compose.
Variables (a : args) (f : front_out) (perform : front_out -> res (list R)) (probs : list R).
Hypothesis Hf : front a = Ok f.
Hypothesis Hwf : data_wf a.
Hypothesis NDm : NoDup (map fst (f_meas f)).
Hypothesis Hperf : perform f = Ok probs.
Hypothesis Lp : length probs = Nat.pow 2 (f_n f).
Hypothesis Fp : Forall (Rle 0) probs.
Hypothesis Hpos : 0 < rsum probs.

Let m := length (f_meas f).
Let dist := map (fun x => x / rsum probs) probs.
Let pos := positions_of (f_meas f) (f_used f).

Lemma meas_nonempty : (0 < m)%nat.
Proof.
  destruct (front_ok_inv a f Hf) as (data & _ & _ & Hne & _).
  subst m. destruct (f_meas f); [congruence | simpl; lia].
Qed.

Lemma fix_counts_of_run :
  exists out out2, run_model R 0 Rplus Rdiv rpos a perform = Ok out /\
    fix_counts R 0 out m = Ok out2 /\ map fst out2 = all_keys m /\
    forall k, length k = m -> lookup R k out2 = Some (msum dist (f_n f) pos (rev k)).
Proof.
  destruct (keys_all a f perform probs Hf Hwf NDm Hperf Lp Fp Hpos) as (out & Hrun & Hkeys & Hnd).
  destruct (marginal_correct a f perform probs Hf Hwf NDm Hperf Lp Fp Hpos) as (out' & Hrun' & Hmarg).
  rewrite Hrun in Hrun'. injection Hrun' as <-.
  assert (Hne : out <> []).
  { intros ->. specialize (Hkeys (repeat false m)). rewrite repeat_length in Hkeys.
    destruct Hkeys as [_ Hk]. apply Hk. reflexivity. }
  assert (Hlen : Forall (fun kv : list bool * R => length (fst kv) = m) out).
  { apply Forall_forall. intros kv Hin. apply Hkeys. apply in_map. exact Hin. }
  destruct (fix_counts_spec R 0 m out meas_nonempty Hne Hnd Hlen) as (out2 & Hfc & Hk2 & Hval).
  exists out, out2. repeat split; try assumption.
  intros k Hk. rewrite (Hval k).
  - rewrite Hmarg by (rewrite rev_length; exact Hk). reflexivity.
  - apply in_all_keys. exact Hk.
Qed.

(* Reading: Qiskit prints classical bit m-1 first.  Character j of the returned key k is character m-1-j of the
   simulator's key rev k, i.e. (C14_key_characters) the bit of the (m-1-j)-th measured qubit -- the one measured into
   classical bit m-1-j when the classical bits are used in ascending order. *)
Lemma little_endian_reading (k : list bool) (j : nat) :
  length k = m -> (j < m)%nat -> nth j k false = nth (m - 1 - j) (rev k) false.
Proof.
  intros Hk Hj. rewrite rev_nth by lia. rewrite Hk. f_equal. lia.
Qed.

Lemma asc_clbit (c : nat) :
  map snd (f_meas f) = map N.of_nat (seq 0 m) -> (c < m)%nat -> snd (nth c (f_meas f) (0%N, 0%N)) = N.of_nat c.
Proof.
  intros Hasc Hc.
  rewrite <- (map_nth snd (f_meas f) (0%N, 0%N) c). cbn [snd].
  rewrite Hasc. rewrite (nth_indep _ 0%N (N.of_nat 0)) by (rewrite map_length, seq_length; exact Hc).
  rewrite map_nth. rewrite seq_nth by exact Hc. reflexivity.
Qed.
End Compose.

Lemma fix_counts_of_run_little_endian :
  forall (a : args) (f : front_out) (perform : front_out -> res (list R)) (probs : list R),
  front a = Ok f -> data_wf a -> NoDup (map fst (f_meas f)) ->
  perform f = Ok probs -> length probs = Nat.pow 2 (f_n f) -> Forall (Rle 0) probs -> 0 < rsum probs ->
  let m := length (f_meas f) in
  map snd (f_meas f) = map N.of_nat (seq 0 m) ->
  exists out out2, run_model R 0 Rplus Rdiv rpos a perform = Ok out /\
    fix_counts R 0 out m = Ok out2 /\ map fst out2 = all_keys m /\
    forall k, length k = m ->
      lookup R k out2 = Some (msum (map (fun x => x / rsum probs) probs) (f_n f) (positions_of (f_meas f) (f_used f)) (rev k)) /\
      forall c, (c < m)%nat ->
        snd (nth c (f_meas f) (0%N, 0%N)) = N.of_nat c /\ nth (m - 1 - c) k false = nth c (rev k) false.
Proof.
  intros a f perform probs Hf Hwf NDm Hperf Lp Fp Hpos m Hasc.
  destruct (fix_counts_of_run a f perform probs Hf Hwf NDm Hperf Lp Fp Hpos) as (out & out2 & H1 & H2 & H3 & H4).
  exists out, out2. repeat split; try assumption.
  - apply H4. assumption.
  - apply asc_clbit; assumption.
  - rewrite rev_nth by lia. f_equal. lia.
Qed.
