(* C05 — reflection lemmas over the regenerated gate model: traceless generators, trace of the drift, det U = 1,
   scheduled durations per tensor slot. *)
From Coq Require Import QArith Qreals List String Bool Reals Lra.
From Coquelicot Require Import Complex.
Require Import QG.Sym.Expr QG.Sym.ExprEq QG.Sym.Norm QG.Sym.Mat QG.Sym.Sound QG.Sym.Subst.
Require Import QG.Model.GateModel QG.Model.Composite QG.Proofs.GateRefl QG.Proofs.Det4Expr QG.Proofs.C07Refl QG.Gen.GenGates.
Import ListNotations.
Close Scope Q_scope.
Open Scope string_scope.

Definition E0 : expr := EQ (0#1)%Q.
Definition E1 : expr := EQ (1#1)%Q.
Definition tg : expr := EQ (7#200000000)%Q.      (* 35e-9 s, the single-qubit gate time hard-coded in factories.py *)

(* ---- every stochastic generator is traceless, on every decision path, for all samples ---- *)
Lemma trace_N_zero :
  forallb (fun p => expr_eqb cf (mtrace (ep_N p)) E0) gen_sq_paths = true /\
  forallb (fun p => expr_eqb cf (mtrace (ep_N p)) E0) gen_cr_paths = true /\
  expr_eqb cf (mtrace gen_depol_N) E0 = true.
Proof. vm_compute. repeat split. Qed.

(* ---- det U = 1 ---- *)
Lemma det_U_one : expr_eqb cf (mdet2 (ep_U gen_sq_zero)) E1 = true /\ expr_eqb cf (mdet4 (ep_U gen_cr_zero)) E1 = true.
Proof. vm_compute. repeat split. Qed.

(* ---- trace of the drift ---- *)
(* the opaque variables: e1 = sqrt(tg * (1/T1)), the two integrals whose integrands add up to 1 *)
Definition find_inv (defs : list (nat * odef)) (t : nat) : option nat :=
  option_map fst (find (fun vd => match snd vd with OInv (EVar w) => Nat.eqb w t | _ => false end) defs).
Definition find_e1 (defs : list (nat * odef)) (t : nat) : option nat :=
  match find_inv defs t with
  | Some i => option_map fst (find (fun vd => match snd vd with OSqrt (EMul (EQ q) (EVar w)) => Nat.eqb w i && Qeq_bool q (7#200000000)%Q | _ => false end) defs)
  | None => None end.
Definition find_int (defs : list (nat * odef)) (key : string) : option nat :=
  option_map fst (find (fun vd => match snd vd with OInt k _ _ => String.eqb k key | _ => false end) defs).
Definition k_sin2h := "sin(theta/(2*a))**2".
Definition k_cos2h := "cos(theta/(2*a))**2".
Definition ovar (o : option nat) : expr := match o with Some v => EVar v | None => E0 end.
Definition sq_e1 (p : epath) : expr := match ep_dec p with true :: _ => E0 | _ => ovar (find_e1 (ep_defs p) (vi "T1")) end.
Definition half_sum (p : epath) : expr := EAdd (ovar (find_int (ep_defs p) k_sin2h)) (ovar (find_int (ep_defs p) k_cos2h)).
Definition sq_trD_spec (p : epath) : expr := EMul (EQ (-1#2)%Q) (EMul (EPow (sq_e1 p) 2) (half_sum p)).
Lemma trace_D_sq : forallb (fun p => expr_eqb cf (mtrace (ep_D p)) (sq_trD_spec p)) gen_sq_paths = true.
Proof. vm_compute. reflexivity. Qed.
(* on the paths with T1 != 0 the e1 variable and both integrals were found (the statement is not about defaults) *)
Lemma trace_D_sq_found :
  forallb (fun p => match ep_dec p with false :: _ => match find_e1 (ep_defs p) (vi "T1"), find_int (ep_defs p) k_sin2h, find_int (ep_defs p) k_cos2h with
                                                     | Some _, Some _, Some _ => true | _, _, _ => false end | _ => true end) gen_sq_paths = true.
Proof. vm_compute. reflexivity. Qed.

Definition cr_a : expr := EDiv (EVar (vi "t_cr")) tg.
Definition cr_e1c (p : epath) : expr := match ep_dec p with true :: _ => E0 | _ => ovar (find_e1 (ep_defs p) (vi "T1c")) end.
Definition cr_e1t (p : epath) : expr := match ep_dec p with [_; _; true; _] => E0 | _ => ovar (find_e1 (ep_defs p) (vi "T1t")) end.
Definition cr_trD_spec (p : epath) : expr :=
  ENeg (EAdd (EMul (EPow (cr_e1c p) 2) cr_a) (EMul (EPow (cr_e1t p) 2) (half_sum p))).
Lemma trace_D_cr : forallb (fun p => expr_eqb cf (mtrace (ep_D p)) (cr_trD_spec p)) gen_cr_paths = true.
Proof. vm_compute. reflexivity. Qed.
Lemma trace_D_cr_found :
  forallb (fun p => match ep_dec p with
                    | [d1; _; d3; _] =>
                        (d1 || match find_e1 (ep_defs p) (vi "T1c") with Some _ => true | None => false end) &&
                        (d3 || match find_e1 (ep_defs p) (vi "T1t"), find_int (ep_defs p) k_sin2h, find_int (ep_defs p) k_cos2h with
                               | Some _, Some _, Some _ => true | _, _, _ => false end)
                    | _ => false end) gen_cr_paths = true.
Proof. vm_compute. reflexivity. Qed.
(* the two integrals are taken at the gate's own angle and duration: (theta, 1) resp. (theta, t_cr/tg) *)
Definition int_args_ok (defs : list (nat * odef)) (a : expr) : bool :=
  forallb (fun vd => match snd vd with OInt _ th a' => expr_beq th (EVar (vi "theta")) && expr_same a' a | _ => true end) defs.
Lemma integrals_at_own_arguments :
  forallb (fun p => int_args_ok (ep_defs p) E1) gen_sq_paths = true /\ forallb (fun p => int_args_ok (ep_defs p) cr_a) gen_cr_paths = true.
Proof. vm_compute. repeat split. Qed.

(* ---- exact samplers ---- *)
(* relaxation(Dt, T1, T2): upper triangular, det = diagonal product = exp(i u) * (o * exp(-i u)) with o = exp(-e1^2 Dt/tg / 2) *)
Definition relax_det_ok (r : list bool * mexpr * list sampler * list (nat * odef)) : bool :=
  match fst (fst r) with
  | (_, MLeaf [[a; _]; [z; MulD]]) =>
      expr_eqb cf z E0 &&
      match MulD with EMul o ph => expr_eqb cf (EMul a ph) E1 | _ => false end
  | _ => false end.
Lemma relax_det_shape : forallb relax_det_ok gen_relax_paths = true.
Proof. vm_compute. reflexivity. Qed.
(* bit-flip: det = cos^2 + sin^2 = 1 *)
Lemma bitflip_det_one : expr_eqb cf (mdet2 gen_bitflip_G) E1 = true.
Proof. vm_compute. reflexivity. Qed.

(* ---- composite gates: summed durations per tensor slot ---- *)
(* every constituent contributes its duration to the slot(s) it occupies; the sums are the gate time for both CNOT
   directions, t - tg for ECR and t + tg for reversed ECR *)
Fixpoint opt_sum (l : list (option expr)) : option expr :=
  match l with
  | [] => Some E0
  | Some x :: r => match opt_sum r with Some s => Some (EAdd x s) | None => None end
  | None :: _ => None
  end.
Definition slot_total (cp : composite) (q : slot) : expr :=
  match opt_sum (slot_durations tg cp q) with Some e => e | None => EVar 4999 end.
Definition tvar : expr := EVar (vi "t").
Lemma slot_durations_spec :
  (expr_eqb cf (slot_total gen_comp_CNOT S0) tvar && expr_eqb cf (slot_total gen_comp_CNOT S1) tvar = true) /\
  (expr_eqb cf (slot_total gen_comp_CNOT_inv S0) tvar && expr_eqb cf (slot_total gen_comp_CNOT_inv S1) tvar = true) /\
  (expr_eqb cf (slot_total gen_comp_ECR S0) (ESub tvar tg) && expr_eqb cf (slot_total gen_comp_ECR S1) (ESub tvar tg) = true) /\
  (expr_eqb cf (slot_total gen_comp_ECR_inv S0) (EAdd tvar tg) && expr_eqb cf (slot_total gen_comp_ECR_inv S1) (EAdd tvar tg) = true).
Proof. vm_compute. repeat split. Qed.

(* ---- composite gates: the exponent of the determinant along the product tree ---- *)
(* 1/T1 of a T1 variable, as a fresh plain variable (index shifted by 2000) *)
Definition iT (e : expr) : expr := match e with EVar v => EVar (2000 + v)%nat | _ => EVar 4999 end.
Definition mhalf : expr := EQ (-1#2)%Q.
Definition call_exponent (c : call) : expr :=
  match c_fac c, c_args c with
  | FX, [_; _; t1; _] | FSX, [_; _; t1; _] => EMul mhalf (EMul tg (iT t1))
  | FSQ, [_; _; _; t1; _] => EMul mhalf (EMul tg (iT t1))
  | FRelax, [dt; t1; _] => EMul mhalf (EMul dt (iT t1))
  | FCR, [_; _; tcr; _; t1a; _; t1b; _] => ENeg (EMul tcr (EAdd (iT t1a) (iT t1b)))
  | _, _ => EVar 4999
  end.
Fixpoint tree_exponent_expr (calls : list call) (t : ptree) : expr :=
  match t with
  | PSym k => match nth_error calls k with Some c => call_exponent c | None => EVar 4999 end
  | PMul a b => EAdd (tree_exponent_expr calls a) (tree_exponent_expr calls b)
  | PKron a b => EAdd (EAdd (tree_exponent_expr calls a) (tree_exponent_expr calls a)) (EAdd (tree_exponent_expr calls b) (tree_exponent_expr calls b))
  | PScale _ a => tree_exponent_expr calls a
  end.
Definition comp_exponent (cp : composite) : expr := tree_exponent_expr (cp_calls cp) (cp_tree cp).
Definition iT1c : expr := iT (EVar (vi "T1c")).
Definition iT1t : expr := iT (EVar (vi "T1t")).
(* d = 2: det G / det G_ideal = exp(-(tau_c / T1c + tau_t / T1t)) with tau = t (CNOT, reversed CNOT), t - tg (ECR), t + tg (reversed ECR) *)
Lemma comp_exponents_spec :
  expr_eqb cf (comp_exponent gen_comp_CNOT) (ENeg (EMul tvar (EAdd iT1c iT1t))) = true /\
  expr_eqb cf (comp_exponent gen_comp_CNOT_inv) (ENeg (EMul tvar (EAdd iT1c iT1t))) = true /\
  expr_eqb cf (comp_exponent gen_comp_ECR) (ENeg (EMul (ESub tvar tg) (EAdd iT1c iT1t))) = true /\
  expr_eqb cf (comp_exponent gen_comp_ECR_inv) (ENeg (EMul (EAdd tvar tg) (EAdd iT1c iT1t))) = true.
Proof. vm_compute. repeat split. Qed.
(* the exponent mentions no p, no T2, no phase and no sample: only t, tg and the two 1/T1 *)
Definition exponent_reads_ok (cp : composite) : bool :=
  forallb (fun v => existsb (Nat.eqb v) [vi "t"; (2000 + vi "T1c")%nat; (2000 + vi "T1t")%nat]) (evars (comp_exponent cp)).
Lemma comp_exponents_read_only_t_T1 :
  exponent_reads_ok gen_comp_CNOT && exponent_reads_ok gen_comp_CNOT_inv && exponent_reads_ok gen_comp_ECR && exponent_reads_ok gen_comp_ECR_inv = true.
Proof. vm_compute. reflexivity. Qed.
