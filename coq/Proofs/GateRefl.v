(* Utilities to state and prove, by reflection through coq/Sym, identities about the regenerated gate model:
   environments that respect the tracer's opaque definitions, zero/identity matrices, traces, determinants. *)
From Coq Require Import QArith List String Bool Reals Lra Lia FunctionalExtensionality.
From Coquelicot Require Import Complex.
Require Import QG.Sym.Expr QG.Sym.Norm QG.Sym.Mat QG.Sym.Sound QG.Sym.Subst QG.Model.GateModel.
Import ListNotations.
Close Scope Q_scope.

(* ---- variable lookup by name in a generated name table ---- *)
Fixpoint var_index (name : string) (l : list (nat * string)) : nat :=
  match l with [] => 4999 | (i, n) :: r => if String.eqb n name then i else var_index name r end.

(* ---- environments that respect the opaque definitions ---- *)
Definition respects_def (rho : env) (v : nat) (d : odef) : Prop :=
  match d with
  | OSqrt e => rho v = sqrt (Re (interpC rho e))
  | OExpReal e => rho v = exp (Re (interpC rho e))
  | OInv e => rho v = (/ Re (interpC rho e))%R
  | OProd e => rho v = Re (interpC rho e)
  | OInt _ _ _ => True
  end.
Definition respects (rho : env) (defs : list (nat * odef)) : Prop :=
  Forall (fun vd => respects_def rho (fst vd) (snd vd)) defs.

Fixpoint lookup_def (v : nat) (defs : list (nat * odef)) : option odef :=
  match defs with [] => None | (w, d) :: r => if Nat.eqb v w then Some d else lookup_def v r end.
Lemma respects_lookup rho defs v d : respects rho defs -> lookup_def v defs = Some d -> respects_def rho v d.
Proof.
  intros R. induction defs as [|[w d'] r IH]; simpl; [discriminate|].
  pose proof (Forall_inv R) as R1. pose proof (Forall_inv_tail R) as R2. simpl in R1.
  destruct (Nat.eqb v w) eqn:E.
  - intros H. injection H as <-. apply Nat.eqb_eq in E. now subst.
  - now apply IH.
Qed.

(* definitions whose value is known from their shape alone: sqrt(0 * _) = 0, sqrt(0) = 0, exp(0 * _) = 1 *)
Definition q_is_zero (q : Q) : bool := Z.eqb (Qnum q) 0.
Definition known_value (d : odef) : option Q :=
  match d with
  | OSqrt (EMul (EQ q) _) | OSqrt (EQ q) => if q_is_zero q then Some (0#1)%Q else None
  | OExpReal (EMul (EQ q) _) | OExpReal (EQ q) => if q_is_zero q then Some (1#1)%Q else None
  | _ => None
  end.
Fixpoint known_subst (defs : list (nat * odef)) : subst_map :=
  match defs with
  | [] => []
  | (v, d) :: r => match known_value d with Some q => (v, EQ q) :: known_subst r | None => known_subst r end
  end.

Lemma q_is_zero_Q2R q : q_is_zero q = true -> Q2R q = 0%R.
Proof. destruct q as [n d]. unfold q_is_zero, Q2R. simpl. intros H. apply Z.eqb_eq in H. subst. simpl. lra. Qed.

Lemma Q2R_0 : Q2R (0#1) = 0%R. Proof. unfold Q2R. simpl. lra. Qed.
Lemma Q2R_1 : Q2R (1#1) = 1%R. Proof. unfold Q2R. simpl. lra. Qed.

Lemma known_value_sound rho v d q : respects_def rho v d -> known_value d = Some q -> rho v = Q2R q.
Proof.
  destruct d as [e|e|e|e|k a b]; simpl; try discriminate; intros H K;
  destruct e; try discriminate.
  - destruct (q_is_zero q0) eqn:Z; [|discriminate]. injection K as <-. rewrite H. simpl.
    rewrite (q_is_zero_Q2R _ Z), Q2R_0. apply sqrt_0.
  - destruct e1; try discriminate. destruct (q_is_zero q0) eqn:Z; [|discriminate]. injection K as <-. rewrite H. simpl.
    rewrite (q_is_zero_Q2R _ Z), Q2R_0. match goal with |- sqrt ?x = _ => replace x with 0%R by ring end. apply sqrt_0.
  - destruct (q_is_zero q0) eqn:Z; [|discriminate]. injection K as <-. rewrite H. simpl.
    rewrite (q_is_zero_Q2R _ Z), Q2R_1. apply exp_0.
  - destruct e1; try discriminate. destruct (q_is_zero q0) eqn:Z; [|discriminate]. injection K as <-. rewrite H. simpl.
    rewrite (q_is_zero_Q2R _ Z), Q2R_1. match goal with |- exp ?x = _ => replace x with 0%R by ring end. apply exp_0.
Qed.

Lemma known_subst_lookup defs v t : lookup (known_subst defs) v = Some t ->
  exists d q, In (v, d) defs /\ known_value d = Some q /\ t = EQ q.
Proof.
  induction defs as [|[w d] r IH]; simpl; [discriminate|].
  destruct (known_value d) as [q|] eqn:K.
  - simpl. destruct (Nat.eqb v w) eqn:E.
    + intros H. injection H as <-. apply Nat.eqb_eq in E. subst. exists d, q. auto.
    + intros H. destruct (IH H) as (d' & q' & A & B & C). exists d', q'. auto.
  - intros H. destruct (IH H) as (d' & q' & A & B & C). exists d', q'. auto.
Qed.

Lemma known_subst_env rho defs : respects rho defs -> env_of (known_subst defs) rho = rho.
Proof.
  intros R. apply functional_extensionality. intros v. unfold env_of.
  destruct (lookup (known_subst defs) v) as [t|] eqn:L; auto.
  destruct (known_subst_lookup _ _ _ L) as (d & q & Hin & K & ->).
  unfold respects in R. rewrite Forall_forall in R. specialize (R _ Hin). simpl in R.
  simpl. symmetry. now apply (known_value_sound rho v d q).
Qed.

Lemma known_subst_real defs : all_real (known_subst defs) = true.
Proof.
  induction defs as [|[w d] r IH]; simpl; auto. destruct (known_value d); simpl; auto.
Qed.

(* matrix / scalar identities modulo the known values of opaque definitions *)
Theorem mrefl_under_defs cf defs m1 m2 :
  mexpr_eqb cf (msubst (known_subst defs) m1) (msubst (known_subst defs) m2) = true ->
  forall rho, respects rho defs -> interpM rho m1 = interpM rho m2.
Proof.
  intros H rho R.
  pose proof (mexpr_eq_sound cf _ _ H rho) as E.
  rewrite !interpM_msubst in E by apply known_subst_real.
  now rewrite (known_subst_env rho defs R) in E.
Qed.
Theorem erefl_under_defs cf defs e1 e2 :
  expr_eqb cf (subst (known_subst defs) e1) (subst (known_subst defs) e2) = true ->
  forall rho, respects rho defs -> interpC rho e1 = interpC rho e2.
Proof.
  intros H rho R.
  pose proof (expr_eq_sound cf _ _ H rho) as E.
  rewrite !interpC_subst in E by apply known_subst_real.
  now rewrite (known_subst_env rho defs R) in E.
Qed.

(* identities after substituting real expressions for variables (samples := integrand functions, ...) *)
Theorem mrefl_subst cf s m1 m2 :
  all_real s = true -> mexpr_eqb cf (msubst s m1) (msubst s m2) = true ->
  forall rho, interpM (env_of s rho) m1 = interpM (env_of s rho) m2.
Proof. intros A H rho. rewrite <- !interpM_msubst by exact A. now apply (mexpr_eq_sound cf). Qed.

(* ---- literal matrices and matrix functionals on expression leaves ---- *)
Definition zero_mat (n : nat) : mexpr := MLeaf (repeat (repeat (EQ (0#1)%Q) n) n).
Definition id_mat (n : nat) : mexpr :=
  MLeaf (map (fun i => map (fun j => if Nat.eqb i j then EQ (1#1)%Q else EQ (0#1)%Q) (seq 0 n)) (seq 0 n)).
Fixpoint sum_expr (l : list expr) : expr := match l with [] => EQ (0#1)%Q | [x] => x | x :: r => EAdd x (sum_expr r) end.
Definition entry (rows : list (list expr)) (i j : nat) : expr := nth j (nth i rows []) (EVar 4999).
Definition mtrace (m : mexpr) : expr :=
  match m with MLeaf rows => sum_expr (map (fun i => entry rows i i) (seq 0 (List.length rows))) | _ => EVar 4999 end.
Definition mdet2 (m : mexpr) : expr :=
  match m with
  | MLeaf [[a; b]; [c; d]] => ESub (EMul a d) (EMul b c)
  | _ => EVar 4999
  end.
Definition leaf_rows (m : mexpr) : list (list expr) := match m with MLeaf rows => rows | _ => [] end.
