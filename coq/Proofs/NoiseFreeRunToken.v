(* C03 — the seam between the reflection statements and the ring-generic run theorems: the complex matrix EXPRESSION that
   C03_table_sound identifies the gate-set result with (lists of Sym expressions, interpreted in Coquelicot's C) is, entry
   by entry, the function-valued framed matrix that the run theorems use as the token of the method call. *)
From Coq Require Import QArith List String Bool Reals Arith ZArith Lra.
From Coquelicot Require Import Complex.
Require Import QG.Sym.Expr QG.Sym.ExprEq QG.Sym.Norm QG.Sym.Mat QG.Sym.Sound QG.Sym.Subst.
Require Import QG.Model.GateModel QG.Model.Handoff QG.Proofs.GateRefl QG.Proofs.C07Refl QG.Proofs.C03Frames QG.Proofs.HandoffRefl.
Require Import QG.Gen.GenGates QG.Gen.GenCircuit.
Require Import QG.Base.State QG.Proofs.FrameSim QG.Model.NoiseFreeRun QG.Proofs.NoiseFreeRunRefl QG.Proofs.NoiseFreeRunC.
Import ListNotations.
Close Scope Q_scope.
Local Open Scope C_scope.

Definition idx2 (r : bool * bool) : nat := (2 * b2n (fst r) + b2n (snd r))%nat.
Definition Pl (x : C) : Cmat := [[RtoC 1; RtoC 0]; [RtoC 0; x]].

(* the list-matrix product  g (P(xa) (x) P(xb))^dag  K  (P(ya) (x) P(yb))  entry by entry *)
Lemma framed_list (g xa xb ya yb k00 k01 k02 k03 k10 k11 k12 k13 k20 k21 k22 k23 k30 k31 k32 k33 : C) :
  let Kl := [[k00;k01;k02;k03];[k10;k11;k12;k13];[k20;k21;k22;k23];[k30;k31;k32;k33]] in
  forall r c : bool * bool,
  nth (idx2 c) (nth (idx2 r) (Cm_scale g (Cm_mul (Cm_dag (Cm_kron (Pl xa) (Pl xb))) (Cm_mul Kl (Cm_kron (Pl ya) (Pl yb))))) nil) (RtoC 0)
  = g * pb2 C (RtoC 1) Cmult (Cconj xa) (Cconj xb) r * nth (idx2 c) (nth (idx2 r) Kl nil) (RtoC 0) * pb2 C (RtoC 1) Cmult ya yb c.
Proof.
  cbv zeta. intros r c.
  destruct r as [[|] [|]], c as [[|] [|]];
    cbv [idx2 b2n fst snd Nat.mul Nat.add nth pb2 Pl
         Cm_scale Cm_mul Cm_dag Cm_kron lm_scale lm_mul lm_dag lm_kron lm_dot lm_col lm_ncols map flat_map combine fold_right hd Datatypes.length seq app];
    rewrite ?Cconj_mult, ?Cconj_R; ring.
Qed.

(* ---- reading the symbolic pieces in C ---- *)
Lemma interp_Pm rho a : interpM rho (Pm a) = Pl (interpC rho (cis a)).
Proof. unfold Pm, Pl. cbn [interpM map interpC z1 z0 q Z.to_pos]. now rewrite Q2R_1, Q2R_0. Qed.
Lemma interp_PP rho a b : interpM rho (PP a b) = Cm_kron (Pl (interpC rho (cis a))) (Pl (interpC rho (cis b))).
Proof. unfold PP. cbn [interpM]. now rewrite !interp_Pm. Qed.

Lemma rt2inv_interp rho : interpC rho rt2inv = RtoC (/ sqrt 2).
Proof.
  unfold rt2inv. cbn [interpC z1 q Z.to_pos]. rewrite Q2R_1, Q2R_Z. cbn [Re RtoC fst].
  assert (N : sqrt 2 <> 0%R). { intros E. pose proof (sqrt_sqrt 2 ltac:(lra)) as H. rewrite E in H. lra. }
  unfold Cdiv. rewrite <- RtoC_inv by exact N. now rewrite Cmult_1_l.
Qed.
Lemma ent_interp rho e : interpC rho (ent_expr e) = ent_val C (RtoC 0) (RtoC 1) Cplus Cmult Copp R KC e.
Proof.
  destruct e; cbn [ent_expr ent_val interpC KC k_h k_i z0 z1 q Z.to_pos]; rewrite ?rt2inv_interp, ?Q2R_0, ?Q2R_1; reflexivity.
Qed.

Lemma Ci_real x : Ci * RtoC x = (0%R, x).
Proof. unfold Ci, Cmult, RtoC. cbn [fst snd]. f_equal; ring. Qed.
Lemma cis_real rho a x : interpC rho a = RtoC x -> interpC rho (cis a) = cisR x.
Proof.
  intros H. unfold cis. cbn [interpC]. rewrite H, Ci_real. cbn [Re Im fst snd]. rewrite exp_0.
  unfold Cexp, cisR. now rewrite Cmult_1_l.
Qed.
Lemma gph_interp rho g : interpC rho (gph_expr g) = gph_val C (RtoC 1) Copp R KC g.
Proof.
  destruct g; cbn [gph_expr gph_val KC k_i k_w1 k_w3].
  - cbn [interpC z1 q Z.to_pos]. now rewrite Q2R_1.
  - reflexivity.
  - reflexivity.
  - apply cis_real. unfold pi_over. cbn [interpC q Z.to_pos]. rewrite Q2R_Z.
    rewrite <- RtoC_div by lra. now rewrite <- RtoC_opp.
  - apply cis_real. cbn [interpC q Z.to_pos]. rewrite <- RtoC_mult, <- RtoC_opp. f_equal.
    unfold Q2R. cbn [Qnum Qden]. lra.
Qed.

(* ---- the seam: entry (r, c) of the traced matrix is the framed matrix ---- *)
Theorem token_is_framed :
  forall h, In h gen_handoff -> forall k, kind2_of (h_meth h) = Some k -> forall rho a b, h_place h = [a; b] ->
  let ch := choose2 k (h_lt h) in
  let fo := fun s => interpC rho (cis (phi_old s)) in
  let fn := fun s => interpC rho (cis (phi_new h s)) in
  forall r c : bool * bool,
  nth (idx2 c) (nth (idx2 r) (interpM rho (traced_matrix h)) nil) (RtoC 0)
  = Cmult (Cmult (Cmult (gph_val C (RtoC 1) Copp R KC (c_gph ch)) (pb2 C (RtoC 1) Cmult (Cconj (fn a)) (Cconj (fn b)) r))
                 (gate2 C (RtoC 0) (RtoC 1) Cplus Cmult Copp R KC k (c_ctl_slot ch) r c))
          (pb2 C (RtoC 1) Cmult (fo a) (fo b) c).
Proof.
  intros h Hin k Hk rho a b Hp ch fo fn r c.
  rewrite (table_is_the_code_sound h Hin k Hk rho). unfold expected_two. rewrite Hp. fold ch.
  cbn [interpM]. rewrite !interp_PP, gph_interp. fold (fo a) (fo b) (fn a) (fn b).
  unfold gate2, mat4, tab_entry. fold (idx2 r) (idx2 c).
  assert (T : forall t, In t [CX01t; CX10t; ECR01t; ECR10t] ->
            nth (idx2 c) (nth (idx2 r) (Cm_scale (gph_val C (RtoC 1) Copp R KC (c_gph ch))
               (Cm_mul (Cm_dag (Cm_kron (Pl (fn a)) (Pl (fn b)))) (Cm_mul (interpM rho (tab_mexpr t)) (Cm_kron (Pl (fo a)) (Pl (fo b)))))) nil) (RtoC 0)
            = gph_val C (RtoC 1) Copp R KC (c_gph ch) * pb2 C (RtoC 1) Cmult (Cconj (fn a)) (Cconj (fn b)) r
              * ent_val C (RtoC 0) (RtoC 1) Cplus Cmult Copp R KC (nth (idx2 c) (nth (idx2 r) t nil) E0) * pb2 C (RtoC 1) Cmult (fo a) (fo b) c).
  { intros t Ht. cbn [In] in Ht.
    destruct Ht as [<-|[<-|[<-|[<-|[]]]]]; unfold tab_mexpr; cbn [interpM map CX01t CX10t ECR01t ECR10t];
      rewrite framed_list; f_equal; f_equal;
      destruct r as [[|] [|]], c as [[|] [|]]; cbn [idx2 b2n fst snd Nat.mul Nat.add nth]; apply ent_interp. }
  apply T. unfold ch. destruct k, (h_lt h); cbn [choose2 c_ctl_slot table2 In]; auto.
Qed.

(* ---- the same for X / SX: entry (r, c) of the traced 2x2 matrix is framed1 at the qubit's frame ---- *)
Lemma framed_list1 (g x y k00 k01 k10 k11 : C) : forall r c : bool,
  nth (b2n c) (nth (b2n r) (Cm_scale g (Cm_mul (Cm_dag (Pl x)) (Cm_mul [[k00;k01];[k10;k11]] (Pl y)))) nil) (RtoC 0)
  = g * (if r then Cconj x else RtoC 1) * nth (b2n c) (nth (b2n r) [[k00;k01];[k10;k11]] nil) (RtoC 0) * (if c then y else RtoC 1).
Proof.
  intros r c. destruct r, c;
    cbv [b2n nth Pl Cm_scale Cm_mul Cm_dag lm_scale lm_mul lm_dag lm_dot lm_col lm_ncols map combine fold_right hd Datatypes.length seq fst snd];
    rewrite ?Cconj_R; ring.
Qed.
Theorem token_is_framed1 :
  forall h, In h gen_handoff -> forall k, kind1_of (h_meth h) = Some k -> forall rho,
  let f := interpC rho (cis (phi_old 0)) in
  forall r c : bool,
  nth (b2n c) (nth (b2n r) (interpM rho (traced_one h k)) nil) (RtoC 0)
  = Cmult (Cmult (Cmult (gph_val C (RtoC 1) Copp R KC (choose1 k)) (if r then Cconj f else RtoC 1))
                 (gate1 C (RtoC 0) (RtoC 1) Cplus Cmult Copp R KC k r c))
          (if c then f else RtoC 1).
Proof.
  intros h Hin k Hk rho f r c.
  assert (S : interpM rho (traced_one h k) = interpM rho (expected_one k)).
  { apply (mexpr_eq_sound cfc). pose proof (proj1 table_is_the_code) as T. rewrite forallb_forall in T. specialize (T h Hin).
    unfold record_ok, choice1_ok in T. rewrite Hk in T.
    repeat match goal with H : (_ && _)%bool = true |- _ => apply andb_prop in H; destruct H end. assumption. }
  rewrite S. unfold expected_one. cbn [interpM]. rewrite !interp_Pm, gph_interp. fold f.
  unfold gate1, mat2, tab_entry.
  destruct k; unfold tab_mexpr; cbn [interpM map table1 Xt SXt]; rewrite framed_list1; f_equal; f_equal;
    destruct r, c; cbn [b2n nth]; apply ent_interp.
Qed.
