(* C12 — vocabulary for the integrator (quantum_gates/_gates/integrator.py).
   Hand-written SPECIFICATION side only (no proofs here):
     key        the eight supported integrands (dictionary keys of _INTEGRAL_LOOKUP / _RESULT_LOOKUP),
     key_string the Python dictionary key each constructor stands for,
     g k x      the integrand as a function of the instantaneous rotation angle x,
     quad       scipy.integrate.quad modelled as the Riemann integral (its accuracy is trusted),
     closed k   the textbook value of  int_0^a g_k(theta*t/a) dt  for theta <> 0, written (a/theta)*(H(theta)-H(0))
                with H k an antiderivative of g k.
   The implementation side (the lambdas, the branch structure of _analytical_integration/_numerical_integration/
   integrate) is NOT written here: it is regenerated from the source into Gen/GenIntegrator.v on every run by
   checks/c12_translate.py and refers to `key`, `quad` only. *)
From Coq Require Import Reals String.
From Coquelicot Require Import Coquelicot.
Open Scope R_scope.

Inductive key : Set :=
  | K_sin2          (* "sin(theta/a)**2" *)
  | K_sin4h         (* "sin(theta/(2*a))**4" *)
  | K_sin_sin2h     (* "sin(theta/a)*sin(theta/(2*a))**2" *)
  | K_sin2h         (* "sin(theta/(2*a))**2" *)
  | K_cos2          (* "cos(theta/a)**2" *)
  | K_sincos        (* "sin(theta/a)*cos(theta/a)" *)
  | K_sin           (* "sin(theta/a)" *)
  | K_cos2h.        (* "cos(theta/(2*a))**2" *)

Definition all_keys : list key :=
  (K_sin2 :: K_sin4h :: K_sin_sin2h :: K_sin2h :: K_cos2 :: K_sincos :: K_sin :: K_cos2h :: nil)%list.

Definition key_string (k : key) : string :=
  match k with
  | K_sin2 => "sin(theta/a)**2"
  | K_sin4h => "sin(theta/(2*a))**4"
  | K_sin_sin2h => "sin(theta/a)*sin(theta/(2*a))**2"
  | K_sin2h => "sin(theta/(2*a))**2"
  | K_cos2 => "cos(theta/a)**2"
  | K_sincos => "sin(theta/a)*cos(theta/a)"
  | K_sin => "sin(theta/a)"
  | K_cos2h => "cos(theta/(2*a))**2"
  end%string.

(* the integrand as a function of the instantaneous angle *)
Definition g (k : key) (x : R) : R :=
  match k with
  | K_sin2 => sin x ^ 2
  | K_sin4h => sin (x / 2) ^ 4
  | K_sin_sin2h => sin x * sin (x / 2) ^ 2
  | K_sin2h => sin (x / 2) ^ 2
  | K_cos2 => cos x ^ 2
  | K_sincos => sin x * cos x
  | K_sin => sin x
  | K_cos2h => cos (x / 2) ^ 2
  end.

(* The quantity the property talks about: the integrand along a pulse with parametrisation F, total angle theta,
   duration a, at time t in [0,a]. *)
Definition spec_integrand (F : R -> R) (k : key) (theta a t : R) : R := g k (theta * F (t / a)).

(* scipy.integrate.quad(f, lo, hi)[0], modelled as the Riemann integral of f from lo to hi. *)
Definition quad (f : R -> R) (lo hi : R) : R := RInt f lo hi.

(* an antiderivative of g k *)
Definition H (k : key) (x : R) : R :=
  match k with
  | K_sin2 => x / 2 - sin (2 * x) / 4
  | K_sin4h => (3 * x - 4 * sin x + sin (2 * x) / 2) / 8
  | K_sin_sin2h => sin (x / 2) ^ 4
  | K_sin2h => (x - sin x) / 2
  | K_cos2 => x / 2 + sin (2 * x) / 4
  | K_sincos => sin x ^ 2 / 2
  | K_sin => - cos x
  | K_cos2h => (x + sin x) / 2
  end.

Definition closed (k : key) (theta a : R) : R := a / theta * (H k theta - H k 0).
