(* Data types of the regenerated circuit / simulator hand-off model (coq/Gen/GenCircuit.v). No proofs. *)
From Coq Require Import QArith List String Bool Arith.
Require Import QG.Sym.Expr.
Import ListNotations.

(* one traced execution of a circuit-class method with symbolic qubit indices i (= 0) and k (= 1) *)
Record handoff := {
  h_cls : string;            (* Circuit | AlternativeCircuit | BinaryCircuit *)
  h_meth : string;           (* CNOT, ECR, X, SX, relaxation, bitflip, depolarizing, Rz, I *)
  h_lt : bool;               (* outcome of the decision i < k *)
  h_state : nat;             (* grid class: 0 = layer not full, 1 = layer full (s == nqubit) *)
  h_gate : string;           (* gate-set method called ("" if none) *)
  h_args : list expr;        (* its arguments *)
  h_phi : list (nat * expr); (* writes to the virtual phases: (0 = i | 1 = k, new value) *)
  h_place : list nat;        (* qubits under the matrix's tensor slots, slot 0 first (0 = i, 1 = k) *)
  h_row : nat;               (* layered classes: row the matrix is stored in (0 = i, 1 = k); 9 otherwise *)
  h_adjacent : bool;         (* the method asserts |i - k| = 1 *)
  h_lit : bool               (* the stored matrix is a literal (identity) rather than a gate-set result *)
}.
