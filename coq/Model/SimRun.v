(* Executable model of MrAndersonSimulator.run (simulator.py:73-123) around the shot loop:
   _process_layout (125-158), the "None qubit measured" test (101-103), _validate_input_of_run (160-196), the part of
   _preprocess_circuit that can raise (198-243), the normalisation (115-119) and _measurament (318-356).

   Arguments are described abstractly, by exactly what the validation code looks at:
     a_circ     CNoData: the object has no .data attribute (AttributeError in _process_layout);
                CData is_qc data: .data is a list of instructions (name, qubit indices, clbit indices) and
                isinstance(obj, QuantumCircuit) = is_qc;
     a_layout_is_list  the user's qubits_layout argument is a list (run() never looks at it: the layout derived
                from the circuit is what gets validated and used);
     a_psi0     PsiNoShape: no .shape attribute;  PsiShape dims: psi0.shape = dims;
     a_shots    Some z: isinstance(shots, int) with int value z (True = 1, False = 0);  None: any other type
                (float, str, None, numpy integers);
     a_params   None: not a dict;  Some T1Missing: no key "T1" (KeyError);  Some T1NoLen: len() fails (TypeError);
                Some (T1Len k): len(device_param["T1"]) = k;
     a_nqubit   like a_shots.
   Scalars of the probability vector are an arbitrary type V with +, /, a zero and a positivity test. *)
From Coq Require Import List NArith ZArith Bool Arith.
Require Import QG.Base.Res QG.Model.FixCounts.
Import ListNotations.

Inductive opname := OpDelay | OpMeasure | OpBarrier | OpRz | OpSx | OpX | OpCx | OpEcr | OpOther.
Record instr := mkinstr { iname : opname; iqs : list N; ics : list N }.
Inductive circ_arg := CNoData | CData (is_qc : bool) (data : list instr).
Inductive t1_desc := T1Missing | T1NoLen | T1Len (k : Z).
Inductive psi_desc := PsiNoShape | PsiShape (dims : list Z).
Record args := mkargs {
  a_circ : circ_arg; a_layout_is_list : bool; a_psi0 : psi_desc; a_shots : option Z;
  a_params : option t1_desc; a_nqubit : option Z }.

(* which validation step refused (only used to compare the order of the checks with the implementation's messages) *)
Inductive step := SNoData | SMeasureArgs | SNoMeasure | SCircType | SLayoutType | SShotsType | SParamsType | SNqubitType
  | SShotsValue | SPsiAttr | SPsiShape | SLayoutLen | ST1Key | ST1Len | SParamsLen | SSwapIndex | SLayoutIndex.

Definition is_delay (o : opname) : bool := match o with OpDelay => true | _ => false end.
Definition is_measure (o : opname) : bool := match o with OpMeasure => true | _ => false end.

(* ---- _process_layout ---- *)
Fixpoint memN (x : N) (l : list N) : bool := match l with [] => false | y :: r => N.eqb x y || memN x r end.
Definition add_used (q : N) (used : list N) : list N := if memN q used then used else used ++ [q].
Fixpoint insN (x : N) (l : list N) : list N :=
  match l with [] => [x] | y :: r => if (x <=? y)%N then x :: l else y :: insN x r end.
Definition sortN (l : list N) : list N := fold_right insN [] l.

Fixpoint layout_loop (data : list instr) (used : list N) (meas : list (N * N)) : res (list N * list (N * N)) :=
  match data with
  | [] => Ok (used, meas)
  | x :: rest =>
      let used1 :=
        if is_delay (iname x) then used
        else match iqs x with
             | [q] => add_used q used
             | [q1; q2] => add_used q2 (add_used q1 used)
             | _ => used
             end in
      if is_measure (iname x) then
        match iqs x, ics x with
        | q :: _, c :: _ => layout_loop rest used1 (meas ++ [(q, c)])
        | _, _ => Err IndexError
        end
      else layout_loop rest used1 meas
  end.
Definition process_layout (data : list instr) : res (list N * list (N * N) * nat) :=
  x <- layout_loop data [] [] ;;
  let used := sortN (fst x) in Ok (used, snd x, length used).

(* ---- the validation sequence of run(), in the order the code performs it; returns the refusing step too ---- *)
Definition pow2_shape_ok (dims : list Z) (n : Z) : bool :=
  match dims with
  | [d] => if (0 <=? n)%Z then (d =? 2 ^ n)%Z
           else if (n <=? -1075)%Z then (d =? 0)%Z     (* 2**n underflows to the float 0.0, and (0,) == (0.0,) *)
           else false                                  (* 2**n is a non-integral float *)
  | _ => false
  end.

Fixpoint index_of (x : N) (l : list N) : option nat :=
  match l with [] => None | y :: r => if N.eqb x y then Some O else option_map S (index_of x r) end.

(* qubits_layout.index(q) for every measured qubit (ValueError when absent) *)
Fixpoint meas_positions (meas : list (N * N)) (used : list N) : res (list nat) :=
  match meas with
  | [] => Ok []
  | (q, _) :: rest =>
      match index_of q used with
      | None => Err ValueError
      | Some i => r <- meas_positions rest used ;; Ok (i :: r)
      end
  end.
(* _preprocess_circuit: the statements that can raise.  First loop: layout.index for every measure; second loop:
   swap_detector[index] = clbit, where swap_detector = list(range(nqubit)) has length max(nqubit, 0) *)
Fixpoint swap_assign (idx : list nat) (nq : Z) : res unit :=
  match idx with
  | [] => Ok tt
  | i :: rest => if (Z.of_nat i <? nq)%Z then swap_assign rest nq else Err IndexError
  end.
Definition swap_check (meas : list (N * N)) (used : list N) (nq : Z) : res unit * step :=
  match meas_positions meas used with
  | Err e => (Err e, SLayoutIndex)
  | Ok idx => (swap_assign idx nq, SSwapIndex)
  end.

Record front_out := mkfront { f_used : list N; f_meas : list (N * N); f_n : nat; f_nqubit : Z; f_shots : Z }.

Definition front_step (a : args) : res front_out * step :=
  match a_circ a with
  | CNoData => (Err AttributeError, SNoData)
  | CData is_qc data =>
      match process_layout data with
      | Err e => (Err e, SMeasureArgs)
      | Ok (used, meas, n) =>
          if Nat.eqb (length meas) 0 then (Err ValueError, SNoMeasure) else
          if negb is_qc then (Err ValueError, SCircType) else
          (* isinstance(qubits_layout, list) is applied to the derived layout: always true *)
          match a_shots a with None => (Err ValueError, SShotsType) | Some shots =>
          match a_params a with None => (Err ValueError, SParamsType) | Some t1 =>
          match a_nqubit a with None => (Err ValueError, SNqubitType) | Some nq =>
          if (shots <? 1)%Z then (Err ValueError, SShotsValue) else
          match a_psi0 a with PsiNoShape => (Err AttributeError, SPsiAttr) | PsiShape dims =>
          if negb (pow2_shape_ok dims nq) then (Err ValueError, SPsiShape) else
          if (Z.of_nat n <? nq)%Z then (Err ValueError, SLayoutLen) else
          match t1 with
          | T1Missing => (Err KeyError, ST1Key)
          | T1NoLen => (Err TypeError, ST1Len)
          | T1Len k =>
              if (k <? nq)%Z then (Err ValueError, SParamsLen) else
              match swap_check meas used nq with
              | (Err e, s) => (Err e, s)
              | (Ok _, s) => (Ok (mkfront used meas n nq shots), s)
              end
          end end end end end
      end
  end.
Definition front (a : args) : res front_out := fst (front_step a).

Section Tail.
Variable V : Type.
Variable vzero : V.
Variable vadd : V -> V -> V.
Variable vdiv : V -> V -> V.
Variable vpos : V -> bool.      (* total_prob > 0 *)

(* reordered_arr / np.sum(reordered_arr) with the assertion *)
Definition vsum (l : list V) : V := fold_left vadd l vzero.
Definition normalise (probs : list V) : res (list V) :=
  let total := vsum probs in
  if vpos total then Ok (map (fun x => vdiv x total) probs) else Err AssertionError.

(* ---- _measurament ---- *)
Fixpoint nseqN (x : N) (f : nat) : list N := match f with O => [] | S f' => x :: nseqN (x + 1)%N f' end.
(* [format(i, f'0{n}b') for i in np.arange(2**n)] *)
Definition binary_vector (n : nat) : list (list bool) := map (enc n) (nseqN 0 (Nat.pow 2 n)).
(* ''.join(binary_str[i] for i in q_meas) *)
Fixpoint select (s : list bool) (pos : list nat) : res (list bool) :=
  match pos with
  | [] => Ok []
  | i :: rest => match nth_error s i with None => Err IndexError | Some b => r <- select s rest ;; Ok (b :: r) end
  end.
Fixpoint select_all (bv : list (list bool)) (pos : list nat) : res (list (list bool)) :=
  match bv with [] => Ok [] | s :: rest => k <- select s pos ;; r <- select_all rest pos ;; Ok (k :: r) end.
(* if bit_string not in sums: sums[bit_string] = 0.0;  sums[bit_string] += value *)
Fixpoint dict_acc (k : list bool) (v : V) (d : list (list bool * V)) : list (list bool * V) :=
  match d with
  | [] => [(k, vadd vzero v)]
  | (k', v') :: r => if key_eqb k k' then (k', vadd v' v) :: r else (k', v') :: dict_acc k v r
  end.
Definition measurament (prob : list V) (meas : list (N * N)) (n : nat) (used : list N) : res (list (list bool * V)) :=
  pos <- meas_positions meas used ;;
  keys <- select_all (binary_vector n) pos ;;
  Ok (fold_left (fun d vk => dict_acc (snd vk) (fst vk) d) (combine prob keys) []).

(* run(): validation, then the shot loop (a thunk: it is not looked at when validation refuses), normalisation,
   marginalisation *)
Definition run_model (a : args) (perform : front_out -> res (list V)) : res (list (list bool * V)) :=
  f <- front a ;;
  probs <- perform f ;;
  final <- normalise probs ;;
  measurament final (f_meas f) (f_n f) (f_used f).
End Tail.
