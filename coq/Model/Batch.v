(* C19 — executable model of the batch helpers of quantum_gates._utility.simulations_utility:
     perform_parallel_simulation_with_multiprocessing   (simulations_utility.py:49-74)
     perform_parallel_simulation                        (simulations_utility.py:77-91)
     mock_perform_parallel_simulation                   (simulations_utility.py:94-103)
     post_process_split                                 (simulations_utility.py:193-220)
   Python exceptions are `Err e` (coq/Base/Res.v).  Because the Python code has side effects, every function returns
   the state after the call together with the outcome: (file system, outcome) for the merge, (call log, outcome) for
   the runners.  No proofs in this file. *)
From Coq Require Import List NArith ZArith Arith Bool.
Require Import QG.Base.Res.
Import ListNotations.

(* ====================================================================== part 1: post_process_split *)
(* A path is an abstract identifier (two different identifiers name two different files).
   A result file holds a 1-d array with >= 2 entries (np.loadtxt of a one-entry file is 0-d and cannot be re-saved by
   np.savetxt: outside the property, DESIGN 6 C19). *)
Notation path := N (only parsing).

Section Merge.
Variable V : Type.                 (* array entries *)
Variable vadd : V -> V -> V.       (* numpy float addition *)
Variable vdiv : V -> Z -> V.       (* numpy array / python int *)
Notation arr := (list V) (only parsing).
Notation fs := (list (N * list V)) (only parsing).

Fixpoint lookup (p : path) (f : fs) : option arr :=
  match f with
  | [] => None
  | (p', a) :: r => if N.eqb p p' then Some a else lookup p r
  end.

(* np.savetxt(path, a): create or replace *)
Fixpoint write (p : path) (a : arr) (f : fs) : fs :=
  match f with
  | [] => [(p, a)]
  | (p', a') :: r => if N.eqb p p' then (p, a) :: r else (p', a') :: write p a r
  end.

(* os.path.isfile *)
Definition isfile (f : fs) (p : path) : bool := match lookup p f with Some _ => true | None => false end.

(* np.loadtxt(path) *)
Definition load (f : fs) (p : path) : res arr :=
  match lookup p f with Some a => Ok a | None => Err FileNotFoundError end.

Fixpoint zipw (a b : arr) : arr :=
  match a, b with x :: a', y :: b' => vadd x y :: zipw a' b' | _, _ => [] end.

(* target_array += other   (1-d arrays with >= 2 entries: shapes must agree, otherwise numpy raises ValueError) *)
Definition add_into (acc other : arr) : res arr :=
  if Nat.eqb (length acc) (length other) then Ok (zipw acc other) else Err ValueError.

(* for source_file in <slice>: target_array += np.loadtxt(source_file) *)
Fixpoint acc_loop (f : fs) (acc : arr) (srcs : list path) : res arr :=
  match srcs with
  | [] => Ok acc
  | s :: r => a <- load f s ;; acc' <- add_into acc a ;; acc_loop f acc' r
  end.

(* l[a:b] for 0 <= a, 0 <= b *)
Definition slice {X : Type} (l : list X) (a b : nat) : list X := firstn (b - a) (skipn a l).

(* the loop `for target_file in target_filenames` with its running index i; split is > 1 here *)
Fixpoint merge_loop (f : fs) (sources targets : list path) (i : nat) (split : Z) : fs * res unit :=
  match targets with
  | [] => (f, Ok tt)
  | t :: ts =>
      match nth_error sources i with
      | None => (f, Err IndexError)
      | Some s0 =>
          match (a0 <- load f s0 ;; acc_loop f a0 (slice sources (i + 1) (i + Z.to_nat split))) with
          | Err e => (f, Err e)
          | Ok acc =>
              let mean := map (fun x => vdiv x split) acc in
              merge_loop (write t mean f) sources ts (i + Z.to_nat split) split
          end
      end
  end.

(* the four assertions, in source order *)
Definition post_process_split (f : fs) (sources targets : list path) (split : Z) : fs * res unit :=
  if negb (Z.eqb (split * Z.of_nat (length targets)) (Z.of_nat (length sources))) then (f, Err AssertionError)
  else if negb (forallb (isfile f) sources) then (f, Err AssertionError)
  else if existsb (isfile f) targets then (f, Err AssertionError)
  else if negb (Z.ltb 1 split) then (f, Err AssertionError)
  else merge_loop f sources targets 0 split.

(* ---------------------------------------------------------------- vocabulary of the property statement *)
(* element-wise mean of a non-empty list of arrays: entry i is (sum of the i-th entries, left to right) / count *)
Definition column (i : nat) (d : V) (arrs : list arr) : list V := map (fun a => nth i a d) arrs.
Definition sum_left (d : V) (col : list V) : V :=
  match col with [] => d | x :: r => fold_left vadd r x end.
Definition is_mean (d : V) (arrs : list arr) (count : Z) (m : arr) : Prop :=
  Forall (fun a => length a = length m) arrs /\
  forall i, (i < length m)%nat -> nth i m d = vdiv (sum_left d (column i d arrs)) count.
End Merge.

Arguments slice {X} l a b.

(* ====================================================================== part 2: the three runners *)
Section Runners.
Variables A T L : Type.                 (* argument, elapsed time, label *)
Variable sim : A -> res (T * L).        (* the injected simulation; Err e = it raises e *)

(* Library behaviour enters through these two functions (their specifications are hypotheses of the theorems):
   pool_order args processes chunksize = the order in which multiprocessing.Pool.imap_unordered yields its results
   (each result is func applied to one element of the iterable);
   exec_order args max_workers = the order in which ProcessPoolExecutor runs the submitted calls
   (executor.map yields the results in the order of args). *)
Variable pool_order : list A -> nat -> nat -> list A.
Variable exec_order : list A -> option Z -> list A.

(* consume an iterator of results; an exception of the simulation is re-raised at its position *)
Fixpoint first_error (rs : list (res (T * L))) : res unit :=
  match rs with
  | [] => Ok tt
  | Ok _ :: r => first_error r
  | Err e :: _ => Err e
  end.

(* perform_parallel_simulation_with_multiprocessing; cpu = multiprocessing.cpu_count().
   Returns (calls made, outcome). *)
Definition pool_runner (cpu : nat) (args : list A) : list A * res unit :=
  let n_processes := Nat.max (8 * cpu / 10) 2 in                     (* max(int(0.8 * cpu_count), 2) *)
  let simulations := length args in
  let chunksize := Nat.max 1 (simulations / n_processes + (if Nat.ltb 0 (simulations mod n_processes) then 1 else 0)) in
  if Nat.ltb n_processes 1 then ([], Err ValueError)                  (* Pool(processes < 1) *)
  else if Nat.ltb chunksize 1 then ([], Err ValueError)               (* imap_unordered: chunksize must be 1+ *)
  else
    let order := pool_order args n_processes chunksize in
    (order, first_error (map sim order)).                             (* for time, nqubit in ...: print *)

(* perform_parallel_simulation *)
Definition executor_runner (max_workers : option Z) (args : list A) : list A * res unit :=
  match max_workers with
  | Some w => if Z.leb w 0 then ([], Err ValueError) else (exec_order args max_workers, first_error (map sim args))
  | None => (exec_order args max_workers, first_error (map sim args))
  end.

(* mock_perform_parallel_simulation: a plain loop, stops at the first exception *)
Fixpoint mock_runner (args : list A) : list A * res unit :=
  match args with
  | [] => ([], Ok tt)
  | a :: r =>
      match sim a with
      | Err e => ([a], Err e)
      | Ok _ => let '(l, o) := mock_runner r in (a :: l, o)
      end
  end.
End Runners.
