(* C13 — hand-written model (M) of the optional validation of Pulse.__init__ (pulse.py, perform_checks=True):
     _pulse_is_valid, _parametrization_is_valid, _are_compatible,
   with eps = Pulse.epsilon and n = Pulse.check_n_points as parameters (their current values are read from the source
   into Gen/GenPulse.v), scipy.integrate.quad modelled as the Riemann integral RInt, np.linspace(lo, hi, n) modelled as
   the n points lo + i*(hi-lo)/(n-1).  No proofs here.
   Also the specification of a valid pair (what the docstring of Pulse asks for). *)
From Coq Require Import Reals List.
From Coquelicot Require Import Coquelicot.
Import ListNotations.
Open Scope R_scope.

Definition linspace (lo hi : R) (n : nat) : list R :=
  map (fun i => lo + INR i * ((hi - lo) / INR (n - 1))) (seq 0 n).

Section Validation.
Variable eps : R.
Variable n : nat.

(* integrates_to_1 = abs(quad(pulse, 0, 1)[0] - 1) < eps ; is_non_negative = all(pulse(x) >= 0 for x in linspace(0, 1, n)) *)
Definition pulse_is_valid (f : R -> R) : Prop :=
  Rabs (RInt f 0 1 - 1) < eps /\ List.Forall (fun x => f x >= 0) (linspace 0 1 n).

(* starts_at_0, stops_at_1, is_monotone = all(F(x + eps) >= F(x) for x in linspace(0, 1 - eps, n)) *)
Definition parametrization_is_valid (F : R -> R) : Prop :=
  Rabs (F 0 - 0) < eps /\ Rabs (F 1 - 1) < eps /\
  List.Forall (fun x => F (x + eps) >= F x) (linspace 0 (1 - eps) n).

(* for x in linspace(eps, 1 - eps, n): if abs(quad(pulse, 0, x)[0] - F(x)) > eps: return False *)
Definition are_compatible (f F : R -> R) : Prop :=
  List.Forall (fun x => ~ (Rabs (RInt f 0 x - F x) > eps)) (linspace eps (1 - eps) n).

(* the three asserts of Pulse.__init__ all pass *)
Definition validate (f F : R -> R) : Prop :=
  pulse_is_valid f /\ parametrization_is_valid F /\ are_compatible f F.

End Validation.

(* the specification: a normalised non-negative waveform on [0,1] whose running integral is F *)
Definition valid_pair (f F : R -> R) : Prop :=
  (forall x, 0 <= x <= 1 -> 0 <= f x) /\
  is_RInt f 0 1 1 /\
  F 0 = 0 /\ F 1 = 1 /\
  (forall x y, 0 <= x <= y -> y <= 1 -> F x <= F y) /\
  (forall x, 0 <= x <= 1 -> is_RInt f 0 x (F x)).

(* the literal reading of "validation fails for every invalid pair" (false for any sampled check; refuted in Props) *)
Definition validate_sound_literal (eps : R) (n : nat) : Prop :=
  forall f F, validate eps n f F -> valid_pair f F.
