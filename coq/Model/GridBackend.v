(* Executable model of Circuit.statevector, the evaluation of the legacy fixed-depth grid class (circuit.py:90-105):

       self.circuit = np.array(self.circuit, dtype=object)
       matrix_prod = ft.reduce(np.kron, self.circuit[:, 0])
       for i in range(1, self.depth):
           matrix_prod = ft.reduce(np.kron, self.circuit[:, i]) @ matrix_prod
       psi = matrix_prod @ psi0

   Hand-written; tied to the code by the exact correspondence run of checks/c03_grid.py.  No proofs here.
   Vocabulary and conventions of Model/Backends.v (entries En2 / En4 / EnOne, widths, reduce_kron, matmul, memo).
   * self.circuit[qubit][column] is a list of rows (one per qubit) with `depth` entries each -- the constructor and reset() build it
     rectangular and apply / CNOT / ECR only overwrite existing entries, so the model reads entry c of every row (`column`); the
     placeholder 1 the constructor writes is EnOne;
   * np.kron treats the placeholder as the 1x1 unit (np.kron(G, 1) = G = np.kron(1, G): ofE EnOne has width 0);
   * self.circuit[:, 0] raises IndexError when there is no row (nqubit = 0: the array is one-dimensional) or no column (depth = 0);
   * a column made of placeholders only reduces to a 0-dimensional value (several rows: np.multiply(1, 1); one row: the int 1),
     on which `@` raises ValueError when the other operand is an array -- and TypeError when it is such a scalar as well (nothing
     written in the first two columns: neither int nor numpy.int64 implements `@`); `@` on matrices of different size raises ValueError;
     n = the number of qubits of psi0 (len(psi0) = 2^n): the last `@` raises ValueError when the product is not 2^n x 2^n. *)
From Coq Require Import List Bool Arith.
Require Import QG.Base.Res QG.Base.State QG.Base.Mat QG.Model.Backends.
Import ListNotations.

Section G.
Variable R : Type.
Variables (rI : R) (radd rmul : R -> R -> R).
Notation entry := (Backends.entry R).
Notation wmat := (nat * (bits -> bits -> R))%type (only parsing).

(* np.array(self.circuit, dtype=object)[:, c] *)
Definition column (grid : list (list entry)) (c : nat) : list entry := map (fun row => nth c row EnOne) grid.
Definition columns (depth : nat) (grid : list (list entry)) : list (list entry) := map (column grid) (seq 0 depth).

(* a column of placeholders only: ft.reduce(np.kron, .) is a scalar (the int 1 itself for one row, else numpy.int64(1)), not an array *)
Definition scalar_col (c : list entry) : bool := forallb (isOne R) c.

(* the loop: kron-reduce every column, multiply from the left, first column first *)
Definition grid_product (cols : list (list entry)) : res wmat :=
  match cols with
  | [] => Err IndexError                                   (* depth = 0 *)
  | [] :: _ => Err IndexError                              (* nqubit = 0 *)
  | c0 :: rest =>
      if scalar_col c0 && match rest with c1 :: _ => scalar_col c1 | [] => false end then Err TypeError else     (* scalar @ scalar *)
      m0 <- reduce_kron R rmul (map (ofE R rI) c0) ;;
      fold_left (fun acc c => p <- acc ;; m <- reduce_kron R rmul (map (ofE R rI) c) ;; matmul R radd rmul m p) rest (Ok m0)
  end.

(* statevector on the columns (what Builders.g_content lists), psi0 on n qubits *)
Definition grid_statevector_cols (n : nat) (cols : list (list entry)) (psi : bits -> R) : res (bits -> R) :=
  p <- grid_product cols ;;
  if (0 <? fst p) && (fst p =? n) then Ok (memoT n (mv R radd rmul n (snd p) psi)) else Err ValueError.

(* statevector on the object's fields *)
Definition grid_statevector (n depth : nat) (grid : list (list entry)) (psi : bits -> R) : res (bits -> R) :=
  grid_statevector_cols n (columns depth grid) psi.
End G.
