(* Executable model of the layer-based statevector backends of quantum_gates/_simulation/backend.py:
     StandardBackend.statevector (46-68), EfficientBackend (108-215), BackendForOnes (440-659).
   Hand-written; tied to the code by the exact correspondence run of checks/c01.py.  No proofs here.

   Conventions
   * scalars: any type R with 0, 1, +, * (the proofs assume a commutative ring; correspondence instantiates ZI);
   * an axis of dimension 2^w is indexed by big-endian bit lists of List.length w (Base/Mat.v); every dimension occurring in
     the code is a power of two, so shapes are recorded as widths w (numpy shape entry 2^w);
   * a layer is a Python list whose entries are 2x2 arrays (En2), 4x4 arrays (En4) or the scalar placeholder 1 (EnOne);
   * numpy array creation is [memoT]/[memo2] (semantically the identity, see Mat.v);
   * Python exceptions are [Err e]; the generic [Exception] of BackendForOnes._kronecker([]) is mapped to ValueError;
   * a statevector call is split into a planning pass (everything that does not look at the amplitudes: regime dispatch,
     chunking, Kronecker products of chunks, identity scanning, shapes, contract strings; raises the exceptions) and an
     execution pass (the mat-vec / einsum contractions).  The code interleaves them layer by layer; since every exception
     depends only on the layer list, n and the parameters, the observable result (vector or first exception) is the same.
   * opt_einsum.contract(cs, *ops, tensor) is modelled by its mathematical meaning for the strings this code builds:
     [contractI] = nested sums over the contracted legs (row-major reshape = concatenation of bit lists), identity legs
     passed through. *)
From Coq Require Import List Bool Arith NArith String Ascii.
Require Import QG.Base.Res QG.Base.State QG.Base.Mat.
Import ListNotations.

Fixpoint mapM {A B} (f : A -> res B) (l : list A) : res (list B) :=
  match l with [] => Ok [] | x :: r => y <- f x ;; ys <- mapM f r ;; Ok (y :: ys) end.
(* Python slice l[a:b] for 0 <= a <= b *)
Definition slice {A} (a b : nat) (l : list A) : list A := firstn (b - a) (skipn a l).
(* l[-1] = f(l[-1]) *)
Fixpoint set_last {A} (f : A -> A) (l : list A) : res (list A) :=
  match l with
  | [] => Err IndexError
  | [x] => Ok [f x]
  | x :: r => rmap (cons x) (set_last f r)
  end.

(* string.ascii_lowercase[i], string.ascii_uppercase[i] *)
Definition lc (i : nat) : ascii := ascii_of_nat (97 + i).
Definition uc (i : nat) : ascii := ascii_of_nat (65 + i).
Fixpoint str_of (l : list ascii) : string := match l with [] => EmptyString | c :: r => String c (str_of r) end.

Section B.
Variable R : Type.
Variables (rO rI : R) (radd rmul : R -> R -> R).
Notation state := (bits -> R) (only parsing).
Notation gmat := (bits -> bits -> R) (only parsing).
Notation wmat := (nat * (bits -> bits -> R))%type (only parsing).
Notation leg := (nat * option (bits -> bits -> R))%type (only parsing).

Inductive entry := En2 (A : m2 R) | En4 (G : m4 R) | EnOne.
Definition isOne (e : entry) : bool := match e with EnOne => true | _ => false end.

(* an entry as a (width, matrix) pair; np.kron treats the Python scalar 1 as the 1x1 matrix [[1]] *)
Definition ofE (e : entry) : wmat :=
  match e with
  | En2 A => (1, fun r c => A (hd false r) (hd false c))
  | En4 G => (2, fun r c => G (nth 0 r false, nth 1 r false) (nth 0 c false, nth 1 c false))
  | EnOne => (0, fun _ _ => rI)
  end.

(* np.kron(A, B) (a fresh array) *)
Definition wkron (A B : wmat) : wmat :=
  let w := fst A + fst B in (w, memo2 R w (kron R rmul (fst A) (snd A) (snd B))).
(* ft.reduce(np.kron, l): left fold without initial value; TypeError on the empty sequence *)
Definition reduce_kron (l : list wmat) : res wmat :=
  match l with [] => Err TypeError | x :: r => Ok (fold_left wkron r x) end.
(* A @ B for square matrices; numpy raises ValueError on a dimension mismatch *)
Definition matmul (A B : wmat) : res wmat :=
  if fst A =? fst B then Ok (fst A, memo2 R (fst A) (mm R radd rmul (fst A) (snd A) (snd B))) else Err ValueError.

(* ------------------------------------------------------------------ einsum *)
Definition legs_width (l : list leg) : nat := fold_right (fun lg a => fst lg + a) 0 l.

(* meaning of  oe.contract("<m1>,<m2>,...,<tensor>-><result>", *matrices, psi.reshape(dims)).reshape(psi.shape)
   where leg k of the tensor either carries a matrix (row letter in the result, column letter contracted with the tensor)
   or is passed through unchanged (same letter in tensor and result):
      out[x1 x2 ...] = sum_{b1} A1[x1,b1] * ( sum_{b2} ... psi[b1 b2 ...] ),   identity legs: b_k = x_k.
   The sub-results are materialised per value of the leading leg (this is only an evaluation strategy). *)
Fixpoint contractI (legs : list leg) (psi : bits -> R) : bits -> R :=
  match legs with
  | [] => fun _ => psi []
  | (w, Some A) :: rest =>
      let W := legs_width rest in
      let phi := memoT w (fun b => memoT W (contractI rest (fun y => psi (b ++ y)))) in
      fun x => bsum R radd w (fun b => rmul (A (firstn w x) b) (phi b (skipn w x)))
  | (w, None) :: rest =>
      let W := legs_width rest in
      let phi := memoT w (fun b => memoT W (contractI rest (fun y => psi (b ++ y)))) in
      fun x => phi (firstn w x) (skipn w x)
  end.

(* one layer's work on psi, as decided by the planning pass *)
Inductive lplan :=
| PMatVec (M : bits -> bits -> R)                (* psi = M @ psi *)
| PContract (cs : string) (legs : list leg)     (* psi = oe.contract(cs, *matrices, psi.reshape(shape)).reshape(psi.shape) *)
| PKeep.                                        (* BackendForOnes: every column is an identity, psi returned as is *)
Definition exec1 (n : nat) (p : lplan) (psi : bits -> R) : bits -> R :=
  match p with
  | PMatVec M => memoT n (mv R radd rmul n M psi)
  | PContract _ legs => memoT n (contractI legs psi)
  | PKeep => psi
  end.
Definition exec (n : nat) (ps : list lplan) (psi : bits -> R) : bits -> R := fold_left (fun s p => exec1 n p s) ps psi.
(* what a wrapper around oe.contract sees: the string, and per tensor leg its width and whether a matrix operand sits on it *)
Definition calls_of (ps : list lplan) : list (string * list (nat * bool)) :=
  flat_map (fun p => match p with
                     | PContract cs legs => [(cs, map (fun lg => (fst lg, match snd lg with Some _ => true | None => false end)) legs)]
                     | _ => [] end) ps.

(* ------------------------------------------------------------------ StandardBackend (backend.py:46-68) *)
Inductive sv_out := OutVec (s : bits -> R) | OutEye.   (* depth 0 returns np.eye(2**n), a matrix *)

Definition std (n : nat) (ls : list (list entry)) (psi : bits -> R) : res sv_out :=
  match ls with
  | [] => Ok OutEye                                                              (* :61-62 *)
  | l0 :: rest =>
      (* :64-65  np.array(..., dtype=object)[i, :] needs a rectangular list of lists, else IndexError *)
      if negb (forallb (fun l => List.length l =? List.length l0) rest) then Err IndexError else
      m0 <- reduce_kron (map ofE l0) ;;                                           (* :65 *)
      p <- fold_left (fun acc l => p <- acc ;; m <- reduce_kron (map ofE l) ;; matmul m p) rest (Ok m0) ;;   (* :66-67 *)
      if fst p =? n then Ok (OutVec (memoT n (mv R radd rmul n (snd p) psi))) else Err ValueError            (* :68 *)
  end.

(* ------------------------------------------------------------------ EfficientBackend (backend.py:108-215) *)
(* :183-188 *)
Definition eff_string (k : nat) : string :=
  let ix := seq 0 k in
  (String.concat "," (map (fun i => str_of [lc (2 * i); lc (2 * i + 1)]) ix)
   ++ "," ++ str_of (map (fun i => lc (2 * i + 1)) ix)
   ++ "->" ++ str_of (map (fun i => lc (2 * i)) ix))%string.

(* :166-191 _opt_einsum_many_matrices *)
Definition many_matrices (n : nat) (mp : list wmat) : res lplan :=
  if 26 <? 2 * List.length mp then Err AssertionError                                   (* :180 *)
  else
    let legs := map (fun a => (fst a, Some (snd a))) mp in
    if legs_width legs =? n then Ok (PContract (eff_string (List.length mp)) legs)      (* :190 reshape, :191 *)
    else Err ValueError.

(* [l[i:i+opt] for i in range(0, len(l), opt)]  (fuel = len(l), opt >= 1) *)
Fixpoint chunks_of {A} (fuel opt : nat) (l : list A) : list (list A) :=
  match fuel with
  | O => []
  | S f => match l with [] => [] | _ => firstn opt l :: chunks_of f opt (skipn opt l) end
  end.
(* :193-215 _chunk_list *)
Definition chunk_list {A} (l : list A) (mn opt : nat) : res (list (list A)) :=
  if List.length l <? 2 * opt then Err AssertionError                                   (* :205 *)
  else if opt =? 0 then Err ValueError                                             (* range() arg 3 must not be zero *)
  else
    let chunks := chunks_of (List.length l) opt l in
    match rev chunks with
    | [] => Err IndexError                                                         (* chunks[-1] *)
    | last :: [] => if List.length last <? mn then Err IndexError else Ok chunks        (* chunks[-2] *)
    | last :: prev :: before =>
        if List.length last <? mn then Ok (rev before ++ [prev ++ last]) else Ok chunks (* :212-215 *)
    end.

(* ft.reduce(np.kron, chunk) followed by a.shape[0]: a chunk made of placeholders only reduces to a Python int
   (one entry: AttributeError) or a numpy scalar (several: IndexError on shape[0]) unless np.atleast_2d is applied *)
Definition reduce_arr (atleast2d : bool) (chunk : list entry) : res wmat :=
  m <- reduce_kron (map ofE chunk) ;;
  if negb atleast2d && forallb isOne chunk then Err (if List.length chunk =? 1 then AttributeError else IndexError)
  else Ok m.

Definition eff_low (n : nat) (mp : list entry) : res lplan :=                       (* :138-140 *)
  m <- reduce_kron (map ofE mp) ;;
  if fst m =? n then Ok (PMatVec (snd m)) else Err ValueError.
Definition eff_medium (n : nat) (mp : list entry) : res lplan :=                    (* :147-151 *)
  let split_index := n / 2 in
  a1 <- reduce_arr false (firstn split_index mp) ;;
  a2 <- reduce_arr false (skipn split_index mp) ;;
  many_matrices n [a1; a2].
Definition eff_high (n mn opt : nat) (mp : list entry) : res lplan :=               (* :160-163 *)
  raw <- chunk_list mp mn opt ;;
  a_list <- mapM (reduce_arr true) raw ;;
  many_matrices n a_list.

Definition eff_plan (n mn opt : nat) (ls : list (list entry)) : res (list lplan) :=
  match ls with
  | [] => Err AssertionError                                                       (* :118 *)
  | _ =>
      if n <? 4 then mapM (eff_low n) ls                                           (* :122 *)
      else if 2 * opt <=? n then mapM (eff_high n mn opt) ls                       (* :126 *)
      else mapM (eff_medium n) ls                                                  (* :130 *)
  end.
Definition eff (n mn opt : nat) (ls : list (list entry)) (psi : bits -> R) : res (bits -> R) :=
  ps <- eff_plan n mn opt ls ;; Ok (exec n ps psi).

(* ------------------------------------------------------------------ BackendForOnes (backend.py:440-659) *)
Variable is_id : entry -> bool.        (* _is_identity (:452-455) *)

(* :457-473 _kronecker, divide and conquer; fuel = len(a_list) is enough *)
Fixpoint kronecker (fuel : nat) (l : list wmat) : res wmat :=
  match fuel with
  | O => Err OutOfFuel
  | S f =>
      match l with
      | [] => Err ValueError                         (* raise Exception(...) *)
      | [a] => Ok a
      | [a; b] => Ok (wkron a b)
      | [a; b; c] => Ok (wkron (wkron a b) c)
      | _ => let h := List.length l / 2 in
             x <- kronecker f (firstn h l) ;; y <- kronecker f (skipn h l) ;; Ok (wkron x y)
      end
  end.
Definition kron_of (l : list wmat) : res wmat := kronecker (List.length l) l.

Definition ones_low (n : nat) (mp : list entry) : res lplan :=                      (* :478-479 *)
  m <- kron_of (map ofE mp) ;;
  if fst m =? n then Ok (PMatVec (snd m)) else Err ValueError.

(* the scanner state of _opt_einsum_ignoring_ones (:507-511) *)
Record sstate := { noc : list wmat;     (* non_one_chunks *)
                   shp : list nat;      (* shape (as widths) *)
                   col : list bool;     (* column_is_identity *)
                   proto : list wmat;   (* prototype *)
                   lastid : bool }.     (* last_one_was_identity *)

(* contract the prototype, splitting when it has many terms: thresholds 19 / t3 / 8 (t3 = 11 at :549, 14 at :609) *)
Definition split (t3 : nat) (st : sstate) : res sstate :=
  let p := proto st in
  let t := List.length p in
  let mk (cs : list wmat) : res sstate :=
    match cs with
    | [] => Err IndexError
    | c1 :: more =>
        shp' <- set_last (fun _ => fst c1) (shp st) ;;
        Ok {| noc := noc st ++ cs; shp := shp' ++ map fst more; col := col st ++ map (fun _ => false) more;
              proto := p; lastid := lastid st |}
    end in
  if 19 <=? t then
    c1 <- kron_of (slice 0 (t / 4) p) ;; c2 <- kron_of (slice (t / 4) (2 * t / 4) p) ;;
    c3 <- kron_of (slice (2 * t / 4) (3 * t / 4) p) ;; c4 <- kron_of (slice (3 * t / 4) t p) ;;
    mk [c1; c2; c3; c4]
  else if t3 <=? t then
    c1 <- kron_of (slice 0 (t / 3) p) ;; c2 <- kron_of (slice (t / 3) (2 * t / 3) p) ;;
    c3 <- kron_of (slice (2 * t / 3) t p) ;;
    mk [c1; c2; c3]
  else if 8 <=? t then
    c1 <- kron_of (slice 0 (t / 2) p) ;; c2 <- kron_of (slice (t / 2) t p) ;;
    mk [c1; c2]
  else
    c <- kron_of p ;;                                                              (* :574 / :634, shape untouched *)
    Ok {| noc := noc st ++ [c]; shp := shp st; col := col st; proto := p; lastid := lastid st |}.

(* loop body :514-584 *)
Definition step (m : entry) (st : sstate) : res sstate :=
  let cur := is_id m in
  if lastid st then
    if cur then
      shp' <- set_last S (shp st) ;;                                               (* :519 shape[-1] *= 2 *)
      Ok {| noc := noc st; shp := shp'; col := col st; proto := proto st; lastid := cur |}
    else
      Ok {| noc := noc st; shp := shp st ++ [fst (ofE m)]; col := col st ++ [false];    (* :522-524 *)
            proto := [ofE m]; lastid := cur |}
  else
    if cur then
      st1 <- split 11 st ;;                                                        (* :529-574 *)
      Ok {| noc := noc st1; shp := shp st1 ++ [1]; col := col st1 ++ [true]; proto := []; lastid := cur |}   (* :576-579 *)
    else
      shp' <- set_last (fun w => w + fst (ofE m)) (shp st) ;;                      (* :582-583 *)
      Ok {| noc := noc st; shp := shp'; col := col st; proto := proto st ++ [ofE m]; lastid := cur |}.

(* pair the columns with the shape and, for non-identity columns, with the chunks in order; einsum raises ValueError when
   the number of operands or a dimension does not fit the string *)
Fixpoint zip_legs (cl : list bool) (sh : list nat) (ch : list wmat) : res (list leg) :=
  match cl, sh with
  | [], [] => match ch with [] => Ok [] | _ => Err ValueError end
  | true :: cl', w :: sh' => r <- zip_legs cl' sh' ch ;; Ok ((w, None) :: r)
  | false :: cl', w :: sh' =>
      match ch with
      | [] => Err ValueError
      | c :: ch' => if fst c =? w then r <- zip_legs cl' sh' ch' ;; Ok ((w, Some (snd c)) :: r) else Err ValueError
      end
  | _, _ => Err ValueError
  end.

(* :640-656 *)
Definition ones_string (cl : list bool) : string :=
  let ix := seq 0 (List.length cl) in
  let icl := combine ix cl in
  (String.concat "," (flat_map (fun ic : nat * bool => if snd ic then [] else [str_of [lc (fst ic); uc (fst ic)]]) icl)
   ++ "," ++ str_of (map uc ix)
   ++ "->" ++ str_of (map (fun ic : nat * bool => if snd ic then uc (fst ic) else lc (fst ic)) icl))%string.

Definition ones_high (n : nat) (mp : list entry) : res lplan :=                     (* :490-659 *)
  let ms := filter (fun e => negb (isOne e)) mp in                                 (* :498 *)
  if 26 <? List.length ms then Err AssertionError else                                  (* :500 *)
  match ms with
  | [] => Err IndexError                                                           (* matrices[0] *)
  | m0 :: rest =>
      let l0 := is_id m0 in
      let st0 := {| noc := []; shp := [fst (ofE m0)]; col := [l0];
                    proto := if l0 then [] else [ofE m0]; lastid := l0 |} in       (* :507-511 *)
      st <- fold_left (fun acc m => s <- acc ;; step m s) rest (Ok st0) ;;
      st <- (if lastid st then Ok st                                               (* :586 *)
             else match proto st with [] => Err AssertionError | _ => split 14 st end) ;;
      if forallb (fun b => b) (col st) then Ok PKeep else                          (* :637-638 *)
      if 26 <? List.length (col st) then Err IndexError else                            (* ABC[i] *)
      if fold_right Nat.add 0 (shp st) =? n then                                   (* :658 reshape *)
        legs <- zip_legs (col st) (shp st) (noc st) ;;
        Ok (PContract (ones_string (col st)) legs)
      else Err ValueError
  end.

Definition ones_plan (n : nat) (ls : list (list entry)) : res (list lplan) :=
  match ls with
  | [] => Err AssertionError                                                       (* :441 *)
  | _ => if n <=? 6 then mapM (ones_low n) ls else mapM (ones_high n) ls           (* :445 *)
  end.
Definition ones (n : nat) (ls : list (list entry)) (psi : bits -> R) : res (bits -> R) :=
  ps <- ones_plan n ls ;; Ok (exec n ps psi).

End B.

Arguments En2 {R} A. Arguments En4 {R} G. Arguments EnOne {R}.
Arguments OutVec {R} s. Arguments OutEye {R}.

(* _is_identity for scalars with a decidable equality: isinstance(ndarray) and np.array_equal(matrix, np.eye(2)) *)
Definition is_id_eqb {R} (rO rI : R) (eqb : R -> R -> bool) (e : entry R) : bool :=
  match e with
  | En2 A => eqb (A false false) rI && eqb (A false true) rO && eqb (A true false) rO && eqb (A true true) rI
  | _ => false
  end.
