(* Executable model of MrAndersonSimulator._perform_simulation and _single_shot (simulator.py:245-316, 492-518).

   Randomness.  numpy's global generator is modelled as a stream of samples read at a position:
   gen = (g_str : N -> sample, g_pos : N).  One draw returns g_str g_pos and advances the position by one.
   "sample" is whatever the consumer asks for (a Gaussian variate inside a shot, a 32-bit word when the parent draws
   seeds); within one stream the two kinds are never mixed: the parent only draws words between entering
   _perform_simulation and starting the pool, a shot only draws Gaussian variates, and np.random.seed() clears the
   cached second Gaussian.  np.random.seed(sd) replaces the generator by (init sd, 0), init abstract.

   A shot (apply the gates, propagate psi0, Born rule) is a reader program over the stream: a tree whose inner nodes
   request one sample and whose leaves carry the Born vector.  Every Python function that draws finitely many
   samples, adaptively or not, is such a tree; the number of samples it consumes is the depth of the path taken.

   Scalars are an arbitrary type V with the operations the code uses (+, /, conversion of the shot count).
   Ghost output: the loops also return the list of per-shot vectors in the order they were accumulated (the code
   only keeps the running sum); the theorems and the correspondence run speak about that list. *)
From Coq Require Import List NArith ZArith Bool Arith.
Require Import QG.Base.Res.
Import ListNotations.

Section Shots.
Variable V : Type.
Variable vzero : V.
Variable vadd : V -> V -> V.
Variable vdiv : V -> V -> V.
Variable vofZ : Z -> V.
Variable sample : Type.
Variable init : list sample -> N -> sample.       (* np.random.seed(seed): the stream a seed produces *)

Notation vec := (list V) (only parsing).
Notation seed := (list sample) (only parsing).

(* ---- numpy vectors ---- *)
Fixpoint vadd2 (a b : vec) : vec :=
  match a, b with x :: a', y :: b' => vadd x y :: vadd2 a' b' | _, _ => [] end.
(* r_sum += shot_result: equal shapes, or a length-1 right operand broadcast; anything else raises ValueError *)
Definition iadd (a b : vec) : res vec :=
  if Nat.eqb (length a) (length b) then Ok (vadd2 a b)
  else match b with [y] => Ok (map (fun x => vadd x y) a) | _ => Err ValueError end.
Definition zeros (len : N) : vec := repeat vzero (N.to_nat len).

(* ---- generator and reader programs ---- *)
Inductive prog (A : Type) : Type := Ret (a : A) | Draw (k : sample -> prog A).
Arguments Ret {A} a.
Arguments Draw {A} k.
Fixpoint run_prog {A} (p : prog A) (s : N -> sample) (pos : N) : A * N :=
  match p with Ret a => (a, pos) | Draw k => run_prog (k (s pos)) s (N.succ pos) end.

Record gen := mkgen { g_str : N -> sample; g_pos : N }.
Definition reseed (sd : seed) : gen := mkgen (init sd) 0.

(* np.random.randint(0, 2**32, size=4, dtype=np.uint32): four consecutive draws *)
Definition draw_seed (g : gen) : seed * gen :=
  let p := g_pos g in
  ([g_str g p; g_str g (p + 1)%N; g_str g (p + 2)%N; g_str g (p + 3)%N], mkgen (g_str g) (p + 4)%N).

Variable shot : prog vec.     (* _apply_gates_on_circuit + statevector + Born rule for the fixed circuit and gate set *)

(* _single_shot(args): reseed when args carries a seed, then run the shot on the process's generator *)
Definition single_shot (sd : option seed) (g : gen) : vec * gen :=
  let g0 := match sd with Some s => reseed s | None => g end in
  let (v, p') := run_prog shot (g_str g0) (g_pos g0) in
  (v, mkgen (g_str g0) p').

(* ---- sequential mode: for arg in arg_list: r_sum += _single_shot(arg) ---- *)
Fixpoint seq_loop (args : list (option seed)) (g : gen) (r_sum : vec) (log : list vec) : res (vec * gen * list vec) :=
  match args with
  | [] => Ok (r_sum, g, rev log)
  | a :: rest =>
      let (v, g') := single_shot a g in
      r <- iadd r_sum v ;;
      seq_loop rest g' r (v :: log)
  end.

Definition mean (shots : Z) (r_sum : vec) : vec := map (fun x => vdiv x (vofZ shots)) r_sum.

Definition perform_seq (shots : Z) (len : N) (g : gen) : res (vec * gen * list vec) :=
  x <- seq_loop (repeat None (Z.to_nat shots)) g (zeros len) [] ;;
  let '(r, g', log) := x in Ok (mean shots r, g', log).

(* ---- parallel mode ---- *)
(* n_processes = max(int(0.8 * cpu_count), 2); chunksize = max(1, int(shots / n) + (1 if shots % n > 0 else 0)).
   The two float operations are modelled by integer arithmetic (exact for cpu_count, shots < 2^50). *)
Definition n_processes (cpu : Z) : Z := Z.max ((4 * cpu) / 5) 2.
Definition chunksize (shots W : Z) : Z := Z.max 1 (shots / W + (if (0 <? shots mod W)%Z then 1 else 0)).

(* for arg in arg_list: arg["seed"] = randint(...)  -- the parent's generator, in argument order *)
Fixpoint draw_seeds (n : nat) (g : gen) : list seed * gen :=
  match n with
  | O => ([], g)
  | S n' => let (sd, g1) := draw_seed g in let (r, g2) := draw_seeds n' g1 in (sd :: r, g2)
  end.

(* Pool._get_tasks: consecutive slices of chunksize arguments until the iterable is exhausted *)
Fixpoint chunks_fuel {A} (fuel : nat) (cs : nat) (l : list A) : list (list A) :=
  match fuel with
  | O => []
  | S f => match l with [] => [] | _ => firstn cs l :: chunks_fuel f cs (skipn cs l) end
  end.
Definition chunks {A} (cs : nat) (l : list A) : list (list A) := chunks_fuel (length l) cs l.

(* a worker maps _single_shot over one chunk, on its own generator *)
Fixpoint run_chunk (c : list seed) (g : gen) : list vec * gen :=
  match c with
  | [] => ([], g)
  | sd :: rest => let (v, g1) := single_shot (Some sd) g in let (vs, g2) := run_chunk rest g1 in (v :: vs, g2)
  end.

(* A schedule: which worker takes which chunk, the (linearised) order in which chunks are executed, and the order in
   which finished chunks reach the parent.  Workers are identified by numbers; ws gives each worker's generator. *)
Record sched := mksched { sc_assign : nat -> nat; sc_exec : list nat; sc_deliver : list nat }.
Definition upd (ws : nat -> gen) (w : nat) (g : gen) : nat -> gen := fun w' => if Nat.eqb w' w then g else ws w'.

Fixpoint exec_loop (order : list nat) (chs : list (list seed)) (assign : nat -> nat) (ws : nat -> gen) : list (nat * list vec) :=
  match order with
  | [] => []
  | c :: rest =>
      let w := assign c in
      let (vs, g') := run_chunk (nth c chs []) (ws w) in
      (c, vs) :: exec_loop rest chs assign (upd ws w g')
  end.
Fixpoint find_chunk (c : nat) (out : list (nat * list vec)) : list vec :=
  match out with [] => [] | (c', vs) :: r => if Nat.eqb c c' then vs else find_chunk c r end.

(* for shot_result in p.imap_unordered(...): r_sum += shot_result *)
Fixpoint acc_list (vs : list vec) (r_sum : vec) (log : list vec) : res (vec * list vec) :=
  match vs with
  | [] => Ok (r_sum, log)
  | v :: rest => r <- iadd r_sum v ;; acc_list rest r (v :: log)
  end.
Fixpoint deliver_loop (deliver : list nat) (out : list (nat * list vec)) (r_sum : vec) (log : list vec) : res (vec * list vec) :=
  match deliver with
  | [] => Ok (r_sum, rev log)
  | c :: rest => x <- acc_list (find_chunk c out) r_sum log ;; deliver_loop rest out (fst x) (snd x)
  end.

Definition perform_par (shots : Z) (len : N) (cpu : Z) (g : gen) (sc : sched) (ws : nat -> gen) : res (vec * gen * list vec) :=
  let W := n_processes cpu in
  let cs := chunksize shots W in
  let (seeds, g') := draw_seeds (Z.to_nat shots) g in
  let chs := chunks (Z.to_nat cs) seeds in
  let out := exec_loop (sc_exec sc) chs (sc_assign sc) ws in
  x <- deliver_loop (sc_deliver sc) out (zeros len) [] ;;
  Ok (mean shots (fst x), g', snd x).

End Shots.
Arguments Ret {sample A} a.
Arguments Draw {sample A} k.
