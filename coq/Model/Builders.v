(* Executable models of the circuit-builder state machines of quantum_gates/_simulation/circuit.py
   (placement and bookkeeping only; independent of matrix VALUES):

     grid class     Circuit                                  (circuit.py:12-322)     gstate / gstep
     layered class  AlternativeCircuit = StandardCircuit / EfficientCircuit / OneCircuit
                                                             (circuit.py:325-594, 876-903)  lstate / lstep
     index class    BinaryCircuit                            (circuit.py:597-873)    bstate / bstep
   plus the part of BinaryBackend.statevector -> Optimizer.optimize that mutates the caller's list in place
   (circ_optimizer.py:70-74) and the shots loop of MrAndersonSimulator._perform_simulation as far as object
   identity / copying is concerned (simulator.py:263-316).

   Gate matrices are an abstract type M ("tokens"): an operation carries the object the gate set returned.
   Python exceptions are Err e (Base/Res.v).  Python list indexing (negative indices wrap, otherwise IndexError)
   is pyidx.  Virtual-Z phases are kept symbolically as pairs (a, b) meaning a + b*(pi/2).
   No proofs in this file. *)
From Coq Require Import List Bool ZArith Arith.
Require Import QG.Base.Res.
Import ListNotations.
Local Open Scope Z_scope.

(* ------------------------------------------------------------------ Python lists *)
Definition pyidx (i : Z) (len : nat) : res nat :=
  if (0 <=? i) && (i <? Z.of_nat len) then Ok (Z.to_nat i)
  else if (i <? 0) && (- Z.of_nat len <=? i) then Ok (Z.to_nat (i + Z.of_nat len))
  else Err IndexError.

Fixpoint set_nth {A} (k : nat) (x : A) (l : list A) : list A :=
  match l, k with
  | [], _ => []
  | _ :: r, O => x :: r
  | y :: r, S k' => y :: set_nth k' x r
  end.

Definition lget {A} (l : list A) (i : Z) : res A :=
  k <- pyidx i (length l) ;;
  match nth_error l k with Some x => Ok x | None => Err IndexError end.
Definition lset {A} (l : list A) (i : Z) (x : A) : res (list A) :=
  k <- pyidx i (length l) ;; Ok (set_nth k x l).

(* ------------------------------------------------------------------ phases: a + b*(pi/2) *)
Notation phase := (Z * Z)%type (only parsing).
Definition p0 : phase := (0, 0).
Definition padd (p q : phase) : phase := (fst p + fst q, snd p + snd q).
Definition pneg (p : phase) : phase := (- fst p, - snd p).
Definition quarter (k : Z) : phase := (0, k).          (* k * pi/2 *)

(* what `apply` can be handed: a (2,2) array, a (4,4) array, an array of another shape, not an array *)
Inductive gkind := K2 | K4 | KOther | KNotArray.
(* which layer backend an AlternativeCircuit was constructed with *)
Inductive backend_kind := BkStandard | BkEfficient | BkOnes.

Section Builders.
Variable M : Type.       (* gate matrices as opaque objects *)
Variable idM : M.        (* the array np.array([[1,0],[0,1]]) that I(i) creates *)

(* One public method call.  The gate-set call itself is outside this model (C08 ties its arguments); an operation
   carries the matrix object t that call returned. *)
Inductive op :=
| OApply (g : gkind) (t : M) (i : Z)        (* apply(gate, i); bitflip / relaxation / depolarizing (i, ...) with g = K2 *)
| OApplyJ (g : gkind) (t : M) (i j : Z)     (* BinaryCircuit.apply(gate, i, j) *)
| OI (i : Z)                                (* I(i) *)
| ORz (i : Z) (theta : phase)               (* Rz(i, theta) *)
| OX (t : M) (i : Z)                        (* X / SX (i, ...): reads phi[i] for the gate-set call, then apply *)
| OCNOT (t : M) (i k : Z)                   (* CNOT(i, k, ...): t is CNOT(...) when i < k, CNOT_inv(...) otherwise *)
| OECR (t : M) (i k : Z)                    (* ECR(i, k, ...) likewise *)
| OEval                                     (* statevector(psi0) *)
| OReset.                                   (* reset() *)

(* entries of a layer: a 2x2 matrix, a 4x4 matrix, or the scalar placeholder 1 *)
Inductive entry := En2 (t : M) | En4 (t : M) | EnOne.
Notation layer := (list entry) (only parsing).

(* phase bookkeeping shared by all classes.  CNOT: i < k: phi[i] -= pi/2;  otherwise phi[i] += pi/2 + pi, then
   phi[k] += pi/2 (read after the first update, as in the code).  ECR: none. *)
Definition cnot_phases (phi : list phase) (i k : Z) : res (list phase) :=
  pi_ <- lget phi i ;;
  if i <? k then lset phi i (padd pi_ (quarter (-1)))
  else
    phi1 <- lset phi i (padd (padd pi_ (quarter 1)) (quarter 2)) ;;
    pk <- lget phi1 k ;;
    lset phi1 k (padd pk (quarter 1)).
(* both phases are read to build the gate-set call, whatever the direction *)
Definition read2 (phi : list phase) (i k : Z) : res unit :=
  _ <- lget phi i ;; _ <- lget phi k ;; Ok tt.
Definition rz_phases (phi : list phase) (i : Z) (theta : phase) : res (list phase) :=
  p <- lget phi i ;; lset phi i (padd p theta).

(* ================================================================== grid class: Circuit *)
Record gstate := mkG {
  g_n : nat; g_depth : nat;           (* nqubit, depth *)
  g_j : nat; g_s : nat;               (* j, s *)
  g_phi : list phase;                 (* phi *)
  g_grid : list (list entry);         (* circuit[qubit][column] *)
  g_arr : bool                        (* circuit has been replaced by a numpy object array (by statevector) *)
}.
Definition g_init (n depth : nat) : gstate :=
  mkG n depth 0 0 (repeat p0 n) (repeat (repeat EnOne depth) n) false.
Definition g_ctor_args (s : gstate) : nat * nat := (g_n s, g_depth s).
Definition g_reset (s : gstate) : gstate :=
  mkG (g_n s) (g_depth s) 0 0 (repeat p0 (g_n s)) (repeat (repeat EnOne (g_depth s)) (g_n s)) false.

(* self.circuit[i][j] = e *)
Definition g_place (grid : list (list entry)) (i : Z) (j : nat) (e : entry) : res (list (list entry)) :=
  row <- lget grid i ;;
  row' <- lset row (Z.of_nat j) e ;;
  lset grid i row'.

Definition g_apply (s : gstate) (g : gkind) (t : M) (i : Z) : res gstate :=
  match g with
  | K2 =>
      if (g_s s <? g_n s)%nat then
        grid <- g_place (g_grid s) i (g_j s) (En2 t) ;;
        Ok (mkG (g_n s) (g_depth s) (g_j s) (S (g_s s)) (g_phi s) grid (g_arr s))
      else if (g_s s =? g_n s)%nat then
        grid <- g_place (g_grid s) i (S (g_j s)) (En2 t) ;;
        Ok (mkG (g_n s) (g_depth s) (S (g_j s)) 1 (g_phi s) grid (g_arr s))
      else Ok s
  | _ => Err ValueError
  end.

Definition g_two (s : gstate) (cnot : bool) (t : M) (i k : Z) : res gstate :=
  if negb (Z.abs (i - k) =? 1) then Err AssertionError
  else
    let body (j s' : nat) :=
      _ <- read2 (g_phi s) i k ;;
      grid <- g_place (g_grid s) i j (En4 t) ;;
      phi <- (if cnot then cnot_phases (g_phi s) i k else Ok (g_phi s)) ;;
      Ok (mkG (g_n s) (g_depth s) j s' phi grid (g_arr s)) in
    if (g_s s <? g_n s)%nat then body (g_j s) (S (S (g_s s)))
    else if (g_s s =? g_n s)%nat then body (S (g_j s)) 2%nat
    else Ok s.

(* the columns of the grid: what statevector multiplies together, first column first *)
Definition g_columns (s : gstate) : list (list entry) :=
  map (fun c => map (fun row => nth c row EnOne) (g_grid s)) (seq 0 (g_depth s)).
Definition g_content := g_columns.

(* statevector: replaces self.circuit by an object array, then reads column 0 (IndexError when there is none) *)
Definition g_eval (s : gstate) : res (list (list entry) * gstate) :=
  match g_n s, g_depth s with
  | O, _ | _, O => Err IndexError
  | _, _ => Ok (g_columns s, mkG (g_n s) (g_depth s) (g_j s) (g_s s) (g_phi s) (g_grid s) true)
  end.

Definition gstep (s : gstate) (o : op) : res (gstate * option (list (list entry))) :=
  match o with
  | OApply g t i => s' <- g_apply s g t i ;; Ok (s', None)
  | OApplyJ _ _ _ _ => Err TypeError
  | OI i => s' <- g_apply s K2 idM i ;; Ok (s', None)
  | ORz i th => phi <- rz_phases (g_phi s) i th ;;
                Ok (mkG (g_n s) (g_depth s) (g_j s) (g_s s) phi (g_grid s) (g_arr s), None)
  | OX t i => _ <- lget (g_phi s) i ;; s' <- g_apply s K2 t i ;; Ok (s', None)
  | OCNOT t i k => s' <- g_two s true t i k ;; Ok (s', None)
  | OECR t i k => s' <- g_two s false t i k ;; Ok (s', None)
  | OEval => r <- g_eval s ;; Ok (snd r, Some (fst r))
  | OReset => Ok (g_reset s, None)
  end.

(* ================================================================== layered class: AlternativeCircuit & subclasses *)
Record lstate := mkL {
  l_n : nat; l_bk : backend_kind;      (* nqubit, _BackendClass (and the stateless _backend built from it) *)
  l_phi : list phase;                  (* phi *)
  l_s : nat;                           (* _s *)
  l_mp : list entry;                   (* _mp: the layer under construction *)
  l_mplist : list (list entry)         (* _mp_list: completed layers, oldest first *)
}.
Definition l_init (n : nat) (bk : backend_kind) : lstate := mkL n bk (repeat p0 n) 0 (repeat EnOne n) [].
Definition l_ctor_args (s : lstate) : nat * backend_kind := (l_n s, l_bk s).
Definition l_reset (s : lstate) : lstate := mkL (l_n s) (l_bk s) (repeat p0 (l_n s)) 0 (repeat EnOne (l_n s)) [].

(* after writing a slot: _s += w; if _s == nqubit: _update_mp_list() *)
Definition l_bump (s : lstate) (phi : list phase) (mp : list entry) (w : nat) : lstate :=
  let s' := (l_s s + w)%nat in
  if (s' =? l_n s)%nat then mkL (l_n s) (l_bk s) phi 0 (repeat EnOne (l_n s)) (l_mplist s ++ [mp])
  else mkL (l_n s) (l_bk s) phi s' mp (l_mplist s).

Definition l_apply (s : lstate) (g : gkind) (t : M) (i : Z) : res lstate :=
  match g with
  | K2 => mp <- lset (l_mp s) i (En2 t) ;; Ok (l_bump s (l_phi s) mp 1)
  | _ => Err ValueError
  end.

Definition l_two (s : lstate) (cnot : bool) (t : M) (i k : Z) : res lstate :=
  _ <- read2 (l_phi s) i k ;;
  mp <- lset (l_mp s) i (En4 t) ;;
  phi <- (if cnot then cnot_phases (l_phi s) i k else Ok (l_phi s)) ;;
  Ok (l_bump s phi mp 2).

Definition l_content (s : lstate) : list (list entry) := l_mplist s.
(* statevector: hands _mp_list to the backend (which deep-copies); no field changes *)
Definition l_eval (s : lstate) : res (list (list entry) * lstate) := Ok (l_mplist s, s).

Definition lstep (s : lstate) (o : op) : res (lstate * option (list (list entry))) :=
  match o with
  | OApply g t i => s' <- l_apply s g t i ;; Ok (s', None)
  | OApplyJ _ _ _ _ => Err TypeError
  | OI i => s' <- l_apply s K2 idM i ;; Ok (s', None)
  | ORz i th => phi <- rz_phases (l_phi s) i th ;;
                Ok (mkL (l_n s) (l_bk s) phi (l_s s) (l_mp s) (l_mplist s), None)
  | OX t i => _ <- lget (l_phi s) i ;; s' <- l_apply s K2 t i ;; Ok (s', None)
  | OCNOT t i k => s' <- l_two s true t i k ;; Ok (s', None)
  | OECR t i k => s' <- l_two s false t i k ;; Ok (s', None)
  | OEval => r <- l_eval s ;; Ok (snd r, Some (fst r))
  | OReset => Ok (l_reset s, None)
  end.

(* ================================================================== index class: BinaryCircuit *)
Notation bitem := (M * list Z)%type (only parsing).      (* [gate, [i, j]] ; j = -1 marks "single qubit" *)
Record bstate := mkB {
  b_n : nat;
  b_layout_arg : option (list Z);      (* the qubit_layout constructor argument *)
  b_phi : list phase;
  b_items : list (M * list Z)          (* _info_gates_list *)
}.
(* qubit_layout if qubit_layout else np.arange(nqubit) *)
Definition b_layout (s : bstate) : list Z :=
  match b_layout_arg s with
  | Some (x :: l) => x :: l
  | _ => map Z.of_nat (seq 0 (b_n s))
  end.
Definition b_init (n : nat) (layout : option (list Z)) : bstate := mkB n layout (repeat p0 n) [].
Definition b_ctor_args (s : bstate) : nat * option (list Z) := (b_n s, b_layout_arg s).
Definition b_reset (s : bstate) : bstate := mkB (b_n s) (b_layout_arg s) (repeat p0 (b_n s)) [].

Definition b_apply (s : bstate) (phi : list phase) (g : gkind) (t : M) (i j : Z) : res bstate :=
  match g with
  | KNotArray => Err ValueError
  | K4 => if j =? -1 then Err ValueError else Ok (mkB (b_n s) (b_layout_arg s) phi (b_items s ++ [(t, [i; j])]))
  | _ => Ok (mkB (b_n s) (b_layout_arg s) phi (b_items s ++ [(t, [i; j])]))
  end.

Definition b_two (s : bstate) (cnot : bool) (t : M) (i k : Z) : res bstate :=
  _ <- read2 (b_phi s) i k ;;
  phi <- (if cnot then cnot_phases (b_phi s) i k else Ok (b_phi s)) ;;
  if i <? k then b_apply s phi K4 t i k else b_apply s phi K4 t k i.

(* Optimizer.optimize, lines 70-74: [q, -1] becomes [q], in place, in the caller's list *)
Definition norm_item (it : M * list Z) : M * list Z :=
  match snd it with
  | [q; m] => if m =? -1 then (fst it, [q]) else it
  | _ => it
  end.
Definition b_content (s : bstate) : list (M * list Z) := map norm_item (b_items s).
Definition b_eval (s : bstate) : res (list (M * list Z) * bstate) :=
  match b_items s with
  | [] => Ok ([], s)                                   (* returns psi0 itself; nothing is touched *)
  | _ => Ok (map norm_item (b_items s), mkB (b_n s) (b_layout_arg s) (b_phi s) (map norm_item (b_items s)))
  end.

Definition bstep (s : bstate) (o : op) : res (bstate * option (list (M * list Z))) :=
  match o with
  | OApply g t i => s' <- b_apply s (b_phi s) g t i (-1) ;; Ok (s', None)
  | OApplyJ g t i j => s' <- b_apply s (b_phi s) g t i j ;; Ok (s', None)
  | OI i => s' <- b_apply s (b_phi s) K2 idM i (-1) ;; Ok (s', None)
  | ORz i th => phi <- rz_phases (b_phi s) i th ;; Ok (mkB (b_n s) (b_layout_arg s) phi (b_items s), None)
  | OX t i => _ <- lget (b_phi s) i ;; s' <- b_apply s (b_phi s) K2 t i (-1) ;; Ok (s', None)
  | OCNOT t i k => s' <- b_two s true t i k ;; Ok (s', None)
  | OECR t i k => s' <- b_two s false t i k ;; Ok (s', None)
  | OEval => r <- b_eval s ;; Ok (snd r, Some (fst r))
  | OReset => Ok (b_reset s, None)
  end.

(* ================================================================== histories *)
Section Exec.
Variables (S C : Type) (step : S -> op -> res (S * option C)).
(* run a history; collect what the evaluations returned, oldest first *)
Fixpoint exec (s : S) (h : list op) : res (S * list C) :=
  match h with
  | [] => Ok (s, [])
  | o :: r =>
      x <- step s o ;;
      y <- exec (fst x) r ;;
      Ok (fst y, match snd x with Some c => c :: snd y | None => snd y end)
  end.
End Exec.
Definition gexec := exec gstate (list (list entry)) gstep.
Definition lexec := exec lstate (list (list entry)) lstep.
Definition bexec := exec bstate (list (M * list Z)) bstep.

Definition is_eval (o : op) : bool := match o with OEval => true | _ => false end.
Definition is_reset (o : op) : bool := match o with OReset => true | _ => false end.
Definition erase_evals (h : list op) : list op := filter (fun o => negb (is_eval o)) h.

(* ================================================================== the shots loop (simulator.py:263-316) *)
(* A gate set is an object with internal state G (integrator caches, counters, ...) and no access to anything else:
   a call returns a matrix and the successor state.  An instruction says which builder method is invoked and how the
   gate-set call is built from the builder's current phases.  One shot = a freshly constructed builder, a COPY g0 of
   the simulator's gate set, the instruction list, one evaluation. *)
Section Shots.
Variables (G call : Type) (gs_step : G -> call -> M * G).
Variables (S C : Type) (step : S -> op -> res (S * option C)) (phi_of : S -> list phase).

Inductive instr :=
| NG (c : call) (i : Z)                                   (* bitflip / relaxation / depolarizing *)
| NI (i : Z)
| NRz (i : Z) (theta : phase)
| NX (mk : phase -> call) (i : Z)                         (* X / SX: called with -phi[i] *)
| NCNOT (mk mk_inv : phase -> phase -> call) (i k : Z)    (* CNOT / CNOT_inv (phi[i], phi[k], ...) *)
| NECR (mk mk_inv : phase -> phase -> call) (i k : Z).    (* ECR (phi[i], phi[k]) / ECR_inv (phi[k], phi[i]) *)

Definition do_instr (sg : S * G) (x : instr) : res (S * G) :=
  let (s, g) := sg in
  match x with
  | NG c i => let (t, g') := gs_step g c in r <- step s (OApply K2 t i) ;; Ok (fst r, g')
  | NI i => r <- step s (OI i) ;; Ok (fst r, g)
  | NRz i th => r <- step s (ORz i th) ;; Ok (fst r, g)
  | NX mk i => p <- lget (phi_of s) i ;;
               let (t, g') := gs_step g (mk (pneg p)) in r <- step s (OX t i) ;; Ok (fst r, g')
  | NCNOT mk mk_inv i k =>
      pi_ <- lget (phi_of s) i ;; pk <- lget (phi_of s) k ;;
      let (t, g') := gs_step g (if i <? k then mk pi_ pk else mk_inv pi_ pk) in
      r <- step s (OCNOT t i k) ;; Ok (fst r, g')
  | NECR mk mk_inv i k =>
      pi_ <- lget (phi_of s) i ;; pk <- lget (phi_of s) k ;;
      let (t, g') := gs_step g (if i <? k then mk pi_ pk else mk_inv pk pi_) in
      r <- step s (OECR t i k) ;; Ok (fst r, g')
  end.
Fixpoint do_instrs (sg : S * G) (p : list instr) : res (S * G) :=
  match p with [] => Ok sg | x :: r => sg' <- do_instr sg x ;; do_instrs sg' r end.

(* one shot on a fresh builder s0 and a copy g0 of the gate set; returns what statevector saw *)
Definition shot (s0 : S) (g0 : G) (p : list instr) : res C :=
  sg <- do_instrs (s0, g0) p ;;
  r <- step (fst sg) OEval ;;
  match snd r with Some c => Ok c | None => Err TypeError end.

(* the sequential shots loop: every shot gets copy.deepcopy(self.gates) and a new CircuitClass(...) object;
   the simulator object (its gate set) is returned unchanged *)
Fixpoint shots_loop (s0 : S) (g : G) (p : list instr) (shots : nat) : res (list C) :=
  match shots with
  | O => Ok []
  | Datatypes.S m => c <- shot s0 g p ;; r <- shots_loop s0 g p m ;; Ok (c :: r)
  end.
Definition run (s0 : S) (sim_gates : G) (p : list instr) (shots : nat) : res (list C * G) :=
  r <- shots_loop s0 sim_gates p shots ;; Ok (r, sim_gates).

(* the same loop WITHOUT the per-shot copy (the gate-set object is shared by all shots and by later runs):
   used only to show that the copy is what makes runs repeatable *)
Definition shot_shared (s0 : S) (g0 : G) (p : list instr) : res (C * G) :=
  sg <- do_instrs (s0, g0) p ;;
  r <- step (fst sg) OEval ;;
  match snd r with Some c => Ok (c, snd sg) | None => Err TypeError end.
Fixpoint shots_loop_shared (s0 : S) (g : G) (p : list instr) (shots : nat) : res (list C * G) :=
  match shots with
  | O => Ok ([], g)
  | Datatypes.S m => cg <- shot_shared s0 g p ;; r <- shots_loop_shared s0 (snd cg) p m ;; Ok (fst cg :: fst r, snd r)
  end.
End Shots.

End Builders.

Arguments En2 {M} t.
Arguments En4 {M} t.
Arguments EnOne {M}.
