(* Executable model of DeviceParameters.load_from_backend (device_parameters.py:129-192).  No proofs here.

   Values are tokens of an arbitrary type V (the function only moves calibration values, never computes with them);
   vzero is the 0.0 of np.zeros.  The backend is what the code reads from it:
     kind                     isinstance dispatch: FakeBackendV2 / BackendV2 / anything else
     q_t1 .. q_rolen          prop.t1(q), prop.t2(q), prop.gate_error('x',[q]), prop.readout_error(q),
                              prop.readout_length(q); None = Qiskit raises BackendPropertyError (no such calibration)
     cfg_dt                   config.dt; None = the configuration has no dt (AttributeError)
     basis                    config.basis_gates (only the names 'ecr' and 'cx' matter)
     gate_props g             prop.gate_property(g): the dict {(i,j): {'gate_error': (e,_), 'gate_length': (l,_)}}
                              in insertion order; None = BackendPropertyError
     meta lay                 the metadata dict built from the configuration and the layout
   The result is the DeviceParameters object of Model/DevParams.v (Python lists modelled as 1-D arrays). *)
From Coq Require Import List Bool Arith.
Require Import QG.Base.Res QG.Model.DevParams.
Import ListNotations.

Inductive bkind := FakeV2 | V2 | NotABackend.
Inductive gname := G_ecr | G_cx | G_other.

Section C.
Variable V : Type.
Variable M : Type.
Variable vzero : V.

Notation entries := (list ((nat * nat) * (V * V))) (only parsing).

Record backend := mkBackend {
  kind : bkind;
  q_t1 : nat -> option V; q_t2 : nat -> option V; q_xerr : nat -> option V;
  q_roerr : nat -> option V; q_rolen : nat -> option V;
  cfg_dt : option V;
  basis : list gname;
  gate_props : gname -> option (list ((nat * nat) * (V * V)));
  meta : list nat -> M
}.

(* [g(j) for j in self.qubits_layout] *)
Fixpoint lookups (g : nat -> option V) (lay : list nat) : out (list V) :=
  match lay with
  | [] => Done []
  | q :: r => match g q with
              | None => Raise BackendPropertyError
              | Some v => obind (lookups g r) (fun vs => Done (v :: vs))
              end
  end.

(* for x in backend_base: the first 'ecr' or 'cx' decides; Done None = int_info stays None *)
Fixpoint find_native (b : backend) (l : list gname) : out (option (list ((nat * nat) * (V * V)))) :=
  match l with
  | [] => Done None
  | G_ecr :: _ => match gate_props b G_ecr with Some e => Done (Some e) | None => Raise BackendPropertyError end
  | G_cx :: _ => match gate_props b G_cx with Some e => Done (Some e) | None => Raise BackendPropertyError end
  | G_other :: r => find_native b r
  end.

Fixpoint set_nth (i : nat) (v : V) (l : list V) : list V :=
  match l, i with
  | [], _ => []
  | _ :: t, O => v :: t
  | h :: t, S i' => h :: set_nth i' v t
  end.

(* the loop over int_info: entries with an index beyond max_qubit-1 are skipped; tables are row-major m x m *)
Definition fill_step (m : nat) (pt : list V * list V) (e : (nat * nat) * (V * V)) : list V * list V :=
  let '((i, j), (er, ln)) := e in
  if (m - 1 <? i) || (m - 1 <? j) then pt
  else (set_nth (i * m + j) er (fst pt), set_nth (i * m + j) ln (snd pt)).
Definition fill (m : nat) (es : list ((nat * nat) * (V * V))) (pt : list V * list V) : list V * list V :=
  fold_left (fill_step m) es pt.

Definition vec (l : list V) : option (arr V) := Some (mkArr [length l] l).

Definition load_from_backend (lay : list nat) (b : backend) : out (obj V M) :=
  match kind b with
  | NotABackend => Raise (Py ValueError)
  | _ =>
    obind (lookups (q_t1 b) lay) (fun t1 =>
    obind (lookups (q_t2 b) lay) (fun t2 =>
    obind (lookups (q_xerr b) lay) (fun p =>
    obind (lookups (q_roerr b) lay) (fun rout =>
    match cfg_dt b with
    | None => Raise (Py AttributeError)
    | Some dt =>
      obind (lookups (q_rolen b) lay) (fun tm =>
      match lay with
      | [] => Raise (Py ValueError)                         (* np.max of an empty list *)
      | _ =>
        let m := list_max lay + 1 in
        obind (find_native b (basis b)) (fun info =>
        match info with
        | None => Raise (Py ValueError)
        | Some es =>
            let z := repeat vzero (m * m) in
            let pt := if 1 <? m then fill m es (z, z) else (z, z) in
            Done (mkObj lay
                    (R8 (vec t1) (vec t2) (vec p) (vec rout)
                        (Some (mkArr [m; m] (fst pt))) (Some (mkArr [m; m] (snd pt)))
                        (vec tm) (vec [dt]))
                    (Some (meta b lay)))
        end)
      end)
    end))))
  end.

End C.

Arguments mkBackend {V M}.
Arguments kind {V M}. Arguments q_t1 {V M}. Arguments q_t2 {V M}. Arguments q_xerr {V M}. Arguments q_roerr {V M}.
Arguments q_rolen {V M}. Arguments cfg_dt {V M}. Arguments basis {V M}. Arguments gate_props {V M}. Arguments meta {V M}.
