(* C03 — whole noise-free runs of the index-based circuit class (BinaryCircuit), as data and functions.  No proofs here.

   Three layers:
   (A) a CHOICE TABLE (plain data: no ring, no reals): for each two-qubit gate and each outcome of "c < t", in which
       tensor slot the control sits, by how many quarter turns the virtual phases of control and target are shifted,
       and which global phase the noise-free matrix carries; for X / SX the global phase; the textbook matrices as
       tables of symbolic entries.  Proofs/NoiseFreeRunRefl.v checks this table, by reflection, against the model
       REGENERATED from circuit.py + gates.py (gen_handoff and the gen_nf definitions), so the table is what the code does.
   (B) over an arbitrary commutative ring R with named constants: `compile` turns one native instruction into the framed
       operation (Proofs/FrameSim.v: fop) DETERMINED BY THE TABLE, `run_items` is the item list the builder appends
       (matrix in framed form at the CURRENT frame, qubits [lower; higher], nothing for rz), `ideal_items` applies the
       textbook gate on (control, target), rz = diag(a, a e).
   (C) the layered classes: the same matrices stored in complete layers (identity fill), semantics by layer_items.

   Qubit indices are INTERNAL indices 0..n-1 (rank of the physical label; C08 / C14 treat the layout). *)
From Coq Require Import List Bool Arith ZArith.
Require Import QG.Base.State QG.Model.Backends QG.Proofs.FrameSim.
Import ListNotations.

(* ================================================================== (A) the choice table *)
Inductive kind2 := KCX | KECR.
Inductive kind1 := KX | KSX.
(* global phases: 1, i, -i, e^{-i pi/4}, e^{-3 i pi/4} *)
Inductive gph := GOne | GI | GMI | GW1 | GW3.

Record choice2 := mkChoice {
  c_ctl_slot : nat;      (* tensor slot (0 = lower qubit index = more significant) holding the instruction's control *)
  c_shift_c : Z;         (* quarter turns (multiples of pi/2) added to the control's virtual phase *)
  c_shift_t : Z;         (* ... to the target's *)
  c_gph : gph            (* global phase of the noise-free matrix relative to the framed textbook gate *)
}.
(* lt = outcome of "control index < target index" *)
Definition choose2 (k : kind2) (lt : bool) : choice2 :=
  match k, lt with
  | KCX, true => mkChoice 0 (-1) 0 GI
  | KCX, false => mkChoice 1 3 1 GW3
  | KECR, true => mkChoice 0 0 0 GOne
  | KECR, false => mkChoice 1 0 0 GOne
  end.
Definition choose1 (k : kind1) : gph := match k with KX => GMI | KSX => GW1 end.

(* symbolic matrix entries: 0, 1, 1/sqrt2, i/sqrt2, -i/sqrt2, (1+i)/2, (1-i)/2 *)
Inductive ent := E0 | E1 | Eh | Ehi | Emhi | Ep | Em.
(* textbook gates; row / column index = 2 * (bit of slot 0) + (bit of slot 1) *)
Definition CX01t := [[E1;E0;E0;E0];[E0;E1;E0;E0];[E0;E0;E0;E1];[E0;E0;E1;E0]].       (* control = slot 0 *)
Definition CX10t := [[E1;E0;E0;E0];[E0;E0;E0;E1];[E0;E0;E1;E0];[E0;E1;E0;E0]].       (* control = slot 1 *)
Definition ECR01t := [[E0;E0;Eh;Ehi];[E0;E0;Ehi;Eh];[Eh;Emhi;E0;E0];[Emhi;Eh;E0;E0]]. (* control = slot 0 *)
Definition ECR10t := [[E0;Eh;E0;Ehi];[Eh;E0;Emhi;E0];[E0;Ehi;E0;Eh];[Emhi;E0;Eh;E0]]. (* control = slot 1 *)
Definition Xt := [[E0;E1];[E1;E0]].
Definition SXt := [[Ep;Em];[Em;Ep]].
Definition table2 (k : kind2) (ctl_slot : nat) : list (list ent) :=
  match k, ctl_slot with
  | KCX, O => CX01t | KCX, _ => CX10t
  | KECR, O => ECR01t | KECR, _ => ECR10t
  end.
Definition table1 (k : kind1) : list (list ent) := match k with KX => Xt | KSX => SXt end.

(* ================================================================== native instructions *)
Section Instr.
Variable A : Type.      (* rz angles *)
Inductive instr :=
| NRz (q : nat) (theta : A)
| NX (q : nat)
| NSX (q : nat)
| NCX (c t : nat)       (* control, target: any two distinct indices, adjacent or not *)
| NECR (c t : nat).
Definition wf_instr (n : nat) (x : instr) : Prop :=
  match x with
  | NRz q _ | NX q | NSX q => q < n
  | NCX c t | NECR c t => c < n /\ t < n /\ c <> t
  end.
(* the layered classes accept adjacent pairs only *)
Definition adjacent_instr (x : instr) : Prop :=
  match x with
  | NCX c t | NECR c t => c = S t \/ t = S c
  | _ => True
  end.
End Instr.
Arguments NRz {A} q theta. Arguments NX {A} q. Arguments NSX {A} q. Arguments NCX {A} c t. Arguments NECR {A} c t.
Arguments wf_instr {A} n x. Arguments adjacent_instr {A} x.

(* ================================================================== (B) over a ring *)
(* the named constants.  In the complex numbers: k_i = i, k_h = 1/sqrt 2, k_w1 = e^{-i pi/4}, k_w3 = e^{-3 i pi/4},
   k_e theta = e^{i theta} (the factor rz multiplies the frame entry with), k_a theta = e^{-i theta/2} (so that the
   ideal rz is diag(a, a e) = diag(e^{-i theta/2}, e^{i theta/2})); *i = the inverses. *)
Record consts (R A : Type) := mkConsts {
  k_i : R; k_h : R;
  k_w1 : R; k_w1i : R; k_w3 : R; k_w3i : R;
  k_e : A -> R; k_ei : A -> R; k_a : A -> R; k_ai : A -> R
}.
Arguments k_i {R A}. Arguments k_h {R A}. Arguments k_w1 {R A}. Arguments k_w1i {R A}. Arguments k_w3 {R A}.
Arguments k_w3i {R A}. Arguments k_e {R A}. Arguments k_ei {R A}. Arguments k_a {R A}. Arguments k_ai {R A}.

Section Run.
Variable R : Type.
Variables (rO rI : R) (radd rmul : R -> R -> R) (ropp : R -> R).
Variable A : Type.
Variable K : consts R A.
Infix "+" := radd. Infix "*" := rmul.
Notation frame := (frame R). Notation fop := (fop R). Notation sstate := (FrameSim.sstate R). Notation item := (item R).
Notation instr := (instr A).
Notation ci := (k_i K).

(* values of the table's symbols *)
Definition gph_val (g : gph) : R :=
  match g with GOne => rI | GI => ci | GMI => ropp ci | GW1 => k_w1 K | GW3 => k_w3 K end.
Definition gph_inv (g : gph) : R :=
  match g with GOne => rI | GI => ropp ci | GMI => ci | GW1 => k_w1i K | GW3 => k_w3i K end.
(* e^{i k pi/2} = i^k *)
Definition iq (k : Z) : R :=
  match (k mod 4)%Z with 0%Z => rI | 1%Z => ci | 2%Z => ropp rI | _ => ropp ci end.
Definition ent_val (e : ent) : R :=
  match e with
  | E0 => rO | E1 => rI | Eh => k_h K | Ehi => k_h K * ci | Emhi => ropp (k_h K * ci)
  | Ep => (k_h K * k_h K) * (rI + ci) | Em => (k_h K * k_h K) * (rI + ropp ci)
  end.
Definition b2n (b : bool) : nat := if b then 1 else 0.
Definition tab_entry (t : list (list ent)) (r c : nat) : R := ent_val (nth c (nth r t []) E0).
Definition mat2 (t : list (list ent)) : m2 R := fun r c => tab_entry t (b2n r) (b2n c).
Definition mat4 (t : list (list ent)) : m4 R :=
  fun r c => tab_entry t (2 * b2n (fst r) + b2n (snd r)) (2 * b2n (fst c) + b2n (snd c)).
Definition gate1 (k : kind1) : m2 R := mat2 (table1 k).
Definition gate2 (k : kind2) (ctl_slot : nat) : m4 R := mat4 (table2 k ctl_slot).

(* (a) the framed operation the simulator performs for one instruction, at the current frame (f, fi = its inverse).
   Slot order = (lower index, higher index); K oriented by the control's slot; the new frame entries are the old ones
   times i^(shift) — all read off the choice table. *)
Definition compile2 (f fi : frame) (k : kind2) (c t : nat) : fop :=
  let lt := c <? t in
  let ch := choose2 k lt in
  let uc := f c * iq (c_shift_c ch) in let uci := fi c * iq (- c_shift_c ch) in
  let ut := f t * iq (c_shift_t ch) in let uti := fi t * iq (- c_shift_t ch) in
  let gam := gph_val (c_gph ch) in
  let G := gate2 k (c_ctl_slot ch) in
  if lt then Op2 R c t gam G uc uci ut uti else Op2 R t c gam G ut uti uc uci.
Definition compile (f fi : frame) (x : instr) : fop :=
  match x with
  | NRz q th => OpZ R q (k_e K th) (k_a K th) (k_ai K th)
  | NX q => Op1 R q (gph_val (choose1 KX)) (gate1 KX)
  | NSX q => Op1 R q (gph_val (choose1 KSX)) (gate1 KSX)
  | NCX c t => compile2 f fi KCX c t
  | NECR c t => compile2 f fi KECR c t
  end.

(* the frame and its inverse after the instruction.  (FrameSim.sim_step leaves the inverse frame alone on OpZ; the
   simulator's frame is e^{i phi}, whose inverse e^{-i phi} changes with phi, so the inverse is updated here.) *)
Definition fstep (ff : frame * frame) (x : instr) : frame * frame :=
  let (f, fi) := ff in
  match compile f fi x with
  | OpZ _ q e _ _ =>
      (fupd R f q (f q * e), match x with NRz _ th => fupd R fi q (fi q * k_ei K th) | _ => fi end)
  | Op1 _ _ _ _ => (f, fi)
  | Op2 _ q1 q2 _ _ u1 ui1 u2 ui2 => (fupd R (fupd R f q1 u1) q2 u2, fupd R (fupd R fi q1 ui1) q2 ui2)
  end.
(* one instruction on (frame, inverse frame, state): FrameSim's sim_step on the compiled operation, with the inverse
   frame kept in step *)
Definition nf_step (s : sstate) (x : instr) : sstate :=
  let ff := fstep (s_f R s, s_fi R s) x in
  {| s_f := fst ff; s_fi := snd ff;
     s_psi := s_psi R (sim_step R rI radd rmul s (compile (s_f R s) (s_fi R s) x)) |}.

(* (b) what the builder appends for the operation: nothing for a virtual rotation, else the framed matrix *)
Definition item_of (f fi : frame) (o : fop) : list item :=
  match o with
  | OpZ _ _ _ _ _ => []
  | Op1 _ q gam G => [It1 (framed1 R rI rmul f fi q gam G) q]
  | Op2 _ q1 q2 gam G _ ui1 _ ui2 => [It2 (framed2 R rI rmul f q1 q2 gam G ui1 ui2) q1 q2]
  end.
Fixpoint run_items_from (ff : frame * frame) (p : list instr) : list item :=
  match p with
  | [] => []
  | x :: r => item_of (fst ff) (snd ff) (compile (fst ff) (snd ff) x) ++ run_items_from (fstep ff x) r
  end.
(* a fresh circuit object: all virtual phases zero = frame of ones *)
Definition ff_one : frame * frame := (f_one R rI, f_one R rI).
Definition run_items (p : list instr) : list item := run_items_from ff_one p.
Definition s_one (psi : state R) : sstate := {| s_f := f_one R rI; s_fi := f_one R rI; s_psi := psi |}.

(* (c) the ideal circuit: textbook gates, two-qubit gates on the ordered pair (control, target) *)
Definition ideal_item (x : instr) : item :=
  match x with
  | NRz q th => It1 (diag2 R rO (k_a K th) (k_a K th * k_e K th)) q
  | NX q => It1 (gate1 KX) q
  | NSX q => It1 (gate1 KSX) q
  | NCX c t => It2 (gate2 KCX 0) c t
  | NECR c t => It2 (gate2 KECR 0) c t
  end.
Definition ideal_items (p : list instr) : list item := map ideal_item p.
(* the same gates written on (lower, higher) with the orientation of the table: what FrameSim's ideal_step applies *)
Definition oriented_item (x : instr) : item :=
  match x with
  | NCX c t => if c <? t then It2 (gate2 KCX 0) c t else It2 (gate2 KCX 1) t c
  | NECR c t => if c <? t then It2 (gate2 KECR 0) c t else It2 (gate2 KECR 1) t c
  | _ => ideal_item x
  end.
(* the global scalar an instruction contributes *)
Definition iscal (x : instr) : R :=
  match x with
  | NRz _ th => k_ai K th
  | NX _ => gph_val (choose1 KX)
  | NSX _ => gph_val (choose1 KSX)
  | NCX c t => gph_val (c_gph (choose2 KCX (c <? t)))
  | NECR c t => gph_val (c_gph (choose2 KECR (c <? t)))
  end.
Definition gscalar (p : list instr) : R := fold_left (fun g x => g * iscal x) p rI.

(* ================================================================== (C) layered classes *)
(* Every instruction fills one complete layer (the simulator calls I(k) on all other qubits; rz stores nothing):
   row q holds the 2x2 matrix; for a two-qubit gate the row of the CONTROL holds the 4x4 matrix and the target's row
   keeps the placeholder 1; all other rows hold the identity. *)
Notation entry := (entry R).
Definition id_entry : entry := @En2 R (id2 R rO rI).
Definition layer_of (n : nat) (f fi : frame) (o : fop) (ctl : nat) : list (list entry) :=
  match o with
  | OpZ _ _ _ _ _ => []
  | Op1 _ q gam G => [map (fun k => if k =? q then @En2 R (framed1 R rI rmul f fi q gam G) else id_entry) (seq 0 n)]
  | Op2 _ q1 q2 gam G _ ui1 _ ui2 =>
      [map (fun k => if k =? ctl then @En4 R (framed2 R rI rmul f q1 q2 gam G ui1 ui2)
                     else if (k =? q1) || (k =? q2) then @EnOne R else id_entry) (seq 0 n)]
  end.
Definition ctl_of (x : instr) : nat := match x with NCX c _ | NECR c _ => c | NRz q _ | NX q | NSX q => q end.
Fixpoint run_layers_from (n : nat) (ff : frame * frame) (p : list instr) : list (list entry) :=
  match p with
  | [] => []
  | x :: r => layer_of n (fst ff) (snd ff) (compile (fst ff) (snd ff) x) (ctl_of x) ++ run_layers_from n (fstep ff x) r
  end.
Definition run_layers (n : nat) (p : list instr) : list (list entry) := run_layers_from n ff_one p.

End Run.
