(* C18 — the bundled benchmark circuit generators of quantum_gates/_utility/quantum_algorithms.py (lines 8-102)
   as executable Gallina functions of the qubit count, mirroring the Python statement by statement.
   A circuit is the list of instructions in the order Qiskit records them in `circ.data`.
   No proofs in this file.  Tie to the code: checks/c18.py dumps `circ.data` of the real generators and compares
   with these lists evaluated by vm_compute (exact, n = 1..24 quick / 1..64 thorough). *)
From Coq Require Import List Bool Arith ZArith.
Require Import QG.Base.Res QG.Base.State.
Import ListNotations.

(* Instructions.  `CP k c t` is qiskit `cp(+pi/2^k, c, t)`, `CPinv k c t` is `cp(-pi/2^k, c, t)`;
   `Barrier qs` is ONE barrier instruction on the listed qubits; `Measure q c` measures qubit q into clbit c. *)
Inductive gate :=
| H (q : nat)
| CP (k : nat) (c t : nat)
| CPinv (k : nat) (c t : nat)
| SWAP (a b : nat)
| CX (c t : nat)
| Barrier (qs : list nat)
| Measure (q c : nat).

(* ---- QuantumCircuit.inverse(): instructions reversed, each replaced by its inverse.
   H, SWAP, CX, barrier are their own inverses, cp(theta) -> cp(-theta); `measure` has no inverse:
   qiskit raises CircuitError (no entry in the shared enum; recorded as ValueError).  The generators only ever
   invert measurement-free circuits (theorem C18_hrqft_ok). *)
Definition ginv (g : gate) : res gate :=
  match g with
  | H q => Ok (H q)
  | CP k c t => Ok (CPinv k c t)
  | CPinv k c t => Ok (CP k c t)
  | SWAP a b => Ok (SWAP a b)
  | CX c t => Ok (CX c t)
  | Barrier qs => Ok (Barrier qs)
  | Measure _ _ => Err ValueError
  end.
Fixpoint inverse (l : list gate) : res (list gate) :=
  match l with
  | [] => Ok []
  | g :: r => r' <- inverse r ;; g' <- ginv g ;; Ok (r' ++ [g'])
  end.

(* ---- qft_rotations (lines 28-35 and 88-96: the same code in both generators).
     if n_qubits == 0: return;  n_qubits -= 1;  qft.h(n_qubits);
     for i in range(n_qubits): qft.cp(pi/2**(n_qubits - i), i, n_qubits);   qft_rotations(circ, n_qubits)
   The recursion appends to the one circuit object `qft`, so the result is the concatenation in call order. *)
Fixpoint qft_rotations (n : nat) : list gate :=
  match n with
  | O => []
  | S m => H m :: map (fun i => CP (m - i) i m) (seq 0 m) ++ qft_rotations m
  end.

(* swap_registers (lines 23-26): for qubit in range(n//2): circ.swap(qubit, n-qubit-1) *)
Definition swap_registers (n : nat) : list gate := map (fun q => SWAP q (n - q - 1)) (seq 0 (n / 2)).

(* qft.barrier(range(n)); qft.measure(range(n), range(n)) : one barrier, then n measure instructions *)
Definition finish (n : nat) : list gate := Barrier (seq 0 n) :: map (fun q => Measure q q) (seq 0 n).

(* the circuit of hadamard_reverse_qft_circ before `.inverse()` (lines 37-41) *)
Definition hrqft_pre (n : nat) : list gate := qft_rotations n ++ swap_registers n ++ map H (seq 0 n).

(* hadamard_reverse_qft_circ (lines 8-46) *)
Definition hrqft (n : nat) : res (list gate) := u <- inverse (hrqft_pre n) ;; Ok (u ++ finish n).

(* ghz_circ (lines 49-73): h(0); for j in range(1, n): cx(0, j); barrier; measure *)
Definition ghz_unitary (n : nat) : list gate := H 0 :: map (fun j => CX 0 j) (seq 1 (n - 1)).
Definition ghz (n : nat) : list gate := ghz_unitary n ++ finish n.

(* qft_circ (lines 76-102) *)
Definition qft (n : nat) : list gate := qft_rotations n ++ finish n.

(* the classical register wiring: (qubit, clbit) of every measure instruction, in order *)
Definition measures_of (l : list gate) : list (nat * nat) :=
  flat_map (fun g => match g with Measure q c => [(q, c)] | _ => [] end) l.
(* the instructions that act on the state *)
Definition is_unitary (g : gate) : bool :=
  match g with Barrier _ | Measure _ _ => false | _ => true end.

(* ---- gate matrices, as tables of symbolic entries (so the check can print them with vm_compute and feed exactly
   these tables to its numerical comparison with qiskit.quantum_info.Operator).
   Conventions of Base/State.v: m2 = row bit -> column bit; m4 = (first qubit, second qubit) row -> column. *)
Inductive ent := E0 | E1 | Eh | Emh | Ew (positive : bool) (k : nat).
   (* Eh = 1/sqrt 2, Emh = -1/sqrt 2, Ew true k = exp(+i pi/2^k), Ew false k = exp(-i pi/2^k) *)
Definition Hs (r c : bool) : ent := if r && c then Emh else Eh.
Definition CPs (pos : bool) (k : nat) (r c : bool * bool) : ent :=
  if Bool.eqb (fst r) (fst c) && Bool.eqb (snd r) (snd c) then (if fst r && snd r then Ew pos k else E1) else E0.
Definition SWs (r c : bool * bool) : ent :=
  if Bool.eqb (fst r) (snd c) && Bool.eqb (snd r) (fst c) then E1 else E0.
(* first qubit of the pair = control *)
Definition CXs (r c : bool * bool) : ent :=
  if Bool.eqb (fst r) (fst c) && Bool.eqb (snd r) (xorb (snd c) (fst c)) then E1 else E0.

(* ---- semantics over a commutative ring with the phase-ring interface:
   e a k stands for exp(2 pi i a / 2^k), h for 1/sqrt 2 (their laws are hypotheses of the proof sections). *)
Section Sem.
Variable R : Type.
Variables (rO rI : R) (ropp : R -> R).
Variable e : Z -> nat -> R.
Variable h : R.

Definition interp (x : ent) : R :=
  match x with
  | E0 => rO | E1 => rI | Eh => h | Emh => ropp h
  | Ew true k => e 1%Z (S k)          (* exp(i pi/2^k) = e(1/2^(k+1)) *)
  | Ew false k => e (-1)%Z (S k)
  end.

Definition gate_items (g : gate) : list (item R) :=
  match g with
  | H q => [It1 (fun r c => interp (Hs r c)) q]
  | CP k c t => [It2 (fun r c => interp (CPs true k r c)) c t]
  | CPinv k c t => [It2 (fun r c => interp (CPs false k r c)) c t]
  | SWAP a b => [It2 (fun r c => interp (SWs r c)) a b]
  | CX c t => [It2 (fun r c => interp (CXs r c)) c t]
  | Barrier _ => []
  | Measure _ _ => []
  end.
Definition circ_items (l : list gate) : list (item R) := flat_map gate_items l.
End Sem.

(* well-formed instruction on n qubits / n clbits (what QuantumCircuit accepts without raising) *)
Definition wf_gate (n : nat) (g : gate) : Prop :=
  match g with
  | H q => q < n
  | CP _ c t | CPinv _ c t | CX c t | SWAP c t => c < n /\ t < n /\ c <> t
  | Barrier qs => Forall (fun q => q < n) qs
  | Measure q c => q < n /\ c < n
  end.

(* ---- decidable equality, used by the correspondence run *)
Fixpoint natlist_eqb (a b : list nat) : bool :=
  match a, b with [], [] => true | x :: a', y :: b' => Nat.eqb x y && natlist_eqb a' b' | _, _ => false end.
Definition gate_eqb (a b : gate) : bool :=
  match a, b with
  | H q, H q' => Nat.eqb q q'
  | CP k c t, CP k' c' t' | CPinv k c t, CPinv k' c' t' => Nat.eqb k k' && Nat.eqb c c' && Nat.eqb t t'
  | SWAP x y, SWAP x' y' | CX x y, CX x' y' | Measure x y, Measure x' y' => Nat.eqb x x' && Nat.eqb y y'
  | Barrier q, Barrier q' => natlist_eqb q q'
  | _, _ => false
  end.
Fixpoint gates_eqb (a b : list gate) : bool :=
  match a, b with [], [] => true | x :: a', y :: b' => gate_eqb x y && gates_eqb a' b' | _, _ => false end.
