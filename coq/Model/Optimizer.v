(* Executable model of quantum_gates._utility.circ_optimizer.Optimizer (circ_optimizer.py:38-510).

   An item is the Python list [matrix, qubits]; qubits is a Python list of ints (list Z: one-qubit items come as
   [q] or [q,-1], two-qubit items as [q1,q2]; the model is total on every other shape as well).
   Matrices are abstract: the optimizer only ever combines them with  a @ b  (mmul a b),  np.kron(a,b)  (mkron a b),
   np.identity(2)  (mid2)  and  np.identity(4)  (mid4).  The model is instantiated
     - at the free term algebra mterm (below) for the syntactic correspondence run, and
     - at 2x2 / 4x4 matrices over a commutative ring (Proofs/OptimizerSem.v) for the theorems.
   Python exceptions are Err e.  result_k.append(x) inside a loop is written in direct style (x :: rest): the
   loops below produce the appended elements in the order Python appends them, and an exception raised in a later
   iteration discards the partial result exactly as in Python.
   No proofs in this file. *)
From Coq Require Import List Bool Arith ZArith.
Require Import QG.Base.Res.
Import ListNotations.

(* Python list subscript with a non-negative index *)
Definition idx {A} (l : list A) (i : nat) : res A :=
  match nth_error l i with Some x => Ok x | None => Err IndexError end.

(* list == list on lists of ints *)
Fixpoint qs_eqb (a b : list Z) : bool :=
  match a, b with
  | [], [] => true
  | x :: a', y :: b' => Z.eqb x y && qs_eqb a' b'
  | _, _ => false
  end.

(* opt_level_4([]) raises UnboundLocalError (q2_gate_check is never assigned).  Res.err has no constructor for it;
   optimize never reaches it (lists of length <= 2 are returned at level 0), so the outcome is encoded as OutOfFuel
   and the harness maps UnboundLocalError to the same constructor in the per-level family. *)
Definition UnboundLocalError : err := OutOfFuel.

Section Model.
Variable M : Type.
Variables (mmul mkron : M -> M -> M) (mid2 mid4 : M).
Notation mitem := (M * list Z)%type.

Definition len_is (k : nat) (it : mitem) : bool := Nat.eqb (length (snd it)) k.
(* item[1][0], item[1][1] *)
Definition q0 (it : mitem) : res Z := idx (snd it) 0.
Definition q1 (it : mitem) : res Z := idx (snd it) 1.

(* optimize, lines 70-74:  for i in circ_list: if len(i[1]) == 2: if i[1][1] == -1: i[1] = [i[1][0]] *)
Definition norm_item (it : mitem) : mitem :=
  match snd it with
  | [a; b] => if Z.eqb b (-1) then (fst it, [a]) else it
  | _ => it
  end.

(* gate = identity; for j in range(c): gate = gates[j] @ gate *)
Definition fuse_run (idm : M) (l : list mitem) : M := fold_left (fun g it => mmul (fst it) g) l idm.

(* number of leading items of l whose qubit list has length k and equals q
   (levels 1 and 3:  while [c < len and] len(gate_list[c][1]) == k and qubit == gate_list[c][1]: c += 1) *)
Fixpoint run_same (k : nat) (q : list Z) (l : list mitem) : nat :=
  match l with
  | it :: t => if len_is k it && qs_eqb q (snd it) then S (run_same k q t) else O
  | [] => O
  end.

(* one iteration of the loop of opt_level_1 (k = 1, idm = identity(2), need2 = false) and
   opt_level_3 (k = 2, idm = identity(4), need2 = true: the extra test len(gate_list) > 1) on gate_list = g0 :: tl:
   returns the element appended to result_k and the new gate_list *)
Definition run_step (k : nat) (idm : M) (need2 : bool) (g0 : mitem) (tl : list mitem) : mitem * list mitem :=
  let gl := g0 :: tl in
  if len_is k g0 && (negb need2 || Nat.ltb 1 (length gl)) then
    let c := S (run_same k (snd g0) tl) in
    if Nat.ltb 1 c then ((fuse_run idm (firstn c gl), snd g0), skipn c gl)
    else (g0, skipn c gl)
  else (g0, tl).

(* while gate_list: ...    fuel = len(gate_list); every iteration removes at least one element. *)
Fixpoint run_loop (k : nat) (idm : M) (need2 : bool) (fuel : nat) (gl : list mitem) : res (list mitem) :=
  match gl with
  | [] => Ok []
  | g0 :: tl =>
    match fuel with
    | O => Err OutOfFuel
    | S f =>
      let '(hd, gl') := run_step k idm need2 g0 tl in
      match gl' with
      | [x] => Ok [hd; x]            (* if len(gate_list) == 1: append it, remove it *)
      | _ => r <- run_loop k idm need2 f gl' ;; Ok (hd :: r)
      end
    end
  end.

Definition opt1 (gl : list mitem) : res (list mitem) := run_loop 1 mid2 false (length gl) gl.
Definition opt3 (gl : list mitem) : res (list mitem) := run_loop 2 mid4 true (length gl) gl.

(* ---------------------------------------------------------------- process_snippet (lines 326-510) *)

(* for i,item in enumerate(snippet): if len(item[1]) == 2: loc = i     (last such index, 0 if none) *)
Fixpoint last_loc_from (i loc : nat) (sn : list mitem) : nat :=
  match sn with
  | [] => loc
  | it :: t => last_loc_from (S i) (if len_is 2 it then i else loc) t
  end.
Definition last_loc (sn : list mitem) : nat := last_loc_from 0 0 sn.

(* proces_snippet[-1] and proces_snippet[:-1] *)
Definition py_last {A} (l : list A) : res A :=
  match l with [] => Err IndexError | _ => idx l (length l - 1) end.

(* the part before the two-qubit gate: returns the list proces_snippet built so far *)
Definition snippet_before (sn : list mitem) (loc : nat) : res (list mitem) :=
  if Nat.leb 2 loc then
    A <- idx sn (loc - 2) ;; B <- idx sn (loc - 1) ;; G <- idx sn loc ;;
    a0 <- q0 A ;; c <- q0 G ;;
    (* every path below evaluates snippet[loc-1][1][0]; snippet[loc] has two qubits because loc >= 1 was assigned *)
    b0 <- q0 B ;; t <- q1 G ;;
    if Z.eqb a0 c && Z.eqb b0 t then
      Ok (firstn (loc - 2) sn ++ [(mmul (fst G) (mkron (fst A) (fst B)), snd G)])
    else if Z.eqb a0 t && Z.eqb b0 c then
      Ok (firstn (loc - 2) sn ++ [(mmul (fst G) (mkron (fst B) (fst A)), snd G)])
    else if Z.eqb b0 c then
      Ok (firstn (loc - 1) sn ++ [(mmul (fst G) (mkron (fst B) mid2), snd G)])
    else if Z.eqb b0 t then
      Ok (firstn (loc - 1) sn ++ [(mmul (fst G) (mkron mid2 (fst B)), snd G)])
    else Ok (firstn (loc + 1) sn)
  else if Nat.leb 1 loc then
    B <- idx sn (loc - 1) ;; G <- idx sn loc ;;
    b0 <- q0 B ;; c <- q0 G ;;
    if Z.eqb b0 c then
      Ok (firstn (loc - 1) sn ++ [(mmul (fst G) (mkron (fst B) mid2), snd G)])
    else
      t <- q1 G ;;
      if Z.eqb b0 t then
        Ok (firstn (loc - 1) sn ++ [(mmul (fst G) (mkron mid2 (fst B)), snd G)])
      else Ok (firstn (loc + 1) sn)
  else
    G <- idx sn 0 ;;
    if len_is 2 G then Ok [G] else Err ValueError.

(* the part after the two-qubit gate *)
Definition snippet_after (sn : list mitem) (loc : nat) (ps : list mitem) : res (list mitem) :=
  if Nat.leb (loc + 3) (length sn) then          (* loc + 2 <= n_elem *)
    Y <- idx sn (loc + 2) ;; G <- idx sn loc ;; X <- idx sn (loc + 1) ;;
    y0 <- q0 Y ;; c <- q0 G ;;
    (* every path below evaluates snippet[loc+1][1][0] *)
    x0 <- q0 X ;; t <- q1 G ;;
    P <- py_last ps ;;
    let ps' := removelast ps in
    if Z.eqb y0 c && Z.eqb x0 t then
      Ok (ps' ++ [(mmul (mkron (fst Y) (fst X)) (fst P), snd P)])
    else if Z.eqb y0 t && Z.eqb x0 c then
      Ok (ps' ++ [(mmul (mkron (fst X) (fst Y)) (fst P), snd P)])
    else if Z.eqb y0 c && negb (Z.eqb x0 t) then
      Ok (ps' ++ [(mmul (mkron (fst Y) mid2) (fst P), snd P); X])
    else if Z.eqb y0 t && negb (Z.eqb x0 c) then
      Ok (ps' ++ [(mmul (mkron mid2 (fst Y)) (fst P), snd P); X])
    else if Z.eqb x0 c then
      Ok (ps' ++ [(mmul (mkron (fst X) mid2) (fst P), snd P); Y])
    else if Z.eqb x0 t then
      Ok (ps' ++ [(mmul (mkron mid2 (fst X)) (fst P), snd P); Y])
    else Ok (ps ++ [X; Y])
  else if Nat.leb (loc + 2) (length sn) then     (* loc + 1 <= n_elem *)
    X <- idx sn (loc + 1) ;; G <- idx sn loc ;;
    x0 <- q0 X ;; c <- q0 G ;;
    if Z.eqb x0 c then
      P <- py_last ps ;;
      Ok (removelast ps ++ [(mmul (mkron (fst X) mid2) (fst P), snd P)])
    else
      t <- q1 G ;;
      if Z.eqb x0 t then
        P <- py_last ps ;;
        Ok (removelast ps ++ [(mmul (mkron mid2 (fst X)) (fst P), snd P)])
      else Ok (ps ++ [X])
  else Ok ps.

Definition process_snippet (sn : list mitem) : res (list mitem) :=
  let loc := last_loc sn in
  ps <- snippet_before sn loc ;; snippet_after sn loc ps.

(* ---------------------------------------------------------------- opt_level_2 (lines 141-193) *)

(* counter = 0; while len(gate_list[counter][1]) != 2: counter += 1 *)
Fixpoint find2 (gl : list mitem) : res nat :=
  match gl with
  | [] => Err IndexError
  | it :: t => if len_is 2 it then Ok O else c <- find2 t ;; Ok (S c)
  end.

Definition take_snippet (gl : list mitem) : res (list mitem) :=
  counter <- find2 gl ;;
  let sn := firstn (S counter) gl in
  match skipn (S counter) gl with
  | a :: rest =>
    if len_is 1 a then
      match rest with
      | b :: _ => if len_is 1 b then Ok (sn ++ [a; b]) else Ok (sn ++ [a])
      | [] => Ok (sn ++ [a])
      end
    else Ok sn
  | [] => Ok sn
  end.

(* for i in range(q2_gate): ... ; result_2 += gate_list *)
Fixpoint opt2_loop (k : nat) (gl : list mitem) : res (list mitem) :=
  match k with
  | O => Ok gl
  | S k' =>
    sn <- take_snippet gl ;;
    p <- process_snippet sn ;;
    r <- opt2_loop k' (skipn (length sn) gl) ;;
    Ok (p ++ r)
  end.

Definition count2 (gl : list mitem) : nat := length (filter (len_is 2) gl).
Definition opt2 (gl : list mitem) : res (list mitem) :=
  let k := count2 gl in if Nat.ltb 0 k then opt2_loop k gl else Ok gl.

(* ---------------------------------------------------------------- opt_level_4 (lines 239-324) *)

(* indices = [index for index, element in enumerate(last_part) if element[1][0] == q_i], returned as the pair
   (selected elements in order, remaining elements in order); IndexError if some element has no qubit *)
Fixpoint select_q (q : Z) (lp : list mitem) : res (list mitem * list mitem) :=
  match lp with
  | [] => Ok ([], [])
  | e :: t =>
    e0 <- q0 e ;;
    r <- select_q q t ;;
    Ok (if Z.eqb e0 q then (e :: fst r, snd r) else (fst r, e :: snd r))
  end.

Definition emit_q (q : Z) (sel : list mitem) : list mitem :=
  match sel with
  | [] => []
  | [x] => [(fst x, [q])]
  | _ => [(fuse_run mid2 sel, [q])]
  end.

(* for q_i in reorder_qubit_list: ...   (returns the elements appended to result_4) *)
Fixpoint regroup (qis : list nat) (lp : list mitem) : res (list mitem) :=
  match qis with
  | [] => Ok []
  | q :: qis' =>
    if Nat.ltb 1 (length lp) then
      sr <- select_q (Z.of_nat q) lp ;;
      r <- regroup qis' (snd sr) ;;
      Ok (emit_q (Z.of_nat q) (fst sr) ++ r)
    else
      match lp with
      | [x] => Ok [x]        (* elif len(last_part) == 1: append, break *)
      | _ => Ok []           (* elif len(last_part) == 0: break *)
      end
  end.

(* l = number of leading one-qubit items of the reversed list *)
Fixpoint lead1 (l : list mitem) : nat :=
  match l with
  | it :: t => if len_is 1 it then S (lead1 t) else O
  | [] => O
  end.

Definition opt4 (n : nat) (gl : list mitem) : res (list mitem) :=
  match gl with
  | [] => Err UnboundLocalError
  | _ =>
    if existsb (len_is 2) gl then
      let l := lead1 (rev gl) in     (* stops at the two-qubit gate at the latest: no IndexError *)
      if Nat.ltb 1 l then
        r <- regroup (seq 0 n) (skipn (length gl - l) gl) ;;
        Ok (firstn (length gl - l) gl ++ r)
      else Ok gl
    else
      if Nat.ltb 1 (length gl) then regroup (seq 0 n) gl
      else Ok gl
  end.

(* ---------------------------------------------------------------- optimize (lines 38-99) *)
Definition optimize (level : nat) (n : nat) (items : list mitem) : res (list mitem) :=
  if Nat.ltb 4 level then Err ValueError          (* __init__ *)
  else
    let lvl := if Nat.leb (length items) 2 then 0 else if Nat.eqb n 1 then 0 else level in
    let items := map norm_item items in
    match lvl with
    | 0 => Ok items
    | 1 => opt1 items
    | 2 => r1 <- opt1 items ;; opt2 r1
    | 3 => r1 <- opt1 items ;; r2 <- opt2 r1 ;; opt3 r2
    | _ => r1 <- opt1 items ;; r2 <- opt2 r1 ;; r3 <- opt3 r2 ;; opt4 n r3
    end.

End Model.

(* ---------------------------------------------------------------- free matrix-term algebra *)
Inductive mterm := Tok (n : N) | Mul (a b : mterm) | Kron (a b : mterm) | Id2 | Id4.

Fixpoint mterm_eqb (a b : mterm) : bool :=
  match a, b with
  | Tok x, Tok y => N.eqb x y
  | Mul a1 a2, Mul b1 b2 => mterm_eqb a1 b1 && mterm_eqb a2 b2
  | Kron a1 a2, Kron b1 b2 => mterm_eqb a1 b1 && mterm_eqb a2 b2
  | Id2, Id2 => true
  | Id4, Id4 => true
  | _, _ => false
  end.

Definition optimize_sym := optimize mterm Mul Kron Id2 Id4.
Definition opt1_sym := opt1 mterm Mul Id2.
Definition opt2_sym := opt2 mterm Mul Kron Id2.
Definition opt3_sym := opt3 mterm Mul Id4.
Definition opt4_sym := opt4 mterm Mul Id2.
Definition process_snippet_sym := process_snippet mterm Mul Kron Id2.
