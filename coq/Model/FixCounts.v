(* Executable model of quantum_gates._utility.simulations_utility.fix_counts (simulations_utility.py:15-45).
   Keys are Python strings over '0'/'1', modelled as bool lists (first character first).
   Values are an arbitrary type V with a zero (the Python literal 0 the function inserts). *)
From Coq Require Import List Bool NArith Arith.
Require Import QG.Base.Res.
Import ListNotations.

Notation key := (list bool) (only parsing).

(* int(s, 2) for a string of binary digits; Python raises ValueError on the empty string *)
Definition val (k : key) : N := fold_left (fun a (b : bool) => (2 * a + (if b then 1 else 0))%N) k 0%N.
Definition pyint2 (k : key) : res N := match k with [] => Err ValueError | _ => Ok (val k) end.

(* format(x, 'b'): minimal binary representation, "0" for 0 *)
Fixpoint pos_bits (p : positive) : key :=
  match p with xH => [true] | xO q => pos_bits q ++ [false] | xI q => pos_bits q ++ [true] end.
Definition format_b (x : N) : key := match x with N0 => [false] | Npos p => pos_bits p end.
(* str.zfill(n): left-pad with '0' to width n (never truncates) *)
Definition zfill (n : nat) (k : key) : key := repeat false (n - length k) ++ k.
Definition enc (n : nat) (x : N) : key := zfill n (format_b x).

(* Python string comparison restricted to the alphabet {'0','1'} *)
Fixpoint str_ltb (a b : key) : bool :=
  match a, b with
  | [], [] => false
  | [], _ :: _ => true
  | _ :: _, [] => false
  | x :: a', y :: b' => if Bool.eqb x y then str_ltb a' b' else (negb x && y)
  end.
Fixpoint key_eqb (a b : key) : bool :=
  match a, b with
  | [], [] => true
  | x :: a', y :: b' => Bool.eqb x y && key_eqb a' b'
  | _, _ => false
  end.

Section FC.
Variable V : Type.
Variable vzero : V.
Notation tab := (list (list bool * V)) (only parsing).

(* dict(list of pairs) / dict comprehension: a later pair with an existing key overwrites the value in place *)
Fixpoint dict_set (k : key) (v : V) (d : tab) : tab :=
  match d with
  | [] => [(k, v)]
  | (k', v') :: r => if key_eqb k k' then (k', v) :: r else (k', v') :: dict_set k v r
  end.
Definition dict_of (l : tab) : tab := fold_left (fun d kv => dict_set (fst kv) (snd kv) d) l [].

(* sorted(items): insertion sort by key (keys of a dict are distinct, so values never decide) *)
Fixpoint ins_sorted (kv : key * V) (l : tab) : tab :=
  match l with
  | [] => [kv]
  | kv' :: r => if str_ltb (fst kv') (fst kv) then kv' :: ins_sorted kv r else kv :: l
  end.
Definition sort_items (l : tab) : tab := fold_right ins_sorted [] l.

Fixpoint insert_at (j : nat) (x : key * V) (l : tab) : tab :=
  match j, l with
  | O, _ => x :: l
  | S j', [] => [x]            (* list.insert past the end appends *)
  | S j', h :: t => h :: insert_at j' x t
  end.

(* the gap-filling loop: for j in range(2**n - 1) *)
Fixpoint fill_loop (n : nat) (iters j : nat) (c : tab) : res tab :=
  match iters with
  | O => Ok c
  | S it =>
      match nth_error c (j + 1) with
      | None => Err IndexError
      | Some (k1, _) =>
          x1 <- pyint2 k1 ;;
          match nth_error c j with
          | None => Err IndexError
          | Some (k0, _) =>
              x0 <- pyint2 k0 ;;
              if N.eqb x1 (x0 + 1)%N then fill_loop n it (j + 1) c
              else fill_loop n it (j + 1) (insert_at (j + 1) (enc n (x0 + 1)%N, vzero) c)
          end
      end
  end.

Definition fix_counts (t : tab) (n : nat) : res tab :=
  let mirrored := dict_of (map (fun kv => (rev (fst kv), snd kv)) t) in
  let counts := sort_items mirrored in
  match counts with
  | [] => Err IndexError
  | (kfirst, _) :: _ =>
      xf <- pyint2 kfirst ;;
      let counts1 := if N.eqb xf 0 then counts else (enc n 0%N, vzero) :: counts in
      match last (map (fun kv => Some (fst kv)) counts1) None with
      | None => Err IndexError
      | Some klast =>
          xl <- pyint2 klast ;;
          let top := (2 ^ N.of_nat n - 1)%N in
          let counts2 := if N.eqb xl top then counts1 else counts1 ++ [(enc n top, vzero)] in
          c <- fill_loop n (N.to_nat top) 0 counts2 ;;
          Ok (dict_of c)
      end
  end.
End FC.
