(* Executable model of quantum_gates._utility.device_parameters.DeviceParameters: the save/load half
   (device_parameters.py:47-127, 194-235, 244-260, 286-332).  No proofs here.

   Values are tokens of an arbitrary type V: the decimal text numpy / json write for a binary64 ("%.18e", repr) is
   read back to the same binary64 (trusted: correctly rounded print/parse), so a value is never computed with, only
   moved.  An array is a shape and a flat row-major value list; a Python list of floats is modelled as the 1-D array
   it converts to (np.shape, np.savetxt, json.dump and the canonical string treat them alike).
   Metadata is an abstract Python value of type M; MJ is its JSON text; mjson = json.dump(.., default=default_serializer),
   mload = json.load. *)
From Coq Require Import List Bool Arith.
Require Import QG.Base.Res.
Import ListNotations.

(* Python exceptions: the builtin classes of Base/Res.v, `raise Exception(...)` (the base class itself) and Qiskit's
   BackendPropertyError (used by Model/Calib.v). *)
Inductive exn := Py (e : err) | PlainException | BackendPropertyError.
Inductive out (A : Type) := Done (a : A) | Raise (x : exn).
Arguments Done {A} a.
Arguments Raise {A} x.
Definition obind {A B} (x : out A) (f : A -> out B) : out B := match x with Done a => f a | Raise e => Raise e end.

(* the eight array attributes, in the order of DeviceParameters._names *)
Inductive fld := T1 | T2 | P | Rout | Pint | Tint | Tm | Dt.
Record rec8 (A : Type) := R8 { rT1 : A; rT2 : A; rP : A; rRout : A; rPint : A; rTint : A; rTm : A; rDt : A }.
Arguments R8 {A}.
Arguments rT1 {A}. Arguments rT2 {A}. Arguments rP {A}. Arguments rRout {A}.
Arguments rPint {A}. Arguments rTint {A}. Arguments rTm {A}. Arguments rDt {A}.
Definition get8 {A} (k : fld) (r : rec8 A) : A :=
  match k with T1 => rT1 r | T2 => rT2 r | P => rP r | Rout => rRout r | Pint => rPint r | Tint => rTint r | Tm => rTm r | Dt => rDt r end.
Definition set8 {A} (k : fld) (v : A) (r : rec8 A) : rec8 A :=
  match k with
  | T1 => R8 v (rT2 r) (rP r) (rRout r) (rPint r) (rTint r) (rTm r) (rDt r)
  | T2 => R8 (rT1 r) v (rP r) (rRout r) (rPint r) (rTint r) (rTm r) (rDt r)
  | P => R8 (rT1 r) (rT2 r) v (rRout r) (rPint r) (rTint r) (rTm r) (rDt r)
  | Rout => R8 (rT1 r) (rT2 r) (rP r) v (rPint r) (rTint r) (rTm r) (rDt r)
  | Pint => R8 (rT1 r) (rT2 r) (rP r) (rRout r) v (rTint r) (rTm r) (rDt r)
  | Tint => R8 (rT1 r) (rT2 r) (rP r) (rRout r) (rPint r) v (rTm r) (rDt r)
  | Tm => R8 (rT1 r) (rT2 r) (rP r) (rRout r) (rPint r) (rTint r) v (rDt r)
  | Dt => R8 (rT1 r) (rT2 r) (rP r) (rRout r) (rPint r) (rTint r) (rTm r) v
  end.
Definition map8 {A B} (f : A -> B) (r : rec8 A) : rec8 B :=
  R8 (f (rT1 r)) (f (rT2 r)) (f (rP r)) (f (rRout r)) (f (rPint r)) (f (rTint r)) (f (rTm r)) (f (rDt r)).
Definition all8 {A} (f : A -> bool) (r : rec8 A) : bool :=
  f (rT1 r) && f (rT2 r) && f (rP r) && f (rRout r) && f (rPint r) && f (rTint r) && f (rTm r) && f (rDt r).
Definition const8 {A} (a : A) : rec8 A := R8 a a a a a a a a.
Definition is_some {A} (x : option A) : bool := match x with Some _ => true | None => false end.

Definition prod_dims (s : list nat) : nat := fold_right Nat.mul 1 s.

Section DP.
Variable V : Type.          (* float tokens *)
Variables M MJ : Type.      (* metadata value, metadata JSON text *)
Variable mjson : M -> MJ.   (* json.dump(metadata, default=default_serializer) *)
Variable mload : MJ -> M.   (* json.load *)

Record arr := mkArr { shape : list nat; data : list V }.

(* ---------------------------------------------------------------- text files: np.savetxt / np.loadtxt *)
(* a text file = its lines, a line = its whitespace-separated tokens *)
Notation lines := (list (list V)) (only parsing).

(* r rows of c consecutive values *)
Fixpoint chunks (c r : nat) (l : list V) : list (list V) :=
  match r with O => [] | S r' => firstn c l :: chunks c r' (skipn c l) end.

(* np.savetxt(fname, X): 1-D X is written as a column (atleast_2d(X).T), 2-D X row by row; other ranks raise
   ValueError("Expected 1D or 2D array") -- after the file has been opened for writing (it is left empty) *)
Definition savetxt (a : arr) : out (list (list V)) :=
  match shape a with
  | [n] => Done (chunks 1 n (data a))
  | [r; c] => Done (chunks c r (data a))
  | _ => Raise (Py ValueError)
  end.

Definition is_nil {A} (l : list A) : bool := match l with [] => true | _ => false end.
(* np.squeeze: drop every axis of length one *)
Definition squeeze (s : list nat) : list nat := filter (fun d => negb (d =? 1)) s.

(* np.loadtxt(fname, ndmin=0|2): blank lines are skipped; all rows need the same number of columns (ValueError
   otherwise); the (rows, cols) result is squeezed unless ndmin=2; an empty file gives shape (0,) resp. (0,1) *)
Definition loadtxt (ndmin2 : bool) (f : list (list V)) : out arr :=
  let rows := filter (fun l => negb (is_nil l)) f in
  match rows with
  | [] => Done (mkArr (if ndmin2 then [0; 1] else [0]) [])
  | r0 :: _ =>
      let c := length r0 in
      if forallb (fun r => length r =? c) rows
      then Done (mkArr (if ndmin2 then [length rows; c] else squeeze [length rows; c]) (concat rows))
      else Raise (Py ValueError)
  end.

(* np.array([a]) for an array a: one more leading axis of length 1 *)
Definition wrap (a : arr) : arr := mkArr (1 :: shape a) (data a).

(* ---------------------------------------------------------------- JSON: ndarray.tolist / np.array(nested list) *)
Inductive jv := JNum (v : V) | JList (l : list jv).

Fixpoint tolist_sd (s : list nat) (d : list V) : jv :=
  match s with
  | [] => match d with v :: _ => JNum v | [] => JList [] end   (* a 0-d array holds exactly one value *)
  | n :: s' => JList (map (tolist_sd s') (chunks (prod_dims s') n d))
  end.
Definition tolist (a : arr) : jv := tolist_sd (shape a) (data a).

(* shape discovery of np.array on nested lists: follow the first elements *)
Fixpoint shape_of (j : jv) : list nat :=
  match j with
  | JNum _ => []
  | JList l => length l :: match l with [] => [] | x :: _ => shape_of x end
  end.
Fixpoint concat_opt (l : list (option (list V))) : option (list V) :=
  match l with
  | [] => Some []
  | Some a :: r => match concat_opt r with Some b => Some (a ++ b) | None => None end
  | None :: _ => None
  end.
(* every sub-list must have the discovered shape, else ValueError (inhomogeneous shape) *)
Fixpoint conform (j : jv) (s : list nat) {struct j} : option (list V) :=
  match j, s with
  | JNum v, [] => Some [v]
  | JList l, n :: s' => if length l =? n then concat_opt (map (fun x => conform x s') l) else None
  | _, _ => None
  end.
Definition np_array (j : jv) : out arr :=
  let s := shape_of j in
  match conform j s with Some d => Done (mkArr s d) | None => Raise (Py ValueError) end.

(* ---------------------------------------------------------------- the object *)
Record obj := mkObj { layout : list nat; fields : rec8 (option arr); metadata : option M }.
(* DeviceParameters(qubits_layout) *)
Definition init (lay : list nat) : obj := mkObj lay (const8 None) None.
Definition nr_of_qubits (o : obj) : nat := length (layout o).
Definition is_complete (o : obj) : bool := all8 is_some (fields o) && is_some (metadata o).
Definition set_field (k : fld) (a : arr) (o : obj) : obj := mkObj (layout o) (set8 k (Some a) (fields o)) (metadata o).
Definition set_meta (m : M) (o : obj) : obj := mkObj (layout o) (fields o) (Some m).

(* __str__ = json.dumps(__dict__(), default=default_serializer): arrays as nested lists, None as null, metadata as
   its JSON text.  The string is an injective rendering of this structure (trusted), so __eq__ is equality of it. *)
Definition canon (o : obj) : rec8 (option jv) * option MJ :=
  (map8 (option_map tolist) (fields o), option_map mjson (metadata o)).
Definition py_eq (a b : obj) : Prop := canon a = canon b.

(* ---------------------------------------------------------------- the directory at `location` *)
(* T1.txt .. dt.txt, metadata.json, device_parameters.json; None = the file does not exist *)
Record jdoc := mkJdoc { jfields : rec8 (option jv); jmeta : option MJ }.   (* None = key absent from the dict *)
Record fs := mkFs { texts : rec8 (option (list (list V))); metafile : option MJ; jsonfile : option jdoc }.
Definition empty_fs : fs := mkFs (const8 None) None None.
Definition write_txt (k : fld) (c : list (list V)) (f : fs) : fs := mkFs (set8 k (Some c) (texts f)) (metafile f) (jsonfile f).

(* one np.savetxt(location + name, self.<k>) *)
Definition save_one (k : fld) (o : obj) (st : fs * out unit) : fs * out unit :=
  match st with
  | (f, Raise x) => (f, Raise x)
  | (f, Done _) =>
      match get8 k (fields o) with
      | None => (f, Raise (Py ValueError))          (* unreachable after is_complete; np.savetxt(None) is 0-d *)
      | Some a => match savetxt a with
                  | Done c => (write_txt k c f, Done tt)
                  | Raise x => (write_txt k [] f, Raise x)
                  end
      end
  end.

(* save_to_texts (device_parameters.py:194-214); write order T1, T2, p, rout, p_int, t_int, dt, tm, metadata *)
Definition save_to_texts (o : obj) (f : fs) : fs * out unit :=
  if negb (is_complete o) then (f, Raise PlainException) else
  match fold_left (fun st k => save_one k o st) [T1; T2; P; Rout; Pint; Tint; Dt; Tm] (f, Done tt) with
  | (f', Raise x) => (f', Raise x)
  | (f', Done _) =>
      match metadata o with
      | Some m => (mkFs (texts f') (Some (mjson m)) (jsonfile f'), Done tt)
      | None => (f', Raise PlainException)
      end
  end.

(* save_to_json (device_parameters.py:216-235) *)
Definition save_to_json (o : obj) (f : fs) : fs * out unit :=
  if negb (is_complete o) then (f, Raise PlainException) else
  (mkFs (texts f) (metafile f) (Some (mkJdoc (map8 (option_map tolist) (fields o)) (option_map mjson (metadata o)))), Done tt).

(* sequential attribute assignments, stopping at the first exception *)
Definition assign_one (st : obj * out unit) (ka : fld * out arr) : obj * out unit :=
  match st with
  | (o, Raise x) => (o, Raise x)
  | (o, Done _) => match snd ka with Done a => (set_field (fst ka) a o, Done tt) | Raise x => (o, Raise x) end
  end.
Definition assign_all (steps : list (fld * out arr)) (o : obj) : obj * out unit := fold_left assign_one steps (o, Done tt).
Definition verify (st : obj * out unit) : obj * out unit :=
  match st with
  | (o, Done _) => if is_complete o then (o, Done tt) else (o, Raise PlainException)
  | _ => st
  end.

(* load_from_json (device_parameters.py:63-92) *)
Definition load_from_json (f : fs) (o : obj) : obj * out unit :=
  match jsonfile f with
  | None => (o, Raise (Py FileNotFoundError))
  | Some d =>
      if negb (all8 is_some (jfields d) && is_some (jmeta d)) then (o, Raise PlainException) else
      let arr_of k := match get8 k (jfields d) with Some j => np_array j | None => Raise (Py KeyError) end in
      match assign_all (map (fun k => (k, arr_of k)) [T1; T2; P; Rout; Pint; Tint; Tm; Dt]) o with
      | (o', Raise x) => (o', Raise x)
      | (o', Done _) =>
          match jmeta d with
          | Some mj => verify (set_meta (mload mj) o', Done tt)
          | None => (o', Raise (Py KeyError))
          end
      end
  end.

(* load_from_texts (device_parameters.py:94-127) *)
Definition load_from_texts (f : fs) (o : obj) : obj * out unit :=
  if negb (all8 is_some (texts f) && is_some (metafile f)) then (o, Raise (Py FileNotFoundError)) else
  let txt k := match get8 k (texts f) with Some c => c | None => [] end in
  let plain k := (k, loadtxt false (txt k)) in
  let wrapped k := (k, obind (loadtxt false (txt k)) (fun a => Done (wrap a))) in
  let nd2 k := (k, loadtxt true (txt k)) in
  let steps :=
    (if nr_of_qubits o =? 1
     then [wrapped T1; wrapped T2; wrapped P; wrapped Rout; nd2 Pint; nd2 Tint; wrapped Tm]
     else [plain T1; plain T2; plain P; plain Rout; plain Pint; plain Tint; plain Tm]) ++ [wrapped Dt] in
  match assign_all steps o with
  | (o', Raise x) => (o', Raise x)
  | (o', Done _) =>
      match metafile f with
      | Some mj => verify (set_meta (mload mj) o', Done tt)
      | None => (o', Raise (Py FileNotFoundError))
      end
  end.

(* ---------------------------------------------------------------- save/load cycles (used to state the theorems) *)
Inductive format := AsJson | AsTexts.
Definition save (fm : format) := match fm with AsJson => save_to_json | AsTexts => save_to_texts end.
Definition load (fm : format) := match fm with AsJson => load_from_json | AsTexts => load_from_texts end.
(* save o at the location, then load into a fresh DeviceParameters(layout) *)
Definition cycle (fm : format) (st : fs * obj) : out (fs * obj) :=
  let (f1, r) := save fm (snd st) (fst st) in
  match r with
  | Raise x => Raise x
  | Done _ => let (o', r') := load fm f1 (init (layout (snd st))) in
              match r' with Raise x => Raise x | Done _ => Done (f1, o') end
  end.
Fixpoint cycles (fm : format) (k : nat) (st : fs * obj) : out (fs * obj) :=
  match k with O => Done st | S k' => obind (cycle fm st) (cycles fm k') end.

(* any sequence of formats, one cycle each *)
Fixpoint cycles_seq (fms : list format) (st : fs * obj) : out (fs * obj) :=
  match fms with [] => Done st | fm :: r => obind (cycle fm st) (cycles_seq r) end.

End DP.

Arguments mkArr {V}.
Arguments shape {V}.
Arguments data {V}.
Arguments JNum {V}.
Arguments JList {V}.
Arguments mkObj {V M}.
Arguments layout {V M}.
Arguments fields {V M}.
Arguments metadata {V M}.
Arguments mkFs {V MJ}.
Arguments texts {V MJ}.
Arguments metafile {V MJ}.
Arguments jsonfile {V MJ}.
Arguments mkJdoc {V MJ}.
Arguments jfields {V MJ}.
Arguments jmeta {V MJ}.
