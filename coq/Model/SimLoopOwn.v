(* C08 — one shot of the index class (BinaryCircuit) under an ARBITRARY deterministic gate set, assembled from models that are
   already tied to the code:
     Model/SimLoop.v      translate_calls: the method calls of the simulator's loop with the table entry (token) of every argument
                          (exact call-sequence correspondence, checks/c03_simloop.py);
     Model/Builders.v     bstep: BinaryCircuit's bookkeeping (phases, placement [i, j], in-place normalisation) and do_instr: how a
                          method builds its gate-set call from the builder's current phases (C11's correspondence);
   plus the hand-off `instr_of_call` below: WHICH gate-set call a method call issues and in which order it passes the method's
   arguments (circuit.py BinaryCircuit.X / SX / CNOT / ECR / relaxation / bitflip).  The hand-off is tied to the code by the
   regenerated trace table gen_handoff (coq/Gen/GenCircuit.v): own_trace below re-derives, from instr_of_call + do_instr + bstep,
   the gate name, the argument order, the placement and the phase writes of every BinaryCircuit entry of that table that the simulator uses (Props/C08.v, block 16: C08_own_handoff_tied).
   No proofs here. *)
From Coq Require Import List NArith ZArith Bool Arith String.
Require Import QG.Base.Res QG.Model.SimRun QG.Model.NoiseFreeRun QG.Model.SimLoop QG.Model.Builders.
Import ListNotations.

Section OwnModel.
Variables A D : Type.      (* rz angles, delay durations *)
Variable V : Type.         (* values of the device tables (and of duration * dt) *)
Variable val : tok A D -> V.   (* the device tables: the value of every table entry named by a token *)
Variable ph : A -> Z * Z.      (* how the builder model records an rz angle: a + b * pi/2 *)

(* a call of a gate-set method: virtual phases first, then the remaining arguments in the order passed *)
Inductive gcall :=
| GOne (k : kind1) (p : Z * Z) (args : list V)                  (* gates.X / gates.SX (-phi[i], p, T1, T2) *)
| GTwo (k : kind2) (inv : bool) (p1 p2 : Z * Z) (args : list V) (* gates.CNOT / CNOT_inv / ECR / ECR_inv (phi_a, phi_b, t, p_ik, p_a, p_b, T1_a, T2_a, T1_b, T2_b) *)
| GRelax (args : list V)                                        (* gates.relaxation(Dt, T1, T2) *)
| GFlip (args : list V).                                        (* gates.bitflip(tm, rout) *)

(* the argument values a method call receives, in the order of Model/SimLoop.v's call_args *)
Definition targs (c : call A D) : list V := map val (call_args A D c).
(* ECR_inv(phi[k], phi[i], t, p_i_k, p_k, p_i, T1_trg, T2_trg, T1_ctr, T2_ctr): target's entries first *)
Definition swap_ct (l : list V) : list V :=
  match l with
  | [t; pik; pc; pt; t1c; t2c; t1t; t2t] => [t; pik; pt; pc; t1t; t2t; t1c; t2c]
  | _ => l
  end.

(* circuit.py, BinaryCircuit: the gate-set call behind each public method (Builders.do_instr supplies the phases) *)
Definition instr_of_call (c : call A D) : Builders.instr gcall :=
  match c with
  | CRz v th => NRz gcall (Z.of_nat v) (ph th)
  | C1 k v _ => NX gcall (fun p => GOne k p (targs c)) (Z.of_nat v)
  | C2 KCX cv tv _ _ =>
      NCNOT gcall (fun a b => GTwo KCX false a b (targs c)) (fun a b => GTwo KCX true a b (targs c)) (Z.of_nat cv) (Z.of_nat tv)
  | C2 KECR cv tv _ _ =>
      NECR gcall (fun a b => GTwo KECR false a b (targs c)) (fun a b => GTwo KECR true a b (swap_ct (targs c))) (Z.of_nat cv) (Z.of_nat tv)
  | CRelax v _ _ => NG gcall (GRelax (targs c)) (Z.of_nat v)
  | CBitflip k _ => NG gcall (GFlip (targs c)) (Z.of_nat k)
  end.

(* _single_shot up to the backend: a fresh BinaryCircuit(n, layout), the method calls with a deterministic gate set gs (a function
   of the call), statevector()'s view of the stored list *)
Variable M : Type.
Variable idM : M.
Variable gs : gcall -> M.
Definition own_steps (s : bstate M) (cs : list (call A D)) : res (bstate M * unit) :=
  do_instrs M unit gcall (fun g c => (gs c, g)) (bstate M) (list (M * list Z)) (bstep M idM) (b_phi M) (s, tt) (map instr_of_call cs).
Definition own_shot (n : nat) (layout : option (list Z)) (cs : list (call A D)) : res (list (M * list Z)) :=
  Builders.shot M unit gcall (fun g c => (gs c, g)) (bstate M) (list (M * list Z)) (bstep M idM) (b_phi M)
    (b_init M n layout) tt (map instr_of_call cs).
End OwnModel.
Arguments GOne {V} k p args. Arguments GTwo {V} k inv p1 p2 args. Arguments GRelax {V} args. Arguments GFlip {V} args.

(* ================================================================== the hand-off, re-derived for comparison with the trace table *)
(* One method call on a two-qubit builder whose phases are the markers (100, 0) for phi[i] and (101, 0) for phi[k]; the gate set
   returns the call itself (M := gcall).  Table entries are numbered like the trace's variables:
     2 t_int, 3 p_int, 4 p_i, 5 p_k, 6 T1_i, 7 T2_i, 8 T1_k, 9 T2_k, 11 Dt, 12 tm, 13 rout   (i = label 0, k = label 1).
   Result: gate name, arguments (phase markers as 0 / 1, negated: 1000 / 1001), qubits under the matrix's slots (0 = i, 1 = k). *)
Definition tr_val (t : tok unit unit) : Z :=
  match t with
  | Ttint _ _ => 2 | Tpint _ _ => 3
  | Tp q => if N.eqb q 0 then 4 else 5
  | TT1 q => if N.eqb q 0 then 6 else 8
  | TT2 q => if N.eqb q 0 then 7 else 9
  | Ttime _ => 11 | Ttm _ => 12 | Trout _ => 13 | Ttheta _ => 10
  end%Z.
Definition tr_phase (p : Z * Z) : Z := if (fst p <? 0)%Z then (1000 + (- fst p - 100))%Z else (fst p - 100)%Z.
Definition tr_gcall (g : gcall Z) : string * list Z :=
  match g with
  | GOne KX p a => ("X"%string, tr_phase p :: a)
  | GOne KSX p a => ("SX"%string, tr_phase p :: a)
  | GTwo KCX false p1 p2 a => ("CNOT"%string, tr_phase p1 :: tr_phase p2 :: a)
  | GTwo KCX true p1 p2 a => ("CNOT_inv"%string, tr_phase p1 :: tr_phase p2 :: a)
  | GTwo KECR false p1 p2 a => ("ECR"%string, tr_phase p1 :: tr_phase p2 :: a)
  | GTwo KECR true p1 p2 a => ("ECR_inv"%string, tr_phase p1 :: tr_phase p2 :: a)
  | GRelax a => ("relaxation"%string, a)
  | GFlip a => ("bitflip"%string, a)
  end.
(* the method call with i = 0, k = 1 when lt, i = 1, k = 0 otherwise (labels: i is label 0, k is label 1) *)
Definition tr_call (meth : string) (lt : bool) : option (call unit unit) :=
  let i := if lt then 0 else 1 in let k := if lt then 1 else 0 in
  if String.eqb meth "CNOT" then Some (C2 KCX i k 0%N 1%N)
  else if String.eqb meth "ECR" then Some (C2 KECR i k 0%N 1%N)
  else if String.eqb meth "X" then Some (C1 KX i 0%N)
  else if String.eqb meth "SX" then Some (C1 KSX i 0%N)
  else if String.eqb meth "relaxation" then Some (CRelax i tt 0%N)
  else if String.eqb meth "bitflip" then Some (CBitflip i 0%N)
  else if String.eqb meth "Rz" then Some (CRz i tt)
  else None.
Definition tr_steps (meth : string) (lt : bool) : option (res (bstate (gcall Z) * unit)) :=
  match tr_call meth lt with
  | None => None
  | Some c =>
      let phi := if lt then [(100, 0); (101, 0)]%Z else [(101, 0); (100, 0)]%Z in
      Some (own_steps unit unit Z tr_val (fun _ => (1000, 0)%Z) (gcall Z) (GRelax []) (fun g => g) (mkB (gcall Z) 2 None phi []) [c])
  end.
Definition own_trace (meth : string) (lt : bool) : option (string * list Z * list Z) :=
  match tr_steps meth lt with
  | None => None
  | Some r =>
      let i := if lt then 0%Z else 1%Z in
      match r with
      | Ok (s, _) =>
          match b_items (gcall Z) s with
          | [(g, place)] =>
              Some (tr_gcall g, map (fun q => if Z.eqb q i then 0%Z else 1%Z) (filter (fun q => negb (Z.eqb q (-1))) place))
          | _ => None
          end
      | Err _ => None
      end
  end.
(* the virtual phases [phi[i]; phi[k]] after the call, as (marker + angle marker 1000 per rz, quarter turns) *)
Definition own_trace_phi (meth : string) (lt : bool) : option (list (Z * Z)) :=
  match tr_steps meth lt with
  | Some (Ok (s, _)) => Some (if lt then b_phi (gcall Z) s else rev (b_phi (gcall Z) s))
  | _ => None
  end.
