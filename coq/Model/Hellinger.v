(* C17 — model vocabulary for quantum_gates._utility.simulations_utility.compute_Hellinger_distance
   (simulations_utility.py:106-116).

   Part 1: the fixed vocabulary of primitives into which checks/c17_translate.py translates the CURRENT source of the
   function on every run (the generated definition lands in coq/Gen/GenHellinger.v).  numpy arrays of reals are
   `list R`; Python exceptions are `Err e` (coq/Base/Res.v).
   Part 2: the three-line mathematical model `hell` and the vocabulary of the property statement (`pvec`, `bc`).
   No proofs in this file. *)
From Coq Require Import Reals List Arith.
Require Import QG.Base.Res.
Import ListNotations.
Local Open Scope R_scope.

Notation vec := (list R) (only parsing).

(* ------------------------------------------------------------------ part 1: translator vocabulary *)

Fixpoint map2 {A B C : Type} (f : A -> B -> C) (a : list A) (b : list B) : list C :=
  match a, b with
  | x :: a', y :: b' => f x y :: map2 f a' b'
  | _, _ => []
  end.

(* np.sqrt on an array (entries >= 0 in the property's domain; numpy returns nan below 0, Coq's sqrt returns 0) *)
Definition vsqrt (v : vec) : vec := map sqrt v.

(* elementwise binary operator on two 1-d arrays with numpy's broadcasting rule for 1-d shapes:
   equal lengths -> elementwise; one operand of length 1 -> stretched; otherwise ValueError *)
Definition vbin (op : R -> R -> R) (a b : vec) : res vec :=
  if Nat.eqb (length a) (length b) then Ok (map2 op a b)
  else match a, b with
       | [x], _ => Ok (map (fun y => op x y) b)
       | _, [y] => Ok (map (fun x => op x y) a)
       | _, _ => Err ValueError
       end.
Definition vsub := vbin Rminus.
Definition vadd := vbin Rplus.
Definition vmul := vbin Rmult.

(* array ** k for a literal natural number k *)
Definition vpow (v : vec) (k : nat) : vec := map (fun x => x ^ k) v.

(* array * scalar and scalar * array *)
Definition vscale (c : R) (v : vec) : vec := map (fun x => c * x) v.

(* a[i] for a 1-d array and a non-negative index *)
Definition vget (v : vec) (i : nat) : res R :=
  match nth_error v i with Some x => Ok x | None => Err IndexError end.

(* for i in range(count): acc = body i acc      (left to right, stops at the first exception) *)
Definition for_range (count : nat) (body : nat -> R -> res R) (acc0 : R) : res R :=
  fold_left (fun (acc : res R) (i : nat) => a <- acc ;; body i a) (seq 0 count) (Ok acc0).

(* ------------------------------------------------------------------ part 2: the mathematical model *)

Definition sumR (l : vec) : R := fold_right Rplus 0 l.

(* H(p,q) = 1/sqrt 2 * || sqrt q - sqrt p ||_2 *)
Definition sqdiff (p q : vec) : vec := map2 (fun a b => (sqrt b - sqrt a) ^ 2) p q.
Definition hell (p q : vec) : R := 1 / sqrt 2 * sqrt (sumR (sqdiff p q)).

(* Bhattacharyya coefficient  sum_i sqrt (p_i q_i) *)
Definition bc (p q : vec) : R := sumR (map2 (fun a b => sqrt (a * b)) p q).

(* probability vector over 2^n outcomes *)
Definition pvec (n : nat) (p : vec) : Prop :=
  length p = (2 ^ n)%nat /\ Forall (fun x => 0 <= x) p /\ sumR p = 1.
