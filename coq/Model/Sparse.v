(* Executable model of the operator construction of quantum_gates._simulation.backend.BinaryBackend
   (backend.py:250-419): statevector's used / not-used qubit bookkeeping, create_sparse, join_str, create_dense.
   Strings over '0'/'1' are bool lists (first character first).  A constructed operator is the list of its COO
   triples in generation order: (row string, column string, (r, c)) where (r, c) is the position of the gate entry
   gate[r, c] that is stored as data.  No proofs in this file. *)
From Coq Require Import List Bool Arith ZArith NArith.
Require Import QG.Base.Res QG.Model.Optimizer.
Import ListNotations.

Notation str := (list bool) (only parsing).

(* f"{x:0{w}b}": binary digits of x, zero-padded on the left to at least w characters *)
Fixpoint pos_digits (p : positive) : str :=
  match p with xH => [true] | xO q => pos_digits q ++ [false] | xI q => pos_digits q ++ [true] end.
Definition bin_digits (x : N) : str := match x with N0 => [false] | Npos p => pos_digits p end.
Definition fmt_b (w : nat) (x : N) : str := let d := bin_digits x in repeat false (w - length d) ++ d.
(* int(s, 2) on a non-empty digit string *)
Definition val2 (s : str) : N := fold_left (fun a (b : bool) => (2 * a + (if b then 1 else 0))%N) s 0%N.

(* Python subscript (read / write) with a possibly negative index *)
Definition py_index (len : nat) (i : Z) : res nat :=
  let j := if Z.ltb i 0 then (i + Z.of_nat len)%Z else i in
  if Z.ltb j 0 || Z.leb (Z.of_nat len) j then Err IndexError else Ok (Z.to_nat j).
Fixpoint set_nth {A} (l : list A) (i : nat) (v : A) : list A :=
  match l, i with
  | [], _ => []
  | _ :: t, O => v :: t
  | h :: t, S i' => h :: set_nth t i' v
  end.
Definition py_get {A} (l : list A) (i : Z) : res A := j <- py_index (length l) i ;; idx l j.
Definition py_set {A} (l : list A) (i : Z) (v : A) : res (list A) := j <- py_index (length l) i ;; Ok (set_nth l j v).

(* join_str (lines 352-378).  tot_str = [0] * 2n; unassigned places print as '0'. *)
Fixpoint join_assign (n k : nat) (s : str) (i : nat) (qs : list Z) (tot : str) : res str :=
  match qs with
  | [] => Ok tot
  | q :: r =>
    a <- idx s i ;;
    tot1 <- py_set tot q a ;;
    b <- idx s (i + k) ;;
    tot2 <- py_set tot1 (q + Z.of_nat n) b ;;
    join_assign n k s (S i) r tot2
  end.
Definition join_str (k_str m_str : str) (q_n_used q_used : list Z) (k m : nat) : res str :=
  let n := k + m in
  let tot := repeat false (2 * n) in
  if negb (Nat.eqb (length q_n_used) k) || negb (Nat.eqb (length q_used) m) then Err ValueError
  else tot1 <- join_assign n k k_str 0 q_n_used tot ;; join_assign n m m_str 0 q_used tot1.

Definition b2N (b : bool) : N := if b then 1%N else 0%N.

(* which gate entry is read for the element described by the 2N-character string s (lines 334-344 / 407-417) *)
Definition entry_of (qs : list Z) (nq : nat) (s : str) : res (N * N) :=
  if Nat.eqb (length qs) 1 then
    q <- idx qs 0 ;;
    r <- py_get s q ;; c <- py_get s (q + Z.of_nat nq) ;;
    Ok (b2N r, b2N c)
  else
    qa <- idx qs 0 ;; qb <- idx qs 1 ;;
    r1 <- py_get s qa ;; r2 <- py_get s qb ;;
    c1 <- py_get s (qa + Z.of_nat nq) ;; c2 <- py_get s (qb + Z.of_nat nq) ;;
    Ok ((2 * b2N r1 + b2N r2)%N, (2 * b2N c1 + b2N c2)%N).

Notation triple := (list bool * list bool * (N * N))%type.

Fixpoint mapM {A B} (f : A -> res B) (l : list A) : res (list B) :=
  match l with [] => Ok [] | x :: t => y <- f x ;; r <- mapM f t ;; Ok (y :: r) end.
Definition nrange (n : nat) : list N := map N.of_nat (seq 0 n).

(* create_sparse (lines 295-350): the COO triples in generation order *)
Definition create_sparse (qs : list Z) (q_n_used q_used : list Z) (nq : nat) : res (list triple) :=
  let k := length q_n_used in
  let m := length q_used in
  if negb (Nat.eqb (k + m) nq) then Err ValueError
  else
    rows <- mapM (fun i =>
      let k_str := fmt_b (2 * k) (i * (2 ^ N.of_nat k + 1))%N in
      mapM (fun j =>
        let m_str := fmt_b (2 * m) j in
        n_str <- join_str k_str m_str q_n_used q_used k m ;;
        e <- entry_of qs nq n_str ;;
        Ok (firstn nq n_str, skipn nq n_str, e)) (nrange (2 ^ (2 * m)))) (nrange (2 ^ k)) ;;
    Ok (concat rows).

(* create_dense (lines 380-419): one triple per (i, j), row-major *)
Definition create_dense (qs : list Z) (q_n_used q_used : list Z) (nq : nat) : res (list triple) :=
  if negb (Nat.eqb (length q_n_used + length q_used) nq) then Err ValueError
  else
    rows <- mapM (fun i => mapM (fun j =>
        let binary := fmt_b nq i ++ fmt_b nq j in
        e <- entry_of qs nq binary ;;
        Ok (fmt_b nq i, fmt_b nq j, e)) (nrange (2 ^ nq))) (nrange (2 ^ nq)) ;;
    Ok (concat rows).

(* list.remove(x): first occurrence, ValueError if absent *)
Fixpoint py_remove (x : Z) (l : list Z) : res (list Z) :=
  match l with
  | [] => Err ValueError
  | y :: t => if Z.eqb x y then Ok t else r <- py_remove x t ;; Ok (y :: r)
  end.

(* statevector lines 267-291 for one item: which constructor is used and its triples.
   An item whose qubit list has neither one nor two entries leaves q_list whole (then k + m <> N: ValueError
   unless the qubit list is empty, in which case entry_of raises IndexError). *)
Definition item_operator (nq : nat) (qs : list Z) : res (bool * list triple) :=
  let q_list := map Z.of_nat (seq 0 nq) in
  q_n_used <-
    (if Nat.eqb (length qs) 1 then q <- idx qs 0 ;; py_remove q q_list
     else if Nat.eqb (length qs) 2 then qa <- idx qs 0 ;; qb <- idx qs 1 ;; l1 <- py_remove qa q_list ;; py_remove qb l1
     else Ok q_list) ;;
  if Nat.eqb (length q_n_used) 0 then t <- create_dense qs q_n_used qs nq ;; Ok (true, t)
  else t <- create_sparse qs q_n_used qs nq ;; Ok (false, t).

(* ---- meaning of a triple list as a linear operator, over any scalars with + and * ---- *)
Section Apply.
Variable R : Type.
Variables (rO : R) (radd rmul : R -> R -> R).
Fixpoint bits_eqb (a b : list bool) : bool :=
  match a, b with [], [] => true | x :: a', y :: b' => Bool.eqb x y && bits_eqb a' b' | _, _ => false end.
(* (U psi)[row] = sum over the triples with that row of data * psi[col]; COO duplicates are summed *)
Definition coo_apply (ts : list triple) (gate : N -> N -> R) (psi : list bool -> R) : list bool -> R :=
  fun b => fold_left (fun acc (t : triple) =>
      let '(row, col, (r, c)) := t in
      if bits_eqb row b then radd acc (rmul (gate r c) (psi col)) else acc) ts rO.

(* BinaryBackend.statevector (lines 250-293): optimise at level 4 with qubit_layout = range(nqubit), then apply the
   operator built for each item.  entry m r c = m[r, c]. *)
Variable M : Type.
Variables (mmul mkron : M -> M -> M) (mid2 mid4 : M).
Variable entry : M -> N -> N -> R.
Definition bin_statevector (nq : nat) (items : list (M * list Z)) (psi : list bool -> R) : res (list bool -> R) :=
  match items with
  | [] => Err AssertionError
  | _ =>
    opt <- optimize M mmul mkron mid2 mid4 4 nq items ;;
    fold_left (fun acc it => p <- acc ;; op <- item_operator nq (snd it) ;;
                             Ok (coo_apply (snd op) (entry (fst it)) p)) opt (Ok psi)
  end.
End Apply.
