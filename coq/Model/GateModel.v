(* Data types of the regenerated gate model (coq/Gen/GenGates.v is written by checks/gates_trace.py from the current
   source of factories.py / gates.py / integrator.py on every run). No proofs here. *)
From Coq Require Import QArith List String Bool Arith.
Require Import QG.Sym.Expr.
Import ListNotations.

(* definitions of the variables the tracer introduced for subterms outside the decidable fragment *)
Inductive odef :=
| OSqrt (e : expr)                 (* v = sqrt e        (np.sqrt of a non-constant) *)
| OExpReal (e : expr)              (* v = exp e, e real (np.exp of a real argument) *)
| OInv (e : expr)                  (* v = 1 / e         (division by a non-constant) *)
| OProd (e : expr)                 (* v = e             (non-linear argument of sin/cos/exp(i.)) *)
| OInt (key : string) (theta a : expr).   (* v = integrator.integrate(key, theta, a) *)

Inductive sampler :=
| SNormal (v : nat) (mean std : expr)                                  (* v = np.random.normal(mean, std) *)
| SMvn (vs : list nat) (mean : list expr) (cov : list (list expr)).   (* vs = np.random.multivariate_normal(mean, cov, 1)[0] *)

(* one decision path of an elementary factory: result = U @ expm(D) @ expm(N) *)
Record epath := { ep_dec : list bool; ep_U : mexpr; ep_D : mexpr; ep_N : mexpr;
                  ep_samplers : list sampler; ep_defs : list (nat * odef) }.

(* composite gates: constituent calls and the product in which their results are combined *)
Inductive factory := FCR | FX | FSX | FSQ | FRelax.
Record call := { c_fac : factory; c_args : list expr }.
Inductive ptree := PSym (k : nat) | PMul (a b : ptree) | PKron (a b : ptree) | PScale (c : expr) (a : ptree).
Record composite := { cp_calls : list call; cp_tree : ptree; cp_defs : list (nat * odef) }.

Definition factory_eqb (a b : factory) : bool :=
  match a, b with FCR, FCR | FX, FX | FSX, FSX | FSQ, FSQ | FRelax, FRelax => true | _, _ => false end.

(* tensor slot(s) a constituent occupies *)
Inductive slot := S0 | S1 | SBoth.
Fixpoint slots_in (ctx : slot) (t : ptree) : list (nat * slot) :=
  match t with
  | PSym k => [(k, ctx)]
  | PMul a b => slots_in ctx a ++ slots_in ctx b
  | PKron a b => slots_in S0 a ++ slots_in S1 b      (* np.kron(a, b): a acts on the first slot *)
  | PScale _ a => slots_in ctx a
  end.
Definition slots (t : ptree) : list (nat * slot) := slots_in SBoth t.
