(* C06: which noise parameters every constituent pulse of a composite two-qubit gate receives.
   Specification predicate (readable) + boolean checker. The subject (the gen_comp definitions) is regenerated from factories.py. *)
From Coq Require Import QArith List Bool Arith Permutation.
Require Import QG.Sym.Expr QG.Sym.ExprEq QG.Model.GateModel.
Import ListNotations.

(* p, T1, T2 of the qubit that sits in a tensor slot *)
Record qparams := { q_phi : nat (* variable index of the qubit's virtual phase *); q_p : expr; q_T1 : expr; q_T2 : expr }.

Fixpoint mentions (v : nat) (e : expr) : bool :=
  match e with
  | EVar w => Nat.eqb v w
  | EQ _ | EPi | EI => false
  | EAdd a b | ESub a b | EMul a b | EDiv a b => mentions v a || mentions v b
  | ENeg a | EPow a _ | ESin a | ECos a | EExp a | ESqrt a | EConj a => mentions v a
  end.
(* the drive phase of a single-qubit pulse on a slot depends on that qubit's phase and not on the other's *)
Definition phase_own (own other : qparams) (phi : expr) : Prop :=
  mentions (q_phi own) phi = true /\ mentions (q_phi other) phi = false.
Definition phase_own_b (own other : qparams) (phi : expr) : bool :=
  mentions (q_phi own) phi && negb (mentions (q_phi other) phi).

(* what a constituent call must look like, given the slot it occupies *)
Definition call_spec (pcr : expr) (q0 q1 : qparams) (c : call) (s : slot) : Prop :=
  match c_fac c, s with
  | FX, S0 | FSX, S0 => exists phi, c_args c = [phi; q_p q0; q_T1 q0; q_T2 q0] /\ phase_own q0 q1 phi
  | FX, S1 | FSX, S1 => exists phi, c_args c = [phi; q_p q1; q_T1 q1; q_T2 q1] /\ phase_own q1 q0 phi
  | FSQ, S0 => exists th phi, c_args c = [th; phi; q_p q0; q_T1 q0; q_T2 q0] /\ phase_own q0 q1 phi
  | FSQ, S1 => exists th phi, c_args c = [th; phi; q_p q1; q_T1 q1; q_T2 q1] /\ phase_own q1 q0 phi
  | FRelax, S0 => exists dt, c_args c = [dt; q_T1 q0; q_T2 q0]
  | FRelax, S1 => exists dt, c_args c = [dt; q_T1 q1; q_T2 q1]
  | FCR, SBoth => exists th phi tcr, c_args c = [th; phi; tcr; pcr; q_T1 q0; q_T2 q0; q_T1 q1; q_T2 q1]
  | _, _ => False
  end.

Definition call_ok (pcr : expr) (q0 q1 : qparams) (c : call) (s : slot) : bool :=
  match c_fac c, s, c_args c with
  | FX, S0, [ph; p; t1; t2] | FSX, S0, [ph; p; t1; t2] => expr_beq p (q_p q0) && expr_beq t1 (q_T1 q0) && expr_beq t2 (q_T2 q0) && phase_own_b q0 q1 ph
  | FX, S1, [ph; p; t1; t2] | FSX, S1, [ph; p; t1; t2] => expr_beq p (q_p q1) && expr_beq t1 (q_T1 q1) && expr_beq t2 (q_T2 q1) && phase_own_b q1 q0 ph
  | FSQ, S0, [_; ph; p; t1; t2] => expr_beq p (q_p q0) && expr_beq t1 (q_T1 q0) && expr_beq t2 (q_T2 q0) && phase_own_b q0 q1 ph
  | FSQ, S1, [_; ph; p; t1; t2] => expr_beq p (q_p q1) && expr_beq t1 (q_T1 q1) && expr_beq t2 (q_T2 q1) && phase_own_b q1 q0 ph
  | FRelax, S0, [_; t1; t2] => expr_beq t1 (q_T1 q0) && expr_beq t2 (q_T2 q0)
  | FRelax, S1, [_; t1; t2] => expr_beq t1 (q_T1 q1) && expr_beq t2 (q_T2 q1)
  | FCR, SBoth, [_; _; _; pc; a1; a2; b1; b2] =>
      expr_beq pc pcr && expr_beq a1 (q_T1 q0) && expr_beq a2 (q_T2 q0) && expr_beq b1 (q_T1 q1) && expr_beq b2 (q_T2 q1)
  | _, _, _ => false
  end.

(* every constituent occurs exactly once in the product, in a definite slot, with its slot's own parameters *)
Definition own_params_spec (cp : composite) (pcr : expr) (q0 q1 : qparams) : Prop :=
  map fst (slots (cp_tree cp)) <> [] /\
  Permutation (map fst (slots (cp_tree cp))) (seq 0 (length (cp_calls cp))) /\
  forall k s, In (k, s) (slots (cp_tree cp)) ->
    exists c, nth_error (cp_calls cp) k = Some c /\ call_spec pcr q0 q1 c s.

Fixpoint insert_nat (x : nat) (l : list nat) : list nat :=
  match l with [] => [x] | y :: r => if Nat.leb x y then x :: l else y :: insert_nat x r end.
Definition sort_nat (l : list nat) : list nat := fold_right insert_nat [] l.
Fixpoint list_nat_eqb (a b : list nat) : bool :=
  match a, b with [], [] => true | x :: a', y :: b' => Nat.eqb x y && list_nat_eqb a' b' | _, _ => false end.

Definition own_params_ok (cp : composite) (pcr : expr) (q0 q1 : qparams) : bool :=
  let sl := slots (cp_tree cp) in
  negb (Nat.eqb (length sl) 0) &&
  list_nat_eqb (sort_nat (map fst sl)) (seq 0 (length (cp_calls cp))) &&
  forallb (fun ks => match nth_error (cp_calls cp) (fst ks) with Some c => call_ok pcr q0 q1 c (snd ks) | None => false end) sl.

(* the derived two-qubit error handed to the CR pulses: argument 3 of the first CR call *)
Definition first_cr_pcr (cp : composite) : option expr :=
  match filter (fun c => factory_eqb (c_fac c) FCR) (cp_calls cp) with
  | c :: _ => nth_error (c_args c) 3
  | [] => None
  end.

(* durations of the pulses scheduled on a slot (C05): X/SX/general rotation last tg, relaxation its Dt, CR its t_cr on both *)
Definition call_duration (tg : expr) (c : call) : option expr :=
  match c_fac c with
  | FX | FSX | FSQ => Some tg
  | FRelax => nth_error (c_args c) 0
  | FCR => nth_error (c_args c) 2
  end.
Definition slot_covers (q : slot) (s : slot) : bool :=
  match s, q with SBoth, _ => true | S0, S0 => true | S1, S1 => true | _, _ => false end.
Fixpoint sum_exprs (l : list expr) : expr := match l with [] => EQ 0 | [x] => x | x :: r => EAdd x (sum_exprs r) end.
Definition slot_durations (tg : expr) (cp : composite) (q : slot) : list (option expr) :=
  map (fun ks => match nth_error (cp_calls cp) (fst ks) with Some c => call_duration tg c | None => None end)
      (filter (fun ks => slot_covers q (snd ks)) (slots (cp_tree cp))).

(* variables an expression reads, with tracer-introduced variables expanded through their definitions *)
Fixpoint evars (e : expr) : list nat :=
  match e with
  | EVar v => [v]
  | EQ _ | EPi | EI => []
  | EAdd a b | ESub a b | EMul a b | EDiv a b => evars a ++ evars b
  | ENeg a | EPow a _ | ESin a | ECos a | EExp a | ESqrt a | EConj a => evars a
  end.
Definition odef_vars (d : odef) : list nat :=
  match d with OSqrt a | OExpReal a | OInv a | OProd a => evars a | OInt _ a b => evars a ++ evars b end.
Fixpoint expand_vars (defs : list (nat * odef)) (fuel : nat) (vs : list nat) : list nat :=
  match fuel with
  | O => vs
  | S f => expand_vars defs f
             (flat_map (fun v => match find (fun d => Nat.eqb (fst d) v) defs with Some (_, d) => odef_vars d | None => [v] end) vs)
  end.
Definition reads_only (defs : list (nat * odef)) (allowed : list nat) (e : expr) : bool :=
  forallb (fun v => existsb (Nat.eqb v) allowed) (expand_vars defs 12 (evars e)).
