(* Executable model of the integration cache of quantum_gates/_gates/integrator.py (lines 47-86) and of the way a gate
   factory consumes it together with numpy's global generator (factories.py).

   Integrator.integrate(integrand, theta, a):
       if (integrand, theta, a) in self._cache: return self._cache[(integrand, theta, a)]
       assert integrand in _INTEGRAL_LOOKUP ; assert a > 0
       y = analytic or numeric evaluation (depends on the pulse the integrator was built with)
       self._cache[(integrand, theta, a)] = y ; return y
   self._cache is created in __init__: one dict per Integrator object.

   Which of the three arguments take part in the key, and whether the dict is per object, is read from the source on
   every run (checks/c10_translate.py -> Gen/GenCacheKey.v); the model takes those four booleans as the record
   `shape`, so that the theorems are about the key the code actually uses.

   Abstract: I (integrand names), T (angles), A (durations), V (values), P (pulses); `eval p i th a` is the uncached
   evaluation.  Key equality is Python's tuple equality/hash (numeric equality on the components).
   No proofs in this file. *)
From Coq Require Import List Bool Arith.
Require Import QG.Base.Res.
Import ListNotations.

Record shape := mkShape { uses_integrand : bool; uses_theta : bool; uses_a : bool; per_instance : bool }.
Definition full_shape : shape := mkShape true true true true.

Section Cache.
Variables I T A V P : Type.
Variables (I_eqb : I -> I -> bool) (T_eqb : T -> T -> bool) (A_eqb : A -> A -> bool).
Variable known : I -> bool.                         (* integrand in _INTEGRAL_LOOKUP.keys() *)
Variable a_pos : A -> bool.                         (* a > 0 *)
Variable eval : P -> I -> T -> A -> res V.          (* _analytical_integration / _numerical_integration for pulse p *)
Variable sh : shape.

(* the tuple used as dictionary key: a component the source leaves out is simply absent *)
Notation key := (option I * option T * option A)%type (only parsing).
Definition mk_key (i : I) (th : T) (a : A) : key :=
  (if uses_integrand sh then Some i else None, if uses_theta sh then Some th else None, if uses_a sh then Some a else None).
Definition opt_eqb {X} (e : X -> X -> bool) (x y : option X) : bool :=
  match x, y with Some u, Some v => e u v | None, None => true | _, _ => false end.
Definition key_eqb (k1 k2 : key) : bool :=
  opt_eqb I_eqb (fst (fst k1)) (fst (fst k2)) && opt_eqb T_eqb (snd (fst k1)) (snd (fst k2)) && opt_eqb A_eqb (snd k1) (snd k2).

(* a dict: insertion-ordered association list without duplicate keys *)
Notation cache := (list ((option I * option T * option A) * V)) (only parsing).
Fixpoint lookup (k : key) (c : cache) : option V :=
  match c with [] => None | (k', v) :: r => if key_eqb k k' then Some v else lookup k r end.
Fixpoint store (k : key) (v : V) (c : cache) : cache :=
  match c with
  | [] => [(k, v)]
  | (k', v') :: r => if key_eqb k k' then (k', v) :: r else (k', v') :: store k v r
  end.

(* one Integrator object: the pulse it was built from and its dictionary *)
Record integ := mkInteg { pulse : P; cache_of : list ((option I * option T * option A) * V) }.
Definition new_integ (p : P) : integ := mkInteg p [].

(* integrate on a given dictionary for pulse p: returns the value, the dictionary afterwards, and whether the
   uncached evaluation ran (what a counting wrapper around scipy.integrate.quad observes) *)
Definition integrate_on (p : P) (c : cache) (i : I) (th : T) (a : A) : res (V * cache * bool) :=
  match lookup (mk_key i th a) c with
  | Some v => Ok (v, c, false)
  | None =>
      if negb (known i) then Err AssertionError
      else if negb (a_pos a) then Err AssertionError
      else y <- eval p i th a ;; Ok (y, store (mk_key i th a) y c, true)
  end.
Definition integrate (g : integ) (i : I) (th : T) (a : A) : res (V * integ * bool) :=
  r <- integrate_on (pulse g) (cache_of g) i th a ;;
  Ok (fst (fst r), mkInteg (pulse g) (snd (fst r)), snd r).
Definition uncached (p : P) (i : I) (th : T) (a : A) : res V :=
  if negb (known i) then Err AssertionError else if negb (a_pos a) then Err AssertionError else eval p i th a.

(* ---------------------------------------------------------------- a process with several Integrator objects *)
(* objects are numbered in creation order; `shared` is the class-level dictionary that exists only when the source
   creates _cache as a class attribute (per_instance sh = false) *)
Record world := mkWorld { objs : list integ; shared : list ((option I * option T * option A) * V) }.
Definition empty_world : world := mkWorld [] [].
Inductive wop := WNew (p : P) | WInt (o : nat) (i : I) (th : T) (a : A).

Fixpoint set_obj (k : nat) (g : integ) (l : list integ) : list integ :=
  match l, k with
  | [], _ => []
  | _ :: r, O => g :: r
  | x :: r, S k' => x :: set_obj k' g r
  end.

(* result of a step: for WInt the value and the recomputation flag *)
Definition wstep (w : world) (o : wop) : res (world * option (V * bool)) :=
  match o with
  | WNew p => Ok (mkWorld (objs w ++ [new_integ p]) (shared w), None)
  | WInt k i th a =>
      match nth_error (objs w) k with
      | None => Err IndexError
      | Some g =>
          if per_instance sh then
            r <- integrate g i th a ;;
            Ok (mkWorld (set_obj k (snd (fst r)) (objs w)) (shared w), Some (fst (fst r), snd r))
          else
            r <- integrate_on (pulse g) (shared w) i th a ;;
            Ok (mkWorld (objs w) (snd (fst r)), Some (fst (fst r), snd r))
      end
  end.
Fixpoint wexec (w : world) (h : list wop) : res (world * list (option (V * bool))) :=
  match h with
  | [] => Ok (w, [])
  | o :: r => x <- wstep w o ;; y <- wexec (fst x) r ;; Ok (fst y, snd x :: snd y)
  end.

(* ---------------------------------------------------------------- sampling a gate *)
(* A factory's construct(args) is a program that interleaves integrator requests and draws from the global
   generator and finally returns a matrix computed from its arguments and the answers.  G is the generator state,
   D a distribution request (normal(0, sd), multivariate_normal(mean, cov, 1)), X a sample, Mx a matrix. *)
Section Sampling.
Variables G D X Mx : Type.
Variable draw : D -> G -> X * G.

Inductive prog :=
| Ret (m : Mx)
| Integ (i : I) (th : T) (a : A) (k : V -> prog)
| Draw (d : D) (k : X -> prog).

Fixpoint run_prog (pr : prog) (g : integ) (r : G) : res (Mx * G * integ) :=
  match pr with
  | Ret m => Ok (m, r, g)
  | Integ i th a k => x <- integrate g i th a ;; run_prog (k (fst (fst x))) (snd (fst x)) r
  | Draw d k => let (x, r') := draw d r in run_prog (k x) g r'
  end.

(* the same program against an integrator without any cache *)
Fixpoint run_prog_uncached (pr : prog) (p : P) (r : G) : res (Mx * G) :=
  match pr with
  | Ret m => Ok (m, r)
  | Integ i th a k => v <- uncached p i th a ;; run_prog_uncached (k v) p r
  | Draw d k => let (x, r') := draw d r in run_prog_uncached (k x) p r'
  end.

(* a sequence of gates sampled one after the other from one gate set (one integrator), one generator *)
Fixpoint run_progs (ps : list prog) (g : integ) (r : G) : res (list Mx * G * integ) :=
  match ps with
  | [] => Ok ([], r, g)
  | pr :: rest => x <- run_prog pr g r ;;
                  y <- run_progs rest (snd x) (snd (fst x)) ;;
                  Ok (fst (fst x) :: fst (fst y), snd (fst y), snd y)
  end.
End Sampling.

End Cache.
