(* C03 — the index-class (BinaryCircuit) branch of the simulator's instruction loop, as an executable translation from the
   circuit's instruction list (Model/SimRun.v: instr = name, qubit labels, clbit labels) to the sequence of METHOD CALLS the
   simulator issues on the circuit object, on INTERNAL indices.  No proofs here.

   Modelled code (simulator.py):
     _preprocess_circuit (198-243)    which instructions reach the shot (`data`): cx / ecr when both labels are in the
                                      layout; measure is looked up in the layout (ValueError when absent), its clbit is
                                      read, and it is NOT kept; everything else is kept when its first qubit is in the
                                      layout and it is not a barrier (so: barriers are dropped, a delay on a label that no
                                      other instruction uses is dropped -- _process_layout does not count delays).
     _apply_gates_on_circuit, `isinstance(circ, BinaryCircuit)` branch (388-430)
                                      one method call per kept instruction, on q_v = qubit_layout.index(q_r), with the
                                      device-table entries of the PHYSICAL label q_r:
                                        rz    -> circ.Rz(q_v, float(params[0]))
                                        sx/x  -> circ.SX / circ.X (q_v, p[q_r], T1[q_r], T2[q_r])
                                        ecr   -> circ.ECR (c_v, t_v, t_int[c_r][t_r], p_int[c_r][t_r], p[c_r], p[t_r], T1[c_r], T2[c_r], T1[t_r], T2[t_r])
                                        cx    -> circ.CNOT(the same argument pattern)
                                        delay -> circ.relaxation(q_v, duration * dt, T1[q_r], T2[q_r])
                                        any other name (id, reset, ...) -> no call
                                      then the read-out loop: for k in range(nqubit): circ.bitflip(k, tm[layout[k]], rout[layout[k]]).
   Python exceptions are results `Err e` (Base/Res.v): x.qubits[0] / x.qubits[1] / x.clbits[0] on a too short tuple and
   qubit_layout[k] beyond the layout raise IndexError, list.index of an absent label raises ValueError.  The device tables
   are not modelled as containers (a table shorter than a label raises IndexError inside the shot: observation in DESIGN 0.5);
   their entries appear as tokens (tok) naming table and label.

   Data that the instruction record of SimRun.v does not carry is supplied by position j in circ.data:
     theta j = float(circ.data[j].operation.params[0])   (type A, only looked at for rz)
     dur j   = circ.data[j].operation.duration           (type D, only looked at for delay).

   Under the noise-free gate set NoiseFreeGates.relaxation(Dt, T1, T2) and NoiseFreeGates.bitflip(tm, rout) return the exact
   2x2 identity matrix np.eye(2) (gates.py; C03_gate_frames, last conjunct: gen_nf_relaxation = gen_nf_bitflip = id_mat 2 for
   the regenerated model), and BinaryCircuit.relaxation / .bitflip append that matrix on qubit q_v / k without touching the
   virtual phases.  nf_prog therefore drops exactly the CRelax and CBitflip calls; call_items keeps them as identity items, and
   Proofs/SimLoop.v proves that both item lists have the same semantics. *)
From Coq Require Import List NArith ZArith Bool Arith.
Require Import QG.Base.Res QG.Base.State QG.Model.SimRun QG.Model.NoiseFreeRun QG.Proofs.FrameSim.
Import ListNotations.

(* the instruction record of Model/SimRun.v (NoiseFreeRun.instr is the native program on internal indices) *)
Notation qinstr := SimRun.instr.
Definition is_barrier (o : opname) : bool := match o with OpBarrier => true | _ => false end.
(* qubits_layout.index(q) *)
Definition lindex (q : N) (used : list N) : res nat :=
  match index_of q used with Some i => Ok i | None => Err ValueError end.

Section Loop.
Variable A : Type.      (* rz angles *)
Variable D : Type.      (* delay durations *)
Variable theta : nat -> A.
Variable dur : nat -> D.

(* one public method call on the circuit object: internal indices (nat), the physical label(s) whose table entries are passed (N) *)
Inductive call :=
| CRz (qv : nat) (th : A)                        (* circ.Rz(q_v, theta) *)
| C1 (k : kind1) (qv : nat) (qr : N)             (* circ.X / circ.SX (q_v, p[q_r], T1[q_r], T2[q_r]) *)
| C2 (k : kind2) (cv tv : nat) (cr tr : N)       (* circ.CNOT / circ.ECR (c_v, t_v, t_int[c_r][t_r], p_int[c_r][t_r], p[c_r], p[t_r], T1[c_r], T2[c_r], T1[t_r], T2[t_r]) *)
| CRelax (qv : nat) (d : D) (qr : N)             (* circ.relaxation(q_v, duration * dt, T1[q_r], T2[q_r]) *)
| CBitflip (k : nat) (qr : N).                   (* circ.bitflip(k, tm[q_r], rout[q_r]) *)

(* ---- _preprocess_circuit: the instructions kept in `data`, each with its position in circ.data ---- *)
Definition pre_step (used : list N) (jx : nat * qinstr) : res (list (nat * qinstr)) :=
  let x := snd jx in
  match iname x with
  | OpEcr | OpCx =>
      match iqs x with
      | c :: t :: _ => Ok (if memN c used && memN t used then [jx] else [])
      | _ => Err IndexError
      end
  | OpMeasure =>
      match iqs x with
      | [] => Err IndexError
      | q :: _ => _ <- lindex q used ;; match ics x with [] => Err IndexError | _ :: _ => Ok [] end
      end
  | o =>
      match iqs x with
      | [] => Err IndexError
      | q :: _ => Ok (if memN q used && negb (is_barrier o) then [jx] else [])
      end
  end.
Fixpoint preprocess (used : list N) (l : list (nat * qinstr)) : res (list (nat * qinstr)) :=
  match l with
  | [] => Ok []
  | jx :: r => a <- pre_step used jx ;; b <- preprocess used r ;; Ok (a ++ b)
  end.
Definition numbered (data : list qinstr) : list (nat * qinstr) := combine (seq 0 (length data)) data.

(* ---- _apply_gates_on_circuit, index branch: the chain of `if name == ...` tests ---- *)
Definition one_qubit (used : list N) (x : qinstr) (mk : nat -> N -> call) : res (list call) :=
  match iqs x with
  | [] => Err IndexError
  | q :: _ => v <- lindex q used ;; Ok [mk v q]
  end.
Definition two_qubit (used : list N) (x : qinstr) (k : kind2) : res (list call) :=
  match iqs x with
  | c :: t :: _ => cv <- lindex c used ;; tv <- lindex t used ;; Ok [C2 k cv tv c t]
  | _ => Err IndexError
  end.
Definition app_step (used : list N) (jx : nat * qinstr) : res (list call) :=
  let j := fst jx in let x := snd jx in
  match iname x with
  | OpRz => one_qubit used x (fun v _ => CRz v (theta j))
  | OpSx => one_qubit used x (C1 KSX)
  | OpX => one_qubit used x (C1 KX)
  | OpEcr => two_qubit used x KECR
  | OpCx => two_qubit used x KCX
  | OpDelay => one_qubit used x (fun v q => CRelax v (dur j) q)
  | _ => Ok []
  end.
Fixpoint apply_loop (used : list N) (l : list (nat * qinstr)) : res (list call) :=
  match l with
  | [] => Ok []
  | jx :: r => a <- app_step used jx ;; b <- apply_loop used r ;; Ok (a ++ b)
  end.
(* for k in range(nqubit): q_r = qubit_layout[k]; circ.bitflip(k, tm[q_r], rout[q_r]) *)
Fixpoint readout (used : list N) (k cnt : nat) : res (list call) :=
  match cnt with
  | O => Ok []
  | S c =>
      match nth_error used k with
      | None => Err IndexError
      | Some q => r <- readout used (S k) c ;; Ok (CBitflip k q :: r)
      end
  end.

(* the calls of one shot: used = qubits_layout_t (ascending used labels), nq = the nqubit argument of run() *)
Definition translate_calls (used : list N) (nq : Z) (data : list qinstr) : res (list call) :=
  d <- preprocess used (numbered data) ;;
  body <- apply_loop used d ;;
  ro <- readout used 0 (Z.to_nat nq) ;;
  Ok (body ++ ro).

(* ---- the noise-free reading: the program of Model/NoiseFreeRun.v ---- *)
Definition nf_of_call (c : call) : list (NoiseFreeRun.instr A) :=
  match c with
  | CRz v th => [NRz v th]
  | C1 KX v _ => [NX v]
  | C1 KSX v _ => [NSX v]
  | C2 KCX cv tv _ _ => [NCX cv tv]
  | C2 KECR cv tv _ _ => [NECR cv tv]
  | CRelax _ _ _ | CBitflip _ _ => []
  end.
Definition nf_prog (cs : list call) : list (NoiseFreeRun.instr A) := flat_map nf_of_call cs.
Definition translate (used : list N) (nq : Z) (data : list qinstr) : res (list (NoiseFreeRun.instr A)) :=
  rmap nf_prog (translate_calls used nq data).

(* the qubit an identity matrix is appended on by a dropped call *)
Definition idle_qubit (c : call) : option nat :=
  match c with CRelax v _ _ => Some v | CBitflip k _ => Some k | _ => None end.

(* ---- argument tokens of a call (for the correspondence run) ---- *)
Inductive tok :=
| TT1 (q : N) | TT2 (q : N) | Tp (q : N) | Trout (q : N) | Ttm (q : N)
| Tpint (c t : N) | Ttint (c t : N)
| Ttime (d : D)          (* duration * dt *)
| Ttheta (a : A).
Definition call_args (c : call) : list tok :=
  match c with
  | CRz _ th => [Ttheta th]
  | C1 _ _ q => [Tp q; TT1 q; TT2 q]
  | C2 _ _ _ c t => [Ttint c t; Tpint c t; Tp c; Tp t; TT1 c; TT2 c; TT1 t; TT2 t]
  | CRelax _ d q => [Ttime d; TT1 q; TT2 q]
  | CBitflip _ q => [Ttm q; Trout q]
  end.
Definition call_indices (c : call) : list nat :=
  match c with
  | CRz v _ | C1 _ v _ | CRelax v _ _ | CBitflip v _ => [v]
  | C2 _ cv tv _ _ => [cv; tv]
  end.
End Loop.
Arguments CRz {A D} qv th. Arguments C1 {A D} k qv qr. Arguments C2 {A D} k cv tv cr tr.
Arguments CRelax {A D} qv d qr. Arguments CBitflip {A D} k qr.
Arguments TT1 {A D} q. Arguments TT2 {A D} q. Arguments Tp {A D} q. Arguments Trout {A D} q. Arguments Ttm {A D} q.
Arguments Tpint {A D} c t. Arguments Ttint {A D} c t. Arguments Ttime {A D} d. Arguments Ttheta {A D} a.

(* ================================================================== what the circuit object holds after the calls *)
(* The item list BinaryCircuit._info_gates_list denotes after the calls of one noise-free shot: the framed matrix at the
   current frame for X / SX / CNOT / ECR (NoiseFreeRun.item_of . compile), nothing for Rz, and the 2x2 identity on the
   call's qubit for relaxation / bitflip (frame untouched). *)
Section Items.
Variable R : Type.
Variables (rO rI : R) (radd rmul : R -> R -> R) (ropp : R -> R).
Variables A D : Type.
Variable K : consts R A.
Notation frame := (frame R).
Fixpoint call_items_from (ff : frame * frame) (cs : list (call A D)) : list (item R) :=
  match cs with
  | [] => []
  | c :: r =>
      match idle_qubit A D c with
      | Some q => It1 (id2 R rO rI) q :: call_items_from ff r
      | None =>
          run_items_from R rO rI radd rmul ropp A K ff (nf_of_call A D c)
          ++ call_items_from (fold_left (fstep R rO rI radd rmul ropp A K) (nf_of_call A D c) ff) r
      end
  end.
Definition call_items (cs : list (call A D)) : list (item R) := call_items_from (ff_one R rI) cs.

(* _single_shot (492-518) with the noise-free gate set, as the `perform` argument of SimRun.run_model: the calls of the loop on
   the layout and nqubit that run() derived (front_out), the statevector of the stored item list on psi0 (builder and backend:
   C11 / C02, C03_builder_backend_run), and the Born rule np.square(np.absolute(psi)) entry by entry -- `born` on the
   amplitudes, in the order of the basis states (SimRun.binary_vector: index i <-> the nqubit-character binary numeral of i,
   qubit 0 = first character).  Every shot of a deterministic gate set returns this vector; the mean over the shots is C09. *)
Variable V : Type.
Variable born : R -> V.
Definition nf_perform (theta : nat -> A) (dur : nat -> D) (data : list qinstr) (psi0 : state R) (f : front_out) : res (list V) :=
  cs <- translate_calls A D theta dur (f_used f) (f_nqubit f) data ;;
  Ok (map (fun b => born (sem R radd rmul (call_items cs) psi0 b)) (binary_vector (Z.to_nat (f_nqubit f)))).
End Items.

(* ================================================================== views compared exactly with the implementation *)
(* angles and durations as integers; a call as a list of integers:
   [method code; number of indices; indices ...; (table code, a, b) per argument ...]
   method codes: 0 Rz, 1 SX, 2 X, 3 ECR, 4 CNOT, 5 relaxation, 6 bitflip;
   table codes: 1 T1, 2 T2, 3 p, 4 rout, 5 p_int, 7 t_int, 9 tm (dev_distinct of checks/sim_common.py: value = 100*code + label,
   resp. 100*code + 10*c + t), 10 time = duration*dt, 11 theta. *)
Definition tok_view (t : tok Z Z) : list Z :=
  match t with
  | TT1 q => [1; Z.of_N q; -1] | TT2 q => [2; Z.of_N q; -1] | Tp q => [3; Z.of_N q; -1] | Trout q => [4; Z.of_N q; -1]
  | Ttm q => [9; Z.of_N q; -1] | Tpint c t => [5; Z.of_N c; Z.of_N t] | Ttint c t => [7; Z.of_N c; Z.of_N t]
  | Ttime d => [10; d; -1] | Ttheta a => [11; a; -1]
  end%Z.
Definition meth_code (c : call Z Z) : Z :=
  match c with
  | CRz _ _ => 0 | C1 KSX _ _ => 1 | C1 KX _ _ => 2 | C2 KECR _ _ _ _ => 3 | C2 KCX _ _ _ _ => 4
  | CRelax _ _ _ => 5 | CBitflip _ _ => 6
  end%Z.
Definition call_view (c : call Z Z) : list Z :=
  meth_code c :: Z.of_nat (length (call_indices Z Z c)) :: map Z.of_nat (call_indices Z Z c)
  ++ flat_map tok_view (call_args Z Z c).
(* the gate-set call behind a method call and where BinaryCircuit.apply places the returned matrix ([i, j], j = -1 for one
   qubit): CNOT / ECR when c_v < t_v on [c_v, t_v], CNOT_inv / ECR_inv otherwise on [t_v, c_v] (NoiseFreeRun.choose2 /
   compile2: the lower index comes first); nothing for Rz.
   gate codes: 1 SX, 2 X, 3 ECR, 4 CNOT, 5 relaxation, 6 bitflip, 13 ECR_inv, 14 CNOT_inv. *)
Definition gate_view (c : call Z Z) : list (list Z) :=
  match c with
  | CRz _ _ => []
  | C1 _ v _ | CRelax v _ _ | CBitflip v _ => [[meth_code c; Z.of_nat v; -1]]
  | C2 _ cv tv _ _ =>
      if (cv <? tv)%nat then [[meth_code c; Z.of_nat cv; Z.of_nat tv]] else [[meth_code c + 10; Z.of_nat tv; Z.of_nat cv]]
  end%Z.

Fixpoint zlist_eqb (a b : list Z) : bool :=
  match a, b with [], [] => true | x :: a', y :: b' => Z.eqb x y && zlist_eqb a' b' | _, _ => false end.
Fixpoint zlist2_eqb (a b : list (list Z)) : bool :=
  match a, b with [], [] => true | x :: a', y :: b' => zlist_eqb x y && zlist2_eqb a' b' | _, _ => false end.
Definition err_code (e : err) : Z :=
  match e with IndexError => 1 | ValueError => 2 | AssertionError => 3 | AttributeError => 4 | TypeError => 5
             | FileNotFoundError => 6 | KeyError => 7 | OutOfFuel => 8 end%Z.

(* the whole pipeline on a raw instruction list: _process_layout, then the calls; angles / durations by position *)
Definition run_calls (th du : list Z) (nq : option Z) (data : list qinstr) : res (list (call Z Z)) :=
  x <- process_layout data ;;
  let used := fst (fst x) in
  translate_calls Z Z (fun j => nth j th 0%Z) (fun j => nth j du 0%Z) used
    (match nq with Some z => z | None => Z.of_nat (snd x) end) data.
(* expected: inl (method-call views, gate-call views) or inr error code *)
Definition case_ok (th du : list Z) (nq : option Z) (data : list qinstr) (exp : (list (list Z) * list (list Z)) + Z) : bool :=
  match run_calls th du nq data, exp with
  | Ok cs, inl (mv, gv) => zlist2_eqb (map call_view cs) mv && zlist2_eqb (flat_map gate_view cs) gv
  | Err e, inr c => Z.eqb (err_code e) c
  | _, _ => false
  end.
(* the calls with an explicitly given layout (malformed stream: the two functions called directly) *)
Definition case_ok_layout (th du : list Z) (used : list N) (nq : Z) (data : list qinstr) (exp : list (list Z) + Z) : bool :=
  match translate_calls Z Z (fun j => nth j th 0%Z) (fun j => nth j du 0%Z) used nq data, exp with
  | Ok cs, inl mv => zlist2_eqb (map call_view cs) mv
  | Err e, inr c => Z.eqb (err_code e) c
  | _, _ => false
  end.
Fixpoint bad_from {T} (ok : T -> bool) (i : nat) (l : list T) : list nat :=
  match l with [] => [] | x :: r => if ok x then bad_from ok (S i) r else i :: bad_from ok (S i) r end.
