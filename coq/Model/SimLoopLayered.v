(* C03 — the LAYERED branch (`else:` of `isinstance(circ, BinaryCircuit)`) of the simulator's instruction loop, shared by
   Circuit, StandardCircuit, EfficientCircuit and OneCircuit (AlternativeCircuit), as an executable translation from the
   circuit's instruction list to the sequence of METHOD CALLS the simulator issues on the circuit object.  No proofs here.
   Extends Model/SimLoop.v (whose _preprocess_circuit model `preprocess` is shared by both branches).

   Modelled code (simulator.py):
     _preprocess_circuit (198-243)    as in Model/SimLoop.v.
     _apply_gates_on_circuit, else-branch (431-489): nqubit = circ.nqubit; for every kept instruction
          rz    -> circ.Rz(q, float(params[0]))                    q = the PHYSICAL label, used as the index (no layout.index)
          sx/x  -> for k in range(nqubit): circ.SX / circ.X (k, p[k], T1[k], T2[q]) if k == q else circ.I(k)
          ecr   -> for k in range(nqubit): circ.ECR (k, q_trg, t_int[k][q_trg], p_int[k][q_trg], p[k], p[q_trg], T1[k], T2[k],
                                                      T1[q_trg], T2[q_trg]) if k == q_ctr; nothing if k == q_trg; else circ.I(k)
          cx    -> the same with circ.CNOT
          delay -> for k in range(nqubit): circ.relaxation(k, duration * dt, T1[k], T2[k]) if k == q else circ.I(k)
          any other name -> no call
        then the read-out loop: for k in range(nqubit): circ.bitflip(k, tm[k], rout[k]).
   Every kept sx / x / ecr / cx / delay thus issues one call per qubit (one "layer"); a label q >= nqubit never meets k == q, so
   the loop issues identities only (the gate is silently dropped) -- the layered classes are meant for layouts 0..n-1.
   Python exceptions of the LOOP are results `Err e`: x.qubits[0] / x.qubits[1] / x.clbits[0] on a too short tuple raise
   IndexError, qubits_layout.index of an unmeasured label (in _preprocess_circuit) ValueError.  Exceptions raised INSIDE the
   circuit object's methods (Circuit.CNOT asserts adjacency: AssertionError; phi[q] / circuit[i][j] out of range: IndexError) are
   those of the builder state machines of Model/Builders.v (gstep / lstep) run on the calls: layered_outcome below.
   The device tables are tokens (SimLoop.tok) naming table and index. *)
From Coq Require Import List NArith ZArith Bool Arith.
Require Import QG.Base.Res QG.Base.State QG.Model.SimRun QG.Model.NoiseFreeRun QG.Model.SimLoop QG.Model.Builders.
Import ListNotations.

Section LoopL.
Variable A : Type.      (* rz angles *)
Variable D : Type.      (* delay durations *)
Variable theta : nat -> A.
Variable dur : nat -> D.
Notation call := (SimLoop.call A D).

(* one public method call of the layered branch: a call of Model/SimLoop.v whose physical label IS its index, or I(k) *)
Inductive lcall :=
| LC (c : call)
| LI (k : nat).                                   (* circ.I(k) *)

(* what one kept instruction makes the loop do: the `for k in range(nqubit)` loop of its branch (Rz: a single call) *)
Inductive group :=
| GRz (q : nat) (th : A)
| G1 (k : kind1) (q : nat)
| G2 (k : kind2) (c t : nat)
| GRelax (q : nat) (d : D).

Definition group_calls (nq : nat) (g : group) : list lcall :=
  match g with
  | GRz q th => [LC (CRz q th)]
  | G1 k1 q => map (fun k => if k =? q then LC (C1 k1 k (N.of_nat k)) else LI k) (seq 0 nq)
  | G2 k2 c t =>
      flat_map (fun k => if k =? c then [LC (C2 k2 k t (N.of_nat k) (N.of_nat t))] else if k =? t then [] else [LI k]) (seq 0 nq)
  | GRelax q d => map (fun k => if k =? q then LC (CRelax k d (N.of_nat k)) else LI k) (seq 0 nq)
  end.

(* the chain of `if name == ...` tests; the label is read inside the branch (IndexError on an empty tuple) *)
Definition one_label (x : qinstr) (mk : nat -> group) : res (list group) :=
  match iqs x with
  | [] => Err IndexError
  | q :: _ => Ok [mk (N.to_nat q)]
  end.
Definition two_labels (x : qinstr) (k : kind2) : res (list group) :=
  match iqs x with
  | c :: t :: _ => Ok [G2 k (N.to_nat c) (N.to_nat t)]
  | _ => Err IndexError
  end.
Definition app_step_l (jx : nat * qinstr) : res (list group) :=
  let j := fst jx in let x := snd jx in
  match iname x with
  | OpRz => one_label x (fun q => GRz q (theta j))
  | OpSx => one_label x (G1 KSX)
  | OpX => one_label x (G1 KX)
  | OpEcr => two_labels x KECR
  | OpCx => two_labels x KCX
  | OpDelay => one_label x (fun q => GRelax q (dur j))
  | _ => Ok []
  end.
Fixpoint apply_loop_l (l : list (nat * qinstr)) : res (list group) :=
  match l with
  | [] => Ok []
  | jx :: r => a <- app_step_l jx ;; b <- apply_loop_l r ;; Ok (a ++ b)
  end.
(* for k in range(nqubit): circ.bitflip(k, tm[k], rout[k]) *)
Definition readout_l (nq : nat) : list lcall := map (fun k => LC (CBitflip k (N.of_nat k))) (seq 0 nq).

(* the groups of one shot: used = qubits_layout (only _preprocess_circuit looks at it), nq = the nqubit argument of run() *)
Definition translate_groups (used : list N) (data : list qinstr) : res (list group) :=
  d <- preprocess used (numbered data) ;; apply_loop_l d.
Definition calls_of_groups (nq : nat) (gs : list group) : list lcall := flat_map (group_calls nq) gs ++ readout_l nq.
(* the method calls of one shot, in the order issued *)
Definition translate_calls_layered (used : list N) (nq : Z) (data : list qinstr) : res (list lcall) :=
  gs <- translate_groups used data ;; Ok (calls_of_groups (Z.to_nat nq) gs).

(* ---- the noise-free reading ---- *)
Definition instr_of_group (g : group) : list (NoiseFreeRun.instr A) :=
  match g with
  | GRz q th => [NoiseFreeRun.NRz q th]
  | G1 KX q => [NoiseFreeRun.NX q]
  | G1 KSX q => [NoiseFreeRun.NSX q]
  | G2 KCX c t => [NoiseFreeRun.NCX c t]
  | G2 KECR c t => [NoiseFreeRun.NECR c t]
  | GRelax _ _ => []
  end.
Definition nf_prog_groups (gs : list group) : list (NoiseFreeRun.instr A) := flat_map instr_of_group gs.
Definition translate_layered (used : list N) (data : list qinstr) : res (list (NoiseFreeRun.instr A)) :=
  rmap nf_prog_groups (translate_groups used data).
(* the SimLoop calls among the layered calls (I(k) dropped): nf_prog of them is the same program when every index is < nq *)
Definition lcalls_core (cs : list lcall) : list call := flat_map (fun c => match c with LC c' => [c'] | LI _ => [] end) cs.

(* len(data) - n_rz + 1: the depth the simulator constructs the circuit object with (Circuit uses it, the others ignore it) *)
Definition is_rz (o : opname) : bool := match o with OpRz => true | _ => false end.
Definition depth_of (used : list N) (data : list qinstr) : res nat :=
  d <- preprocess used (numbered data) ;;
  Ok (length d - length (filter (fun jx : nat * qinstr => is_rz (iname (snd jx))) d) + 1).
End LoopL.
Arguments LC {A D} c. Arguments LI {A D} k.
Arguments GRz {A D} q th. Arguments G1 {A D} k q. Arguments G2 {A D} k c t. Arguments GRelax {A D} q d.

(* ================================================================== the circuit object's own exceptions *)
(* The calls as operations of the builder state machines of Model/Builders.v with the matrices abstracted to unit (placement and
   bookkeeping do not look at matrix values).  cls: the grid class Circuit(nqubit, depth, gates) or the layered class
   AlternativeCircuit (Standard / Efficient / OneCircuit differ in the backend only). *)
Inductive lclass := ClsGrid | ClsAlt.
Definition unit_op {A D} (c : lcall A D) : op unit :=
  match c with
  | LI k => OI unit (Z.of_nat k)
  | LC (CRz q _) => ORz unit (Z.of_nat q) p0
  | LC (C1 _ q _) => OX unit tt (Z.of_nat q)
  | LC (C2 KCX c t _ _) => OCNOT unit tt (Z.of_nat c) (Z.of_nat t)
  | LC (C2 KECR c t _ _) => OECR unit tt (Z.of_nat c) (Z.of_nat t)
  | LC (CRelax q _ _) | LC (CBitflip q _) => OApply unit K2 tt (Z.of_nat q)
  end.
Definition builder_check {A D} (cls : lclass) (nq depth : nat) (cs : list (lcall A D)) : res unit :=
  match cls with
  | ClsGrid => _ <- gexec unit tt (g_init unit nq depth) (map unit_op cs) ;; Ok tt
  | ClsAlt => _ <- lexec unit tt (l_init unit nq BkStandard) (map unit_op cs) ;; Ok tt
  end.
(* the calls the simulator issues on a circuit object that executes them: an exception of a method ends the shot *)
Definition layered_outcome {A D} (theta : nat -> A) (dur : nat -> D) (cls : lclass) (used : list N) (nq : Z) (data : list qinstr)
  : res (list (lcall A D)) :=
  cs <- translate_calls_layered A D theta dur used nq data ;;
  dp <- depth_of used data ;;
  _ <- builder_check cls (Z.to_nat nq) dp cs ;;
  Ok cs.

(* ================================================================== views compared exactly with the implementation *)
(* as in Model/SimLoop.v: [method code; number of indices; indices ...; (table code, a, b) per argument ...]; I(k) has method code 7 *)
Definition lcall_view (c : lcall Z Z) : list Z :=
  match c with
  | LC c' => call_view c'
  | LI k => [7; 1; Z.of_nat k]%Z
  end.
(* run(): _process_layout, then the calls on the class's own object *)
Definition run_calls_layered (cls : lclass) (th du : list Z) (nq : option Z) (data : list qinstr) : res (list (lcall Z Z)) :=
  x <- process_layout data ;;
  let used := fst (fst x) in
  layered_outcome (fun j => nth j th 0%Z) (fun j => nth j du 0%Z) cls used
    (match nq with Some z => z | None => Z.of_nat (snd x) end) data.
Definition case_ok_layered (cls : lclass) (th du : list Z) (nq : option Z) (data : list qinstr) (exp : list (list Z) + Z) : bool :=
  match run_calls_layered cls th du nq data, exp with
  | Ok cs, inl mv => zlist2_eqb (map lcall_view cs) mv
  | Err e, inr c => Z.eqb (err_code e) c
  | _, _ => false
  end.
(* the calls with an explicitly given layout, on an object that records and executes nothing (direct / malformed stream) *)
Definition case_ok_layered_direct (th du : list Z) (used : list N) (nq : Z) (data : list qinstr) (exp : list (list Z) + Z) : bool :=
  match translate_calls_layered Z Z (fun j => nth j th 0%Z) (fun j => nth j du 0%Z) used nq data, exp with
  | Ok cs, inl mv => zlist2_eqb (map lcall_view cs) mv
  | Err e, inr c => Z.eqb (err_code e) c
  | _, _ => false
  end.
