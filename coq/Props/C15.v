(* C15 — device parameters survive a save/load round trip unchanged.
   Property theorems only; proofs in Proofs/DevParamsProofs.v; the model Model/DevParams.v is tied to
   quantum_gates._utility.device_parameters by the exact correspondence run of checks/c15.py.

   Vocabulary (Proofs/DevParamsProofs.v):
     same o' o    := fields o' = fields o (all eight arrays: same shape, same values)  /\  layout o' = layout o
                     /\ py_eq o' o (the __eq__ of the class: equal canonical strings)  /\  is_complete o' = true
     json_ok o    := every attribute is an array of any rank with positive dimensions, metadata is set
     text_ok o    := n = len(layout) >= 1; T1,T2,p,rout,tm have shape (n,); dt has shape (1,); p_int,t_int have a
                     shape (r,c) with r,c >= 2, or r,c >= 1 when n = 1; metadata is set
     params_ok o  := n >= 1 distinct labels; T1,T2,p,rout,tm of shape (n,); dt (1,); p_int,t_int (m,m), m = max(layout)+1
     cycle fm     := save in format fm at the location, load into a fresh DeviceParameters(layout)
   The only hypothesis besides the domain is json_idem: json.dump(json.load(json.dump(metadata))) is the same text. *)
From Coq Require Import List Bool Arith.
Require Import QG.Base.Res QG.Model.DevParams QG.Proofs.DevParamsArrays QG.Proofs.DevParamsProofs.
Import ListNotations.

(* JSON: every complete object whose attributes are non-empty arrays (any layout, any rank, any values) comes back
   with identical arrays, compares equal and is complete -- after any number k of save/load cycles. *)
Theorem C15_json_roundtrip :
  forall (V M MJ : Type) (mjson : M -> MJ) (mload : MJ -> M), (forall m, mjson (mload (mjson m)) = mjson m) ->
  forall (k : nat) (f : fs V MJ) (o : obj V M), json_ok V M o ->
  exists f' o', cycles V M MJ mjson mload AsJson k (f, o) = Done (f', o') /\ same V M MJ mjson o' o.
Proof. exact json_cycles_ok. Qed.
Print Assumptions C15_json_roundtrip.

(* Text files: every qubit count n >= 1 (the one-qubit branch included), every table size that the format can carry. *)
Theorem C15_text_roundtrip :
  forall (V M MJ : Type) (mjson : M -> MJ) (mload : MJ -> M), (forall m, mjson (mload (mjson m)) = mjson m) ->
  forall (k : nat) (f : fs V MJ) (o : obj V M), text_ok V M o ->
  exists f' o', cycles V M MJ mjson mload AsTexts k (f, o) = Done (f', o') /\ same V M MJ mjson o' o.
Proof. exact text_cycles_ok. Qed.
Print Assumptions C15_text_roundtrip.

(* Both formats in any interleaving, for the parameter objects of a layout: any number n >= 1 of distinct labels
   (contiguous or scattered, any order), tables of size max(layout)+1. *)
Theorem C15_roundtrip_layouts :
  forall (V M MJ : Type) (mjson : M -> MJ) (mload : MJ -> M), (forall m, mjson (mload (mjson m)) = mjson m) ->
  forall (fms : list format) (f : fs V MJ) (o : obj V M), params_ok V M o ->
  exists f' o', cycles_seq V M MJ mjson mload fms (f, o) = Done (f', o') /\ same V M MJ mjson o' o.
Proof. exact params_cycles_seq_ok. Qed.
Print Assumptions C15_roundtrip_layouts.

(* Missing files: FileNotFoundError, and the object is untouched. *)
Theorem C15_missing_file_raises :
  forall (V M MJ : Type) (mload : MJ -> M) (f : fs V MJ) (o : obj V M),
  (jsonfile f = None -> load_from_json V M MJ mload f o = (o, Raise (Py FileNotFoundError))) /\
  ((exists k, get8 k (texts f) = None) \/ metafile f = None ->
     load_from_texts V M MJ mload f o = (o, Raise (Py FileNotFoundError))).
Proof. intros. split; [apply missing_json | apply missing_texts]. Qed.
Print Assumptions C15_missing_file_raises.

(* No load that raises -- for whatever reason, from whatever directory content -- leaves a fresh object that reports
   itself complete; and a load that returns normally always leaves a complete one. *)
Theorem C15_never_partial_complete :
  forall (V M MJ : Type) (mload : MJ -> M) (fm : format) (f : fs V MJ) (lay : list nat) (o' : obj V M),
  (forall x, load V M MJ mload fm f (init V M lay) = (o', Raise x) -> is_complete V M o' = false) /\
  (forall o, load V M MJ mload fm f o = (o', Done tt) -> is_complete V M o' = true).
Proof. intros. split; [intros x; apply failed_load_incomplete | intros o; apply ok_load_complete]. Qed.
Print Assumptions C15_never_partial_complete.

(* Non-vacuity: a one-qubit object for layout [2] (tables 3x3) and a two-qubit object for layout [1;0] meet
   params_ok; the model runs a text cycle followed by a JSON cycle on the first and returns the same arrays. *)
Example C15_example :
  let a s d := Some (mkArr s d) in
  let o1 := mkObj [2] (R8 (a [1] [10]) (a [1] [11]) (a [1] [12]) (a [1] [13]) (a [3; 3] [0;0;0;0;0;0;0;0;0])
                         (a [3; 3] [1;2;3;4;5;6;7;8;9]) (a [1] [14]) (a [1] [15])) (Some 7) in
  let o2 := mkObj [1; 0] (R8 (a [2] [10;20]) (a [2] [11;21]) (a [2] [12;22]) (a [2] [13;23]) (a [2; 2] [0;1;2;0])
                            (a [2; 2] [0;3;4;0]) (a [2] [14;24]) (a [1] [15])) (Some 7) in
  params_ok nat nat o1 /\ params_ok nat nat o2 /\
  match cycles_seq nat nat nat (fun m => m) (fun m => m) [AsTexts; AsJson] (empty_fs nat nat, o1) with
  | Done (_, o') => fields o' = fields o1
  | Raise _ => False
  end.
Proof.
  cbv zeta. split; [|split].
  - unfold params_ok. cbn. split; [auto|]. split; [repeat constructor; cbn; intuition discriminate|]. split; [discriminate|].
    intros k; destruct k; cbn; eexists; (split; [reflexivity|]); split; reflexivity.
  - unfold params_ok. cbn. split; [auto|]. split; [repeat constructor; cbn; intuition discriminate|]. split; [discriminate|].
    intros k; destruct k; cbn; eexists; (split; [reflexivity|]); split; reflexivity.
  - vm_compute. reflexivity.
Qed.
