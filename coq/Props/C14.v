(* C14 — stub, replaced below *)
From Coq Require Import List.
Require Import QG.Base.Res QG.Model.SimRun.
Import ListNotations.
Example C14_stub : front (mkargs CNoData true PsiNoShape None None None) = Err AttributeError.
Proof. reflexivity. Qed.
