(* C14 — a run returns a normalised distribution over all measured outcomes; inconsistent arguments raise ValueError.
   Property theorems only; proofs live in Proofs/SimRunKeys.v and Proofs/SimRunProofs.v.  The model Model/SimRun.v
   (validation sequence of run(), normalisation, _measurament) is tied to simulator.py by the exact correspondence run of
   checks/c14.py.  Probabilities are Coq real numbers (R); the implementation's floats deviate by rounding only.

   Vocabulary.  front a = Ok f: _process_layout, the "None qubit measured" test, _validate_input_of_run and the raising
   part of _preprocess_circuit accept the arguments a; f carries the ascending used-qubit list f_used, the measured
   (qubit, clbit) pairs f_meas in circuit order and f_n = number of used qubits.  perform f: the shot loop (C09), returning
   the averaged probability vector probs over the 2^f_n basis states.  data_wf a: every measure instruction acts on one
   qubit and one clbit (guaranteed by Qiskit).  A key is a list of booleans, first character first.
   spell n pos i: the characters of enc n i -- the n-character binary numeral of i (C14_numeral) -- at positions pos;
   positions_of f_meas f_used: for the k-th measured qubit its rank in f_used (C14_key_characters). *)
From Coq Require Import List Bool NArith ZArith Reals Lra.
Require Import QG.Base.Res QG.Model.FixCounts QG.Model.SimRun QG.Proofs.FixCountsKeys QG.Proofs.FixCountsProofs
  QG.Proofs.SimRunKeys QG.Proofs.SimRunProofs.
Import ListNotations.
Local Open Scope R_scope.

(* For m distinct measured qubits the run returns normally and its key set is exactly the set of all strings of m
   characters (2^m of them), without repetition. *)
Theorem C14_keys_all :
  forall (a : args) (f : front_out) (perform : front_out -> res (list R)) (probs : list R),
  front a = Ok f -> data_wf a -> NoDup (map fst (f_meas f)) ->
  perform f = Ok probs -> length probs = Nat.pow 2 (f_n f) -> Forall (Rle 0) probs -> 0 < rsum probs ->
  exists out, run_model R 0 Rplus Rdiv rpos a perform = Ok out /\
    (forall t, In t (map fst out) <-> length t = length (f_meas f)) /\ NoDup (map fst out).
Proof. exact keys_all. Qed.
Print Assumptions C14_keys_all.

Theorem C14_values_nonneg :
  forall (a : args) (f : front_out) (perform : front_out -> res (list R)) (probs : list R),
  front a = Ok f -> data_wf a -> NoDup (map fst (f_meas f)) ->
  perform f = Ok probs -> length probs = Nat.pow 2 (f_n f) -> Forall (Rle 0) probs -> 0 < rsum probs ->
  exists out, run_model R 0 Rplus Rdiv rpos a perform = Ok out /\ Forall (fun kv : list bool * R => 0 <= snd kv) out.
Proof. exact values_nonneg. Qed.
Print Assumptions C14_values_nonneg.

Theorem C14_values_sum_one :
  forall (a : args) (f : front_out) (perform : front_out -> res (list R)) (probs : list R),
  front a = Ok f -> data_wf a -> NoDup (map fst (f_meas f)) ->
  perform f = Ok probs -> length probs = Nat.pow 2 (f_n f) -> Forall (Rle 0) probs -> 0 < rsum probs ->
  exists out, run_model R 0 Rplus Rdiv rpos a perform = Ok out /\ rsum (map snd out) = 1.
Proof. exact values_sum_one. Qed.
Print Assumptions C14_values_sum_one.

(* The value under key t is the sum, over the basis indices i in ascending order whose measured characters spell t, of
   probs[i] / sum(probs). *)
Theorem C14_marginal_correct :
  forall (a : args) (f : front_out) (perform : front_out -> res (list R)) (probs : list R),
  front a = Ok f -> data_wf a -> NoDup (map fst (f_meas f)) ->
  perform f = Ok probs -> length probs = Nat.pow 2 (f_n f) -> Forall (Rle 0) probs -> 0 < rsum probs ->
  exists out, run_model R 0 Rplus Rdiv rpos a perform = Ok out /\
    forall t, length t = length (f_meas f) ->
      lookup R t out = Some (msum (map (fun x => x / rsum probs) probs) (f_n f) (positions_of (f_meas f) (f_used f)) t).
Proof. exact marginal_correct. Qed.
Print Assumptions C14_marginal_correct.

(* Reading of a key: character k of the key spelled by basis index i is the character of the binary numeral of i at
   the rank of the k-th measured qubit among the used qubits (qubit of lowest label = most significant = first). *)
Theorem C14_key_characters :
  (forall n pos i k, (k < length pos)%nat -> nth k (spell n pos i) false = nth (nth k pos O) (enc n (N.of_nat i)) false) /\
  (forall meas used k, Forall (fun qc : N * N => In (fst qc) used) meas -> (k < length meas)%nat ->
     index_of (fst (nth k meas (0%N, 0%N))) used = Some (nth k (positions_of meas used) O)).
Proof. split. exact spell_char. exact positions_of_nth. Qed.
Print Assumptions C14_key_characters.
Theorem C14_numeral :
  forall n x, (0 < n)%nat -> (x < 2 ^ N.of_nat n)%N -> length (enc n x) = n /\ val (enc n x) = x.
Proof. intros n x Hn Hx. split. now apply enc_len. apply val_enc. Qed.
Print Assumptions C14_numeral.

(* Inconsistent arguments are refused with ValueError before the shot loop is looked at (for every scalar type and
   every `perform`).  The listed inconsistencies (listed_malformed): no measurement; shots not an int; shots < 1;
   device_param not a dict; psi0.shape <> (2**nqubit,); nqubit larger than the number of used qubits; nqubit larger
   than len(device_param["T1"]); nqubit not an int.  Side conditions: the circuit object is a QuantumCircuit, psi0 has
   a .shape, a dict device_param has a key "T1" with a length (otherwise Python raises AttributeError / KeyError /
   TypeError at the corresponding statement, which the model reproduces). *)
Theorem C14_invalid_rejected :
  forall (V : Type) (vzero : V) (vadd vdiv : V -> V -> V) (vpos : V -> bool) (a : args) (data : list instr)
         (used : list N) (meas : list (N * N)) (n : nat) (dims : list Z) (perform : front_out -> res (list V)),
  a_circ a = CData true data -> process_layout data = Ok (used, meas, n) ->
  a_psi0 a = PsiShape dims -> a_params a <> Some T1Missing -> a_params a <> Some T1NoLen ->
  listed_malformed a n (length meas) ->
  run_model V vzero vadd vdiv vpos a perform = Err ValueError.
Proof. exact run_invalid. Qed.
Print Assumptions C14_invalid_rejected.

(* What acceptance means: front a = Ok f forces every consistency condition of the property. *)
Theorem C14_accepted_is_consistent :
  forall a f, front a = Ok f ->
  exists data, a_circ a = CData true data /\ process_layout data = Ok (f_used f, f_meas f, f_n f) /\
    f_meas f <> [] /\ a_shots a = Some (f_shots f) /\ (1 <= f_shots f)%Z /\
    a_nqubit a = Some (f_nqubit f) /\ (f_nqubit f <= Z.of_nat (f_n f))%Z /\
    (exists dims, a_psi0 a = PsiShape dims /\ pow2_shape_ok dims (f_nqubit f) = true) /\
    (exists k, a_params a = Some (T1Len k) /\ (f_nqubit f <= k)%Z).
Proof. exact front_ok_inv. Qed.
Print Assumptions C14_accepted_is_consistent.

(* Non-vacuity: x(0); cx(0,2); measure 2 -> c0, measure 0 -> c1 on labels {0,2}; nqubit = 2, shots = 3, psi0 of length 4,
   tables of length 3: accepted, with the hypotheses of the theorems satisfiable; and two refused variants. *)
Example C14_example :
  let data := [mkinstr OpX [0%N] []; mkinstr OpCx [0%N; 2%N] []; mkinstr OpMeasure [2%N] [0%N]; mkinstr OpMeasure [0%N] [1%N]] in
  let a := mkargs (CData true data) true (PsiShape [4%Z]) (Some 3%Z) (Some (T1Len 3%Z)) (Some 2%Z) in
  let f := mkfront [0%N; 2%N] [(2%N, 0%N); (0%N, 1%N)] 2 2%Z 3%Z in
  front a = Ok f /\ data_wf a /\ NoDup (map fst (f_meas f)) /\ positions_of (f_meas f) (f_used f) = [1%nat; 0%nat] /\
  (let probs := [1; 0; 2; 1] in length probs = Nat.pow 2 (f_n f) /\ Forall (Rle 0) probs /\ 0 < rsum probs) /\
  front (mkargs (CData true data) true (PsiShape [4%Z]) (Some 0%Z) (Some (T1Len 3%Z)) (Some 2%Z)) = Err ValueError /\
  front (mkargs (CData true data) true (PsiShape [8%Z]) (Some 3%Z) (Some (T1Len 3%Z)) (Some 3%Z)) = Err ValueError.
Proof.
  cbv zeta. split; [vm_compute; reflexivity|]. split.
  { unfold data_wf. cbn [a_circ]. repeat (apply Forall_cons; [intros H; try discriminate H; cbn; eauto|]). apply Forall_nil. }
  split. { cbn. repeat constructor; cbn; intuition discriminate. }
  split; [vm_compute; reflexivity|]. split.
  { split; [reflexivity|]. split. { repeat constructor; lra. } unfold rsum. cbn. lra. }
  split; vm_compute; reflexivity.
Qed.
