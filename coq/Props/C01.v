(* C01 — every layer-based backend applies exactly the layered Kronecker product.
   Property theorems only; proofs live in Proofs/Backends*.v; the models (Model/Backends.v) are tied to
   quantum_gates/_simulation/backend.py by the exact correspondence run of checks/c01.py.
   Vocabulary: Base/State.v (apply1/apply2/sem on amplitude functions, qubit 0 = first = most significant bit),
   Base/Mat.v (matrices / Kronecker products / sums over big-endian bit-list indices),
   Proofs/BackendsSpec.v (wf_layer, layer_items, layers_sem). R ranges over all commutative rings. *)
From Coq Require Import List Bool Arith Ring ZArith.
Require Import QG.Base.Res QG.Base.State QG.Base.Mat QG.Base.ZI QG.Model.Backends QG.Model.Optimizer QG.Model.Sparse.
Require Import QG.Proofs.BackendsSpec QG.Proofs.BackendsKron QG.Proofs.BackendsContract QG.Proofs.BackendsEff QG.Proofs.BackendsOnes.
Require Import QG.Proofs.BackendsEffFull QG.Proofs.BackendsBinary QG.Proofs.OptimizerSem.
Require QG.Props.C02 QG.Proofs.SparseApply.
Import ListNotations.

Section Statements.
Variable R : Type.
Variables (rO rI : R) (radd rmul rsub : R -> R -> R) (ropp : R -> R).
Notation wf_layer := (wf_layer R).
Notation layers_sem := (layers_sem R radd rmul).
Notation state_eq := (state_eq R).

(* SPEC side: layers_sem ls = sem (concat (map (layer_items 0) ls)): entry k of a layer acts on qubit k, a 4x4 block on
   the two qubits it spans, layers in list order. *)

(* the specification is linear in the input vector *)
Definition spec_linear_stmt : Prop := forall ls,
  (forall s t b, layers_sem ls (sadd R radd s t) b = sadd R radd (layers_sem ls s) (layers_sem ls t) b) /\
  (forall c s b, layers_sem ls (sscale R rmul c s) b = sscale R rmul c (layers_sem ls s) b).

(* identity entries never change the result: the items of all 2x2 entries recognised as identities by any sound test
   can be deleted from every layer *)
Definition id_irrelevant_stmt : Prop := forall isb : m2 R -> bool,
  (forall A, isb A = true -> forall r c, A r c = id2 R rO rI r c) ->
  forall ls psi b, layers_sem ls psi b
                   = sem R radd rmul (drop_ids R isb (concat (map (layer_items R 0) ls))) psi b.

(* the Kronecker wording: (A_1 (x) ... (x) A_k) applied as a matrix = the slot semantics of the layer
   (kronW = right-nested np.kron with the placeholder as 1x1 unit; ft.reduce(np.kron, .) equals it: fold_left_wkron) *)
Definition kron_is_slots_stmt : Prop := forall n l psi, wf_layer n l ->
  state_eq n (mv R radd rmul n (snd (kronW R rI rmul (map (ofE R rI) l))) psi) (sem R radd rmul (layer_items R 0 l) psi).

(* one einsum contraction step "ab,cd,bd->ac" on the row-major reshape = Kronecker mat-vec *)
Definition kron_step_stmt : Prop := forall w1 w2 A B v x,
  mv R radd rmul (w1 + w2) (kron R rmul w1 A B) v x =
  bsum R radd w1 (fun b => rmul (A (firstn w1 x) b) (mv R radd rmul w2 B (fun c => v (b ++ c)) (skipn w1 x))).

(* StandardBackend *)
Definition std_spec_stmt : Prop := forall n ls psi, 1 <= n -> ls <> [] -> Forall (wf_layer n) ls ->
  exists out, std R rI radd rmul n ls psi = Ok (OutVec out) /\ state_eq n out (layers_sem ls psi).

(* EfficientBackend, full strength: every (min, opt) >= 1 for which the code's assertion 2 * nr_of_matrices <= 26 holds
   in the many-chunk regime (4 <= n and 2*opt <= n; the other regimes use 0 or 2 operands).  eff_nchunks n mn op
   (Proofs/BackendsEffFull.v, unfolded in C01_eff_nchunks_def) is the exact number of operands _chunk_list produces
   for a layer of n entries (C01_chunk_count). *)
Definition eff_spec_full : Prop := forall n mn op ls psi,
  1 <= n -> 1 <= mn -> 1 <= op -> ls <> [] -> Forall (wf_layer n) ls ->
  (4 <= n -> 2 * op <= n -> 2 * eff_nchunks n mn op <= 26) ->
  exists out, eff R rI radd rmul n mn op ls psi = Ok out /\ state_eq n out (layers_sem ls psi).
(* the converse: the hypothesis is exactly the code's assertion (backend.py:180), which fires otherwise *)
Definition eff_assert_stmt : Prop := forall n mn op ls psi,
  4 <= n -> 1 <= op -> 2 * op <= n -> ls <> [] -> Forall (wf_layer n) ls ->
  26 < 2 * eff_nchunks n mn op ->
  eff R rI radd rmul n mn op ls psi = Err AssertionError.
(* corollary kept from the earlier development: the simpler sufficient bound "at most n/opt + 1 chunks" *)
Definition eff_spec_suff_stmt : Prop := forall n mn op ls psi,
  1 <= n -> 1 <= mn -> 1 <= op -> ls <> [] -> Forall (wf_layer n) ls ->
  (4 <= n -> 2 * op <= n -> 2 * (n / op + 1) <= 26) ->
  exists out, eff R rI radd rmul n mn op ls psi = Ok out /\ state_eq n out (layers_sem ls psi).

(* BackendForOnes, full strength: for every identity test that only accepts exact 2x2 identities, and every layer list
   whose layers hold at most 26 matrices (the code's assertion at backend.py:500; without it the statement is false,
   see C01_ones_assertion_needed below) *)
Definition ones_spec_stmt : Prop := forall (is_id : entry R -> bool) n ls psi,
  (forall e, is_id e = true -> exists A, e = En2 A /\ forall r c, A r c = id2 R rO rI r c) ->
  1 <= n -> ls <> [] -> Forall (wf_layer n) ls ->
  Forall (fun l => length (filter (fun e => negb (isOne R e)) l) <= 26) ls ->
  exists out, ones R rI radd rmul is_id n ls psi = Ok out /\ state_eq n out (layers_sem ls psi).

(* ---- the index-based backend on layer-shaped input.  items_of_layers (Proofs/BackendsBinary.v) lists, layer by layer,
   (M2 A, [q]) for a 2x2 entry at slot q and (M4 G, [q; q+1]) for a 4x4 block on slots q, q+1 (placeholder on either
   side); den / wf_in / optimize / bin_statevector are C02's vocabulary and models. *)
Notation mitem := (mat R * list Z)%type.
Notation den := (den R rO rI).
Notation optimize_R := (optimize (mat R) (mmul R radd rmul) (mkron R rmul) (mid2 R rO rI) (mid4 R rO rI)).
(* (a) feeding the same matrices item by item to the item semantics IS the layered specification, the items are
   well-formed optimizer/BinaryBackend input, and there is at least one *)
Definition items_spec_stmt : Prop := forall n ls,
  Forall (wf_layer n) ls ->
  (forall psi, sem R radd rmul (map den (items_of_layers R ls)) psi = layers_sem ls psi) /\
  Forall (wf_in R n) (items_of_layers R ls) /\
  Forall (wf_item R n) (concat (map (layer_items R 0) ls)) /\
  (1 <= n -> ls <> [] -> items_of_layers R ls <> []).
(* (b) every level of C02's gate-fusion optimizer keeps the layered specification *)
Definition optimize_layers_stmt : Prop := forall level n ls, level <= 4 -> Forall (wf_layer n) ls ->
  exists out, optimize_R level n (items_of_layers R ls) = Ok out /\
    length out <= length (items_of_layers R ls) /\ Forall (wf_item R n) (map den out) /\
    forall psi, state_eq n (sem R radd rmul (map den out) psi) (layers_sem ls psi).
(* (c) the hypothesis about BinaryBackend's operator construction = C02_backend_full at this ring *)
Definition bin_backend_correct_stmt (entry_mat : mat R -> N -> N -> R) : Prop :=
  forall (n : nat) (items : list mitem) (psi : State.state R),
  items <> [] -> Forall (wf_in R n) items ->
  exists out, bin_statevector R rO radd rmul (mat R) (mmul R radd rmul) (mkron R rmul) (mid2 R rO rI) (mid4 R rO rI)
                entry_mat n items psi = Ok out /\
    state_eq n out (sem R radd rmul (map den items) psi).
(* binary_agrees: BinaryBackend (optimisation at level 4 included) on the items of a layer list returns the layered
   specification, hence the same vector as StandardBackend (likewise for the other two, by C01_eff_spec/C01_ones_spec) *)
Definition binary_agrees_stmt (entry_mat : mat R -> N -> N -> R) : Prop := forall n ls psi,
  1 <= n -> ls <> [] -> Forall (wf_layer n) ls ->
  exists o2, bin_statevector R rO radd rmul (mat R) (mmul R radd rmul) (mkron R rmul) (mid2 R rO rI) (mid4 R rO rI)
               entry_mat n (items_of_layers R ls) psi = Ok o2 /\
    state_eq n o2 (layers_sem ls psi) /\
    exists o1, std R rI radd rmul n ls psi = Ok (OutVec o1) /\ state_eq n o1 o2.
End Statements.

Theorem C01_spec_linear : forall R rO rI radd rmul rsub ropp, ring_theory rO rI radd rmul rsub ropp eq ->
  spec_linear_stmt R radd rmul.
Proof. intros R rO rI radd rmul rsub ropp Rth ls. exact (spec_linear R rO rI radd rmul rsub ropp Rth ls). Qed.
Print Assumptions C01_spec_linear.

Theorem C01_id_irrelevant : forall R rO rI radd rmul rsub ropp, ring_theory rO rI radd rmul rsub ropp eq ->
  id_irrelevant_stmt R rO rI radd rmul.
Proof. intros R rO rI radd rmul rsub ropp Rth isb H. exact (id_irrelevant R rO rI radd rmul rsub ropp Rth isb H). Qed.
Print Assumptions C01_id_irrelevant.

Theorem C01_kron_step : forall R rO rI radd rmul rsub ropp, ring_theory rO rI radd rmul rsub ropp eq ->
  kron_step_stmt R radd rmul.
Proof. intros R rO rI radd rmul rsub ropp Rth w1 w2 A B v x. exact (kron_step R rO rI radd rmul rsub ropp Rth w1 w2 A B v x). Qed.
Print Assumptions C01_kron_step.

Theorem C01_kron_is_slots : forall R rO rI radd rmul rsub ropp, ring_theory rO rI radd rmul rsub ropp eq ->
  kron_is_slots_stmt R rI radd rmul.
Proof. intros R rO rI radd rmul rsub ropp Rth n l psi. exact (kron_is_slots R rO rI radd rmul rsub ropp Rth n l psi). Qed.
Print Assumptions C01_kron_is_slots.

Theorem C01_std_spec : forall R rO rI radd rmul rsub ropp, ring_theory rO rI radd rmul rsub ropp eq ->
  std_spec_stmt R rI radd rmul.
Proof. intros R rO rI radd rmul rsub ropp Rth n ls psi. exact (std_spec R rO rI radd rmul rsub ropp Rth n ls psi). Qed.
Print Assumptions C01_std_spec.

Theorem C01_eff_nchunks_def : forall n mn op, eff_nchunks n mn op =
  (let q := n / op in let r := n mod op in
   let cnt := if r =? 0 then q else q + 1 in      (* len(range(0, n, op)) *)
   let last := if r =? 0 then op else r in        (* len(chunks[-1]) *)
   if last <? mn then cnt - 1 else cnt).          (* merged into chunks[-2] when shorter than min_chunk_size *)
Proof. reflexivity. Qed.

(* _chunk_list returns exactly eff_nchunks (len l) mn opt chunks, for every list *)
Theorem C01_chunk_count : forall (A : Type) (l : list A) mn opt cs, 1 <= opt -> 2 * opt <= length l ->
  chunk_list l mn opt = Ok cs -> length cs = eff_nchunks (length l) mn opt.
Proof. intros A l mn opt cs. exact (chunk_list_count l mn opt cs). Qed.
Print Assumptions C01_chunk_count.

Theorem C01_eff_spec : forall R rO rI radd rmul rsub ropp, ring_theory rO rI radd rmul rsub ropp eq ->
  eff_spec_full R rI radd rmul.
Proof. intros R rO rI radd rmul rsub ropp Rth n mn op ls psi. exact (eff_spec_exact R rO rI radd rmul rsub ropp Rth n mn op ls psi). Qed.
Print Assumptions C01_eff_spec.

Theorem C01_eff_assertion_exact : forall R rO rI radd rmul rsub ropp, ring_theory rO rI radd rmul rsub ropp eq ->
  eff_assert_stmt R rI radd rmul.
Proof. intros R rO rI radd rmul rsub ropp Rth n mn op ls psi. exact (eff_assert_exact R rO rI radd rmul rsub ropp Rth n mn op ls psi). Qed.
Print Assumptions C01_eff_assertion_exact.

Theorem C01_eff_spec_suff : forall R rO rI radd rmul rsub ropp, ring_theory rO rI radd rmul rsub ropp eq ->
  eff_spec_suff_stmt R rI radd rmul.
Proof. intros R rO rI radd rmul rsub ropp Rth n mn op ls psi. exact (eff_spec R rO rI radd rmul rsub ropp Rth n mn op ls psi). Qed.
Print Assumptions C01_eff_spec_suff.

Theorem C01_ones_spec : forall R rO rI radd rmul rsub ropp, ring_theory rO rI radd rmul rsub ropp eq ->
  ones_spec_stmt R rO rI radd rmul.
Proof. intros R rO rI radd rmul rsub ropp Rth is_id n ls psi Hid. exact (ones_spec R rO rI radd rmul rsub ropp Rth is_id Hid n ls psi). Qed.
Print Assumptions C01_ones_spec.

(* chunking facts used by eff_spec, for every list: the chunks concatenate to the list, none is empty *)
Theorem C01_chunk_list : forall (A : Type) (l : list A) mn opt, 1 <= opt -> 2 * opt <= length l ->
  exists cs, chunk_list l mn opt = Ok cs /\ concat cs = l /\ Forall (fun c => c <> []) cs /\ length cs <= length l / opt + 1.
Proof. intros A l mn opt. exact (chunk_list_spec l mn opt). Qed.
Print Assumptions C01_chunk_list.

(* ---- index-based backend ---- *)
(* items_of_layers unfolded: what a caller of BinaryBackend.statevector passes for a layer list *)
Theorem C01_items_of_layers_def : forall R (ls : list (list (entry R))),
  items_of_layers R ls = concat (map (layer_mitems R 0) ls) /\
  (forall q, layer_mitems R q [] = []) /\
  (forall q A r, layer_mitems R q (En2 A :: r) = (M2 R A, [Z.of_nat q]) :: layer_mitems R (S q) r) /\
  (forall q G r, layer_mitems R q (En4 G :: EnOne :: r) = (M4 R G, [Z.of_nat q; Z.of_nat (S q)]) :: layer_mitems R (S (S q)) r) /\
  (forall q G r, layer_mitems R q (EnOne :: En4 G :: r) = (M4 R G, [Z.of_nat q; Z.of_nat (S q)]) :: layer_mitems R (S (S q)) r).
Proof. intros R ls. repeat split. Qed.

Theorem C01_items_spec : forall R rO rI radd rmul rsub ropp, ring_theory rO rI radd rmul rsub ropp eq ->
  items_spec_stmt R rO rI radd rmul.
Proof. intros R rO rI radd rmul rsub ropp Rth n ls. exact (items_spec R rO rI radd rmul n ls). Qed.
Print Assumptions C01_items_spec.

Theorem C01_optimize_layers : forall R rO rI radd rmul rsub ropp, ring_theory rO rI radd rmul rsub ropp eq ->
  optimize_layers_stmt R rO rI radd rmul.
Proof. intros R rO rI radd rmul rsub ropp Rth level n ls. exact (optimize_layers R rO rI radd rmul rsub ropp Rth level n ls). Qed.
Print Assumptions C01_optimize_layers.

(* binary_agrees, with the correctness of BinaryBackend's sparse operators as the explicit premise *)
Theorem C01_binary_agrees_hyp : forall R rO rI radd rmul rsub ropp, ring_theory rO rI radd rmul rsub ropp eq ->
  forall entry_mat, bin_backend_correct_stmt R rO rI radd rmul entry_mat -> binary_agrees_stmt R rO rI radd rmul entry_mat.
Proof.
  intros R rO rI radd rmul rsub ropp Rth entry_mat Hbin n ls psi.
  exact (binary_agrees_std R rO rI radd rmul rsub ropp Rth entry_mat Hbin n ls psi).
Qed.
Print Assumptions C01_binary_agrees_hyp.

(* the premise is literally C02's open statement C02_backend_full (Props/C02.v), with C02's entry reader *)
Theorem C01_binary_agrees : C02.C02_backend_full ->
  forall R rO rI radd rmul rsub ropp, ring_theory rO rI radd rmul rsub ropp eq ->
  binary_agrees_stmt R rO rI radd rmul (SparseApply.entry_mat R rO).
Proof.
  intros Hfull R rO rI radd rmul rsub ropp Rth. apply (C01_binary_agrees_hyp R rO rI radd rmul rsub ropp Rth).
  intros n items psi. exact (Hfull R rO rI radd rmul rsub ropp Rth n items psi).
Qed.
Print Assumptions C01_binary_agrees.

(* ... and C02_bin_spec (Props/C02.v) proves that premise, so the statement holds outright *)
Theorem C01_binary_agrees_closed :
  forall R rO rI radd rmul rsub ropp, ring_theory rO rI radd rmul rsub ropp eq ->
  binary_agrees_stmt R rO rI radd rmul (SparseApply.entry_mat R rO).
Proof. exact (C01_binary_agrees C02.C02_bin_spec). Qed.
Print Assumptions C01_binary_agrees_closed.

(* Non-vacuity: a concrete 4-qubit layer list over the Gaussian integers is well-formed, and the three models compute
   the same vector as the slot semantics on it. *)
Local Open Scope Z_scope.
Definition exH : m2 ZI := fun r c => if andb r c then (-1, 0) else (1, 0).
Definition exG : m4 ZI := fun r c => if andb (fst r) (negb (Bool.eqb (snd r) (snd c))) then (0, 1) else
                                   if Bool.eqb (fst r) (fst c) && Bool.eqb (snd r) (snd c) then (1, 0) else (0, 0).
Definition exI : m2 ZI := id2 ZI zi0 zi1.
Definition exLayers : list (list (entry ZI)) := [[En2 exH; En4 exG; EnOne; En2 exI]; [EnOne; En4 exG; En2 exI; En2 exH]].
Definition exPsi : bits -> ZI := fun b => (Z.of_N (bval b), 1).
Example C01_example :
  Forall (wf_layer ZI 4) exLayers /\
  let spec := map (layers_sem ZI ziadd zimul exLayers exPsi) (all_bits 4) in
  (match std ZI zi1 ziadd zimul 4 exLayers exPsi with Ok (OutVec s) => map s (all_bits 4) = spec | _ => False end) /\
  (match eff ZI zi1 ziadd zimul 4 1 1 exLayers exPsi with Ok s => map s (all_bits 4) = spec | _ => False end) /\
  (match eff ZI zi1 ziadd zimul 4 3 4 exLayers exPsi with Ok s => map s (all_bits 4) = spec | _ => False end).
Proof.
  split.
  - repeat constructor.
  - vm_compute. repeat split; reflexivity.
Qed.

(* the same layers through BackendForOnes, below (n = 4) and above (n = 7) the identity-skipping regime *)
Definition exIsId := is_id_eqb zi0 zi1 zieqb.
Definition exLayers7 : list (list (entry ZI)) :=
  [[En2 exH; En4 exG; EnOne; En2 exI; EnOne; En4 exG; En2 exH]; [En2 exI; En2 exI; En2 exH; En4 exG; EnOne; En2 exI; En2 exI]].
Example C01_example_ones :
  Forall (wf_layer ZI 7) exLayers7 /\
  (match ones ZI zi1 ziadd zimul exIsId 4 exLayers exPsi with
   | Ok s => map s (all_bits 4) = map (layers_sem ZI ziadd zimul exLayers exPsi) (all_bits 4) | _ => False end) /\
  (match ones ZI zi1 ziadd zimul exIsId 7 exLayers7 exPsi with
   | Ok s => map s (all_bits 7) = map (layers_sem ZI ziadd zimul exLayers7 exPsi) (all_bits 7) | _ => False end).
Proof.
  split.
  - repeat constructor.
  - vm_compute. repeat split; reflexivity.
Qed.

(* the 26-matrix hypothesis of C01_ones_spec is necessary: 27 one-qubit entries hit the assertion *)
Example C01_ones_assertion_needed :
  Forall (wf_layer ZI 27) [repeat (En2 exH) 27] /\
  is_ok (ones ZI zi1 ziadd zimul exIsId 27 [repeat (En2 exH) 27] exPsi) = false.
Proof. split; [repeat constructor | vm_compute; reflexivity]. Qed.

(* the exact operand count on the docstring example of _chunk_list (7 items, min 2, opt 3 -> 2 chunks), on a setting
   where a full-size last chunk is merged (opt < min), and at the 13/14-operand boundary of the assertion *)
Example C01_eff_nchunks_examples :
  (eff_nchunks 7 2 3 = 2 /\ eff_nchunks 8 3 2 = 3 /\ eff_nchunks 27 2 2 = 13 /\ eff_nchunks 27 1 2 = 14 /\
   rmap (map (@length nat)) (chunk_list (seq 0 8) 3 2) = Ok [2; 2; 4])%nat.
Proof. vm_compute. repeat split; reflexivity. Qed.

(* the many-chunk regime with a merged full-size last chunk (n = 4, min 3, opt 2: slices [2;2], the last one is shorter
   than min, one operand remains), and the index-based backend model (C02's Model/Sparse.v) on the items of the same
   layers: both equal the slot semantics *)
Example C01_example_eff_binary :
  let spec := map (layers_sem ZI ziadd zimul exLayers exPsi) (all_bits 4) in
  eff_nchunks 4 3 2 = 1%nat /\
  (match eff ZI zi1 ziadd zimul 4 3 2 exLayers exPsi with Ok s => map s (all_bits 4) = spec | _ => False end) /\
  (match bin_statevector ZI zi0 ziadd zimul (mat ZI) (mmul ZI ziadd zimul) (mkron ZI zimul) (mid2 ZI zi0 zi1) (mid4 ZI zi0 zi1)
           (SparseApply.entry_mat ZI zi0) 4 (items_of_layers ZI exLayers) exPsi with
   | Ok s => map s (all_bits 4) = spec | _ => False end).
Proof. vm_compute. repeat split; reflexivity. Qed.
