(* C01 — placeholder, filled in below *)
From Coq Require Import List Bool.
Require Import QG.Base.Res QG.Base.State QG.Base.Mat QG.Model.Backends.
Import ListNotations.
