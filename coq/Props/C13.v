(* C13 — pulse objects are normalised waveforms with a consistent parametrisation.
   Property theorems only.  Subject: Gen/GenPulse.v, regenerated from quantum_gates/_gates/pulse.py on every run by
   checks/c13_translate.py (gaussian_pulse, gaussian_parametrization, validate_denominator, validate_inputs_ok,
   GaussianPulse_* / ConstantPulse* hand-off to Pulse.__init__, one, identity, Pulse_epsilon, Pulse_check_n_points);
   hand model of the optional validation: Model/Pulse.v (validate, valid_pair), tied by the accept/reject runs.
   Trusted facts about scipy.stats.norm enter as hypotheses: cdf(.,loc,scale)' = pdf(.,loc,scale), pdf >= 0, pdf continuous. *)
From Coq Require Import Reals Lra Lia List.
From Coquelicot Require Import Coquelicot.
Require Import QG.Model.Pulse QG.Gen.GenPulse QG.Proofs.PulseGauss QG.Proofs.PulseValidate.
Open Scope R_scope.

(* Every Gaussian pulse the constructor accepts (denominator <> 0): the denominator is positive, the waveform f is
   non-negative and integrates to 1 on [0,1], the parametrisation F is its running integral (F' = f everywhere,
   int_0^x f = F x), monotone, F 0 = 0, F 1 = 1, and maps [0,1] into [0,1]. *)
Theorem C13_gaussian_pulse :
  forall (pdf cdf : R -> R -> R -> R) (loc scale : R),
  (forall x, is_derive (fun y => cdf y loc scale) x (pdf x loc scale)) ->
  (forall x, 0 <= pdf x loc scale) ->
  (forall x, continuous (fun y => pdf y loc scale) x) ->
  validate_inputs_ok cdf loc scale ->
  let f := GaussianPulse_waveform pdf cdf loc scale in
  let F := GaussianPulse_parametrization cdf loc scale in
  validate_denominator cdf loc scale > 0 /\
  F 0 = 0 /\ F 1 = 1 /\
  (forall x, is_derive F x (f x)) /\
  (forall x, 0 <= f x) /\
  (forall x y, x <= y -> F x <= F y) /\
  is_RInt f 0 1 1 /\
  (forall x, is_RInt f 0 x (F x)) /\
  (forall x, 0 <= x <= 1 -> 0 <= F x <= 1) /\
  (forall x, continuous F x) /\
  valid_pair f F.
Proof.
  intros pdf cdf loc scale Hd Hp Hc Hacc f F.
  split. { apply (D_pos pdf cdf loc scale); assumption. }
  split. { apply (F_0 pdf cdf loc scale); assumption. }
  split. { apply (F_1 pdf cdf loc scale); assumption. }
  split. { intros x. apply (F_derive pdf cdf loc scale); assumption. }
  split. { intros x. apply (f_nonneg pdf cdf loc scale); assumption. }
  split. { intros x y. apply (F_mono pdf cdf loc scale); assumption. }
  split. { apply (f_normalised pdf cdf loc scale); assumption. }
  split. { intros x. apply (F_running pdf cdf loc scale); assumption. }
  split. { intros x. apply (F_range pdf cdf loc scale); assumption. }
  split. { intros x. apply (F_cont pdf cdf loc scale); assumption. }
  apply (gaussian_valid_pair pdf cdf loc scale); assumption.
Qed.
Print Assumptions C13_gaussian_pulse.

(* the constructor's check is exactly "cdf(1) - cdf(0) <> 0" with the same loc/scale convention as the two formulas *)
Theorem C13_validate_inputs :
  forall (cdf : R -> R -> R -> R) (loc scale : R),
  validate_inputs_ok cdf loc scale <-> cdf 1 loc scale - cdf 0 loc scale <> 0.
Proof. intros. unfold validate_inputs_ok, validate_denominator. tauto. Qed.
Print Assumptions C13_validate_inputs.

(* the shipped constant pulses: waveform 1, parametrisation x, a valid pair; only ConstantPulse uses the lookup *)
Theorem C13_constant_pulses :
  (forall x, ConstantPulse_waveform x = 1) /\ (forall x, ConstantPulse_parametrization x = x) /\
  (forall x, ConstantPulseNumerical_waveform x = 1) /\ (forall x, ConstantPulseNumerical_parametrization x = x) /\
  ConstantPulse_use_lookup = true /\ ConstantPulseNumerical_use_lookup = false /\ GaussianPulse_use_lookup = false /\
  valid_pair ConstantPulse_waveform ConstantPulse_parametrization /\
  valid_pair ConstantPulseNumerical_waveform ConstantPulseNumerical_parametrization.
Proof.
  assert (V : valid_pair one identity).
  { assert (Hc : forall x, is_RInt one 0 x (identity x)).
    { intros x. unfold one, identity.
      replace x with (scal (x - 0) 1) at 2 by (unfold scal; simpl; unfold mult; simpl; ring).
      apply (@is_RInt_const R_CompleteNormedModule). }
    unfold valid_pair. split; [| split; [| split; [| split; [| split]]]].
    - intros x _. unfold one. lra.
    - apply (Hc 1).
    - reflexivity.
    - reflexivity.
    - intros x y [_ H] _. exact H.
    - intros x _. apply Hc. }
  split; [intros; reflexivity |]. split; [intros; reflexivity |]. split; [intros; reflexivity |]. split; [intros; reflexivity |].
  split; [reflexivity |]. split; [reflexivity |]. split; [reflexivity |]. split; exact V.
Qed.
Print Assumptions C13_constant_pulses.

(* Validation (perform_checks=True), for every eps in (0, 1/2] and n >= 2: an exactly valid pair passes ... *)
Theorem C13_validate_complete :
  forall (eps : R) (n : nat), 0 < eps -> eps <= 1 / 2 -> (2 <= n)%nat ->
  forall f F, valid_pair f F -> validate eps n f F.
Proof. exact validate_complete. Qed.
Print Assumptions C13_validate_complete.

(* ... a pair that passes is within eps of valid at every sampled place (the eps/grid reading of "fails for invalid
   pairs": not normalised by >= eps, end points off by >= eps, running integral off by > eps at a grid point, negative
   or decreasing at a grid point => rejected) ... *)
Theorem C13_validate_sound_at_grid :
  forall (eps : R) (n : nat) (f F : R -> R),
  ( Rabs (RInt f 0 1 - 1) >= eps \/
    (exists x, In x (linspace 0 1 n) /\ f x < 0) \/
    Rabs (F 0) >= eps \/ Rabs (F 1 - 1) >= eps \/
    (exists x, In x (linspace 0 (1 - eps) n) /\ F (x + eps) < F x) \/
    (exists x, In x (linspace eps (1 - eps) n) /\ Rabs (RInt f 0 x - F x) > eps) ) ->
  ~ validate eps n f F.
Proof. exact validate_rejects. Qed.
Print Assumptions C13_validate_sound_at_grid.

(* ... and the literal reading (every pair that passes is exactly valid) is false of any sampled check:
   f = 1, F x = x + eps/2 passes. *)
Definition C13_validate_sound_full : Prop := forall eps n, 0 < eps -> eps <= 1 / 2 -> (2 <= n)%nat -> validate_sound_literal eps n.
Theorem C13_validate_sound_full_refuted : ~ C13_validate_sound_full.
Proof.
  intros H. apply (validate_sound_literal_refuted (1 / 2) 2); try lra; try lia. apply H; try lra; lia.
Qed.
Print Assumptions C13_validate_sound_full_refuted.

(* the constants of the current source are in the range the theorems need, and every accepted Gaussian pulse passes the
   validation with them *)
Theorem C13_source_constants_and_gaussian_validates :
  0 < Pulse_epsilon /\ Pulse_epsilon <= 1 / 2 /\ (2 <= Pulse_check_n_points)%nat /\
  forall (pdf cdf : R -> R -> R -> R) (loc scale : R),
  (forall x, is_derive (fun y => cdf y loc scale) x (pdf x loc scale)) ->
  (forall x, 0 <= pdf x loc scale) ->
  (forall x, continuous (fun y => pdf y loc scale) x) ->
  validate_inputs_ok cdf loc scale ->
  validate Pulse_epsilon Pulse_check_n_points (GaussianPulse_waveform pdf cdf loc scale) (GaussianPulse_parametrization cdf loc scale).
Proof.
  assert (A : 0 < Pulse_epsilon) by (unfold Pulse_epsilon; lra).
  assert (B : Pulse_epsilon <= 1 / 2) by (unfold Pulse_epsilon; lra).
  assert (C : (2 <= Pulse_check_n_points)%nat) by (unfold Pulse_check_n_points; lia).
  split; [exact A | split; [exact B | split; [exact C |]]].
  intros pdf cdf loc scale Hd Hp Hc Hacc.
  apply (validate_complete _ _ A B C). apply (gaussian_valid_pair pdf cdf loc scale); assumption.
Qed.
Print Assumptions C13_source_constants_and_gaussian_validates.

(* Non-vacuity: the hypotheses about pdf/cdf are satisfiable together with the constructor's check
   (uniform density: pdf = 1, cdf = x), and then the generated formulas give f = 1, F = x. *)
Example C13_example :
  let pdf := fun (_ _ _ : R) => 1 in let cdf := fun (x _ _ : R) => x in
  (forall x, is_derive (fun y => cdf y 0 1) x (pdf x 0 1)) /\ (forall x, 0 <= pdf x 0 1) /\
  (forall x, continuous (fun y => pdf y 0 1) x) /\ validate_inputs_ok cdf 0 1 /\
  GaussianPulse_waveform pdf cdf 0 1 (1 / 3) = 1 /\ GaussianPulse_parametrization cdf 0 1 (1 / 3) = 1 / 3.
Proof.
  intros pdf cdf. split; [| split; [| split; [| split; [| split]]]].
  - intros x. unfold cdf, pdf. auto_derive. exact I. ring.
  - intros x. unfold pdf. lra.
  - intros x. apply continuous_const.
  - unfold validate_inputs_ok, validate_denominator, cdf. lra.
  - unfold GaussianPulse_waveform, gaussian_pulse, pdf, cdf. field.
  - unfold GaussianPulse_parametrization, gaussian_parametrization, cdf. field.
Qed.
