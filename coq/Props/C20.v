(* C20 — calibration import reproduces the backend's values for the requested qubits.
   Property theorems only; proofs in Proofs/CalibProofs.v; the model Model/Calib.v is tied to
   DeviceParameters.load_from_backend by the exact correspondence run of checks/c20.py.

   Vocabulary (Proofs/CalibProofs.v):
     holds g lay a       := a = Some (array of shape (len lay,) with values d)  and  map Some d = map g lay,
                            i.e. position k holds g(lay[k]) for every k, whatever the length/order/labels of lay
     native_gate basis   := the first 'ecr' or 'cx' in basis order (the reading fixed in DESIGN.md 6, C20)
     pair_lookup i j es  := the (error, length) stored under the ordered pair (i,j) in the property dict es
     dict_ok es          := distinct keys, and no key (i,i)
     covered b lay       := b is a (Fake)BackendV2, lay is non-empty, dt and the five per-qubit calibrations exist for
                            every requested qubit (a backend without an `x` calibration makes Qiskit raise
                            BackendPropertyError: outside the property's domain) *)
From Coq Require Import List Bool Arith.
Require Import QG.Base.Res QG.Model.DevParams QG.Model.Calib QG.Proofs.DevParamsProofs QG.Proofs.CalibProofs.
Import ListNotations.

(* Position k holds exactly the backend's T1, T2, x-gate error, readout error and readout length of physical qubit
   layout[k] -- for every layout; dt holds the backend's dt. *)
Theorem C20_per_qubit :
  forall (V M : Type) (vzero : V) (lay : list nat) (b : backend V M) (o : obj V M),
  load_from_backend V M vzero lay b = Done o ->
  layout o = lay /\
  holds V (q_t1 b) lay (get8 T1 (fields o)) /\ holds V (q_t2 b) lay (get8 T2 (fields o)) /\
  holds V (q_xerr b) lay (get8 P (fields o)) /\ holds V (q_roerr b) lay (get8 Rout (fields o)) /\
  holds V (q_rolen b) lay (get8 Tm (fields o)) /\
  (exists dt, cfg_dt b = Some dt /\ get8 Dt (fields o) = Some (mkArr [1] [dt])).
Proof. exact per_qubit. Qed.
Print Assumptions C20_per_qubit.

(* Both tables have size max(layout)+1 squared; entry [i][j] is the native gate's error / duration for every ordered
   pair that has one, and zero elsewhere. *)
Theorem C20_tables :
  forall (V M : Type) (vzero : V) (lay : list nat) (b : backend V M) (o : obj V M),
  load_from_backend V M vzero lay b = Done o ->
  exists g es pd td, native_gate (basis b) = Some g /\ gate_props b g = Some es /\
    let m := list_max lay + 1 in
    get8 Pint (fields o) = Some (mkArr [m; m] pd) /\ get8 Tint (fields o) = Some (mkArr [m; m] td) /\
    length pd = m * m /\ length td = m * m /\
    (dict_ok V es -> forall i j, i < m -> j < m ->
       nth (i * m + j) pd vzero = match pair_lookup V i j es with Some (e, _) => e | None => vzero end /\
       nth (i * m + j) td vzero = match pair_lookup V i j es with Some (_, l) => l | None => vzero end).
Proof. exact tables. Qed.
Print Assumptions C20_tables.

(* On the property's domain the import succeeds whenever the backend has a supported native gate ... *)
Theorem C20_accepts :
  forall (V M : Type) (vzero : V) (lay : list nat) (b : backend V M) g es,
  covered V M b lay -> native_gate (basis b) = Some g -> gate_props b g = Some es ->
  exists o, load_from_backend V M vzero lay b = Done o.
Proof. exact accepts. Qed.
Print Assumptions C20_accepts.

(* ... and is rejected with ValueError when it has none, or when the object is not a backend at all. *)
Theorem C20_rejects :
  forall (V M : Type) (vzero : V) (lay : list nat) (b : backend V M),
  (kind b = NotABackend -> load_from_backend V M vzero lay b = Raise (Py ValueError)) /\
  (covered V M b lay -> native_gate (basis b) = None -> load_from_backend V M vzero lay b = Raise (Py ValueError)).
Proof. intros. split; [apply rejects_type | apply rejects_gate]. Qed.
Print Assumptions C20_rejects.

(* The imported object is a well-shaped parameter object (C15's params_ok) whenever the labels are distinct, so the
   round-trip theorems of Props/C15.v apply to "parameters obtained from a backend". *)
Theorem C20_result_well_shaped :
  forall (V M : Type) (vzero : V) (lay : list nat) (b : backend V M) (o : obj V M),
  NoDup lay -> load_from_backend V M vzero lay b = Done o -> params_ok V M o.
Proof. exact load_params_ok. Qed.
Print Assumptions C20_result_well_shaped.

(* Non-vacuity: a three-qubit cx backend (couplings 0-1, 1-2, both directions) and the unordered layout [2;0]. *)
Example C20_example :
  let q (base : nat) := fun k : nat => if k <? 3 then Some (base + k) else None in
  let es := [((0, 1), (501, 601)); ((1, 0), (510, 610)); ((1, 2), (512, 612)); ((2, 1), (521, 621))] in
  let b := mkBackend FakeV2 (q 100) (q 200) (q 300) (q 400) (q 700) (Some 9) [G_other; G_cx; G_ecr]
             (fun g => match g with G_cx => Some es | _ => None end) (fun _ => 0) in
  covered nat nat b [2; 0] /\ dict_ok nat es /\
  load_from_backend nat nat 0 [2; 0] b =
    Done (mkObj [2; 0]
      (R8 (Some (mkArr [2] [102; 100])) (Some (mkArr [2] [202; 200])) (Some (mkArr [2] [302; 300])) (Some (mkArr [2] [402; 400]))
          (Some (mkArr [3; 3] [0; 501; 0; 510; 0; 512; 0; 521; 0])) (Some (mkArr [3; 3] [0; 601; 0; 610; 0; 612; 0; 621; 0]))
          (Some (mkArr [2] [702; 700])) (Some (mkArr [1] [9]))) (Some 0)).
Proof.
  cbv zeta. split; [|split].
  - unfold covered. cbn. split; [discriminate|]. split; [discriminate|]. split; [discriminate|].
    repeat constructor; discriminate.
  - split; cbn; repeat constructor; cbn; try discriminate; intuition congruence.
  - vm_compute. reflexivity.
Qed.
