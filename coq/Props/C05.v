(* C05 — each sampled gate contracts volume by exactly its qubits' T1 decay.
   Subject: coq/Gen/GenGates.v (regenerated from factories.py on every run). Reflection through coq/Sym decides the
   symbolic identities for ALL angles, phases, parameters and sample values; scipy.linalg.expm is abstract with the
   hypothesis det(expm A) = exp(tr A). *)
From Coq Require Import QArith List String Bool Reals.
From Coquelicot Require Import Complex.
Require Import QG.Sym.Expr QG.Sym.Norm QG.Sym.Mat.
Require Import QG.Model.GateModel QG.Model.Composite QG.Proofs.GateRefl QG.Proofs.MatAlg QG.Proofs.Det4Expr.
Require Import QG.Proofs.C07Refl QG.Proofs.C07Sem QG.Proofs.C05Refl QG.Proofs.C05Sem QG.Gen.GenGates.
Import ListNotations.
Close Scope Q_scope.

(* 1. Every stochastic generator is traceless on every decision path, for all sample values and parameters;
      det U = 1. *)
Theorem C05_traceless_generators_and_det_U :
  (forallb (fun p => expr_eqb cf (mtrace (ep_N p)) E0) gen_sq_paths = true /\
   forallb (fun p => expr_eqb cf (mtrace (ep_N p)) E0) gen_cr_paths = true /\
   expr_eqb cf (mtrace gen_depol_N) E0 = true) /\
  (expr_eqb cf (mdet2 (ep_U gen_sq_zero)) E1 = true /\ expr_eqb cf (mdet4 (ep_U gen_cr_zero)) E1 = true).
Proof. split; [exact trace_N_zero | exact det_U_one]. Qed.
Print Assumptions C05_traceless_generators_and_det_U.

(* 2. Elementary gates: with det(expm A) = exp(tr A), on every decision path
        det G = exp(tr drift),   tr drift = -(1/2) e1^2 (K1 + K3)                      (driven single-qubit gate)
        det G = exp(tr drift),   tr drift = -(e1c^2 a + e1t^2 (K1 + K3)),  a = t_cr/tg   (cross-resonance gate)
      where e1 is the path's own strength variable (0 on the T1 == 0 paths) and K1, K3 are the integrator values for
      sin^2(theta/2a) and cos^2(theta/2a) at the gate's own (theta, a). No sample, p or T2 occurs.
      Idle depolarisation and the bit flip have determinant 1. *)
Theorem C05_det_elementary :
  forall expm : Cmat -> Cmat,
  (forall A, sq2 A -> sq2 (expm A)) -> (forall A, sq4 A -> sq4 (expm A)) ->
  (forall A, sq2 A -> det2 (expm A) = cexp (tr2 A)) -> (forall A, sq4 A -> det4 (expm A) = cexp (tr4 A)) ->
  (forall rho p, In p gen_sq_paths -> det2 (sample expm rho p) = cexp (interpC rho (sq_trD_spec p))) /\
  (forall rho p, In p gen_cr_paths -> det4 (sample expm rho p) = cexp (interpC rho (cr_trD_spec p))) /\
  (forall rho, det2 (expm (interpM rho gen_depol_N)) = RtoC 1) /\
  (forall rho, det2 (interpM rho gen_bitflip_G) = RtoC 1).
Proof.
  intros expm S2 S4 D2 D4. split; [|split; [|split]].
  - exact (det_sq expm S2 D2).
  - exact (det_cr expm S4 D4).
  - exact (det_depol expm D2).
  - exact det_bitflip.
Qed.
Print Assumptions C05_det_elementary.

(* the strength and integral variables of statement 2 are really present on the T1 != 0 paths, the integrals are
   taken at the gate's own (theta, a), and e1^2 = tg / T1 whenever T1 > 0 *)
Theorem C05_strength_and_integrals :
  (forallb (fun p => match ep_dec p with false :: _ => match find_e1 (ep_defs p) (vi "T1"), find_int (ep_defs p) k_sin2h, find_int (ep_defs p) k_cos2h with
                                                       | Some _, Some _, Some _ => true | _, _, _ => false end | _ => true end) gen_sq_paths = true) /\
  (forallb (fun p => int_args_ok (ep_defs p) E1) gen_sq_paths = true /\ forallb (fun p => int_args_ok (ep_defs p) cr_a) gen_cr_paths = true) /\
  (forall defs t v rho, find_e1 defs t = Some v -> respects rho defs -> (0 < rho t)%R -> (rho v * rho v = tgR / rho t)%R).
Proof. split; [exact trace_D_sq_found | split; [exact integrals_at_own_arguments | exact e1_squared]]. Qed.
Print Assumptions C05_strength_and_integrals.

(* idle relaxation: upper triangular with diagonal exp(iu), o * exp(-iu), o = exp(-e1^2 Dt/tg): det = o, no sample *)
Theorem C05_relaxation_det_shape : forallb relax_det_ok gen_relax_paths = true.
Proof. exact relax_det_shape. Qed.
Print Assumptions C05_relaxation_det_shape.

(* 3. Composite gates. Durations scheduled on each tensor slot sum to the gate time t for both CNOT directions,
      t - tg for ECR, t + tg for reversed ECR; and if every constituent sample S k has determinant cexp(x k) times its
      ideal counterpart's, with x k the constituent's own exponent (-(1/2) tau / T1 for single-qubit pulses and idle
      periods, -(t_cr/T1a + t_cr/T1b) for cross-resonance pulses), then
        det G = exp(-(tau_c / T1c + tau_t / T1t)) * det G_ideal
      (d = 2; iT1c, iT1t stand for 1/T1c, 1/T1t): the control's T1 enters only through exp(-t/T1c), the target's only
      through exp(-t/T1t); no p, T2, phase or sample occurs. *)
Theorem C05_det_composite :
  ((expr_eqb cf (slot_total gen_comp_CNOT S0) tvar && expr_eqb cf (slot_total gen_comp_CNOT S1) tvar = true) /\
   (expr_eqb cf (slot_total gen_comp_CNOT_inv S0) tvar && expr_eqb cf (slot_total gen_comp_CNOT_inv S1) tvar = true) /\
   (expr_eqb cf (slot_total gen_comp_ECR S0) (ESub tvar tg) && expr_eqb cf (slot_total gen_comp_ECR S1) (ESub tvar tg) = true) /\
   (expr_eqb cf (slot_total gen_comp_ECR_inv S0) (EAdd tvar tg) && expr_eqb cf (slot_total gen_comp_ECR_inv S1) (EAdd tvar tg) = true)) /\
  (comp_det_law gen_comp_CNOT (ENeg (EMul tvar (EAdd iT1c iT1t))) /\
   comp_det_law gen_comp_CNOT_inv (ENeg (EMul tvar (EAdd iT1c iT1t))) /\
   comp_det_law gen_comp_ECR (ENeg (EMul (ESub tvar tg) (EAdd iT1c iT1t))) /\
   comp_det_law gen_comp_ECR_inv (ENeg (EMul (EAdd tvar tg) (EAdd iT1c iT1t)))) /\
  (exponent_reads_ok gen_comp_CNOT && exponent_reads_ok gen_comp_CNOT_inv && exponent_reads_ok gen_comp_ECR && exponent_reads_ok gen_comp_ECR_inv = true).
Proof. split; [exact slot_durations_spec | split; [exact composite_det_laws | exact comp_exponents_read_only_t_T1]]. Qed.
Print Assumptions C05_det_composite.

Example C05_example : List.length gen_sq_paths = 4%nat /\ List.length gen_relax_paths = 4%nat /\
  tree_dim (comp_dimf gen_comp_CNOT_inv) (cp_tree gen_comp_CNOT_inv) = Some 4%nat.
Proof. vm_compute. repeat split. Qed.
