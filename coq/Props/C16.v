(* C16 — fix_counts completes and bit-reverses any outcome table.
   Property theorems only; proofs live in Proofs/FixCountsProofs.v; the model in Model/FixCounts.v is tied to
   simulations_utility.fix_counts by the exhaustive correspondence run of checks/c16.py. *)
From Coq Require Import List Bool NArith.
Require Import QG.Base.Res QG.Model.FixCounts QG.Proofs.FixCountsKeys QG.Proofs.FixCountsProofs.
Import ListNotations.

(* For every n >= 1, every non-empty table with distinct n-bit keys and every value type:
   the model returns normally, the keys of the result are exactly all 2^n keys in ascending binary order,
   and the value under k is the input value under reversed k, or zero when the input has no such key. *)
Theorem C16_fix_counts_spec :
  forall (V : Type) (vzero : V) (n : nat) (t : list (list bool * V)),
  (0 < n)%nat -> t <> [] -> NoDup (map fst t) -> Forall (fun kv => length (fst kv) = n) t ->
  exists out, fix_counts V vzero t n = Ok out /\ map fst out = all_keys n /\
    forall k, In k (all_keys n) ->
      lookup V k out = Some (match lookup V (rev k) t with Some v => v | None => vzero end).
Proof. exact fix_counts_spec. Qed.
Print Assumptions C16_fix_counts_spec.

(* Applying it twice returns the completed table in the original orientation. *)
Theorem C16_fix_counts_twice :
  forall (V : Type) (vzero : V) (n : nat) (t : list (list bool * V)),
  (0 < n)%nat -> t <> [] -> NoDup (map fst t) -> Forall (fun kv => length (fst kv) = n) t ->
  exists out1 out2, fix_counts V vzero t n = Ok out1 /\ fix_counts V vzero out1 n = Ok out2 /\
    map fst out2 = all_keys n /\
    forall k, In k (all_keys n) ->
      lookup V k out2 = Some (match lookup V k t with Some v => v | None => vzero end).
Proof. exact fix_counts_twice. Qed.
Print Assumptions C16_fix_counts_twice.

(* all_keys n really is "all 2^n strings, ascending": its values are 0,1,...,2^n-1 and every n-bit key occurs. *)
Theorem C16_all_keys_meaning :
  forall n, map val (all_keys n) = nseq 0 (Nat.pow 2 n) /\ (forall k, length k = n <-> In k (all_keys n)).
Proof. intros n. split. apply all_keys_val. intros k. split. apply in_all_keys. apply all_keys_len. Qed.
Print Assumptions C16_all_keys_meaning.

(* Non-vacuity: a concrete table meets the hypotheses, and the model computes the expected completion. *)
Example C16_example :
  let t := [([true; false], 7%N); ([false; false], 5%N)] in
  NoDup (map fst t) /\ Forall (fun kv => length (fst kv) = 2) t /\
  fix_counts N 0%N t 2 = Ok [([false; false], 5%N); ([false; true], 7%N); ([true; false], 0%N); ([true; true], 0%N)].
Proof.
  split; [|split].
  - repeat constructor; simpl; intuition discriminate.
  - repeat constructor.
  - vm_compute. reflexivity.
Qed.
