(* C16 — fix_counts completes and bit-reverses any outcome table.
   Property theorems only; proofs live in Proofs/FixCountsProofs.v; the model in Model/FixCounts.v is tied to
   simulations_utility.fix_counts by the exhaustive correspondence run of checks/c16.py. *)
From Coq Require Import List Bool NArith ZArith Reals Lra.
Require Import QG.Base.Res QG.Model.FixCounts QG.Proofs.FixCountsKeys QG.Proofs.FixCountsProofs.
Require Import QG.Model.SimRun QG.Proofs.SimRunKeys QG.Proofs.SimRunProofs QG.Proofs.FixCountsSim.
Import ListNotations.

(* For every n >= 1, every non-empty table with distinct n-bit keys and every value type:
   the model returns normally, the keys of the result are exactly all 2^n keys in ascending binary order,
   and the value under k is the input value under reversed k, or zero when the input has no such key. *)
Theorem C16_fix_counts_spec :
  forall (V : Type) (vzero : V) (n : nat) (t : list (list bool * V)),
  (0 < n)%nat -> t <> [] -> NoDup (map fst t) -> Forall (fun kv => length (fst kv) = n) t ->
  exists out, fix_counts V vzero t n = Ok out /\ map fst out = all_keys n /\
    forall k, In k (all_keys n) ->
      lookup V k out = Some (match lookup V (rev k) t with Some v => v | None => vzero end).
Proof. exact fix_counts_spec. Qed.
Print Assumptions C16_fix_counts_spec.

(* Applying it twice returns the completed table in the original orientation. *)
Theorem C16_fix_counts_twice :
  forall (V : Type) (vzero : V) (n : nat) (t : list (list bool * V)),
  (0 < n)%nat -> t <> [] -> NoDup (map fst t) -> Forall (fun kv => length (fst kv) = n) t ->
  exists out1 out2, fix_counts V vzero t n = Ok out1 /\ fix_counts V vzero out1 n = Ok out2 /\
    map fst out2 = all_keys n /\
    forall k, In k (all_keys n) ->
      lookup V k out2 = Some (match lookup V k t with Some v => v | None => vzero end).
Proof. exact fix_counts_twice. Qed.
Print Assumptions C16_fix_counts_twice.

(* all_keys n really is "all 2^n strings, ascending": its values are 0,1,...,2^n-1 and every n-bit key occurs. *)
Theorem C16_all_keys_meaning :
  forall n, map val (all_keys n) = nseq 0 (Nat.pow 2 n) /\ (forall k, length k = n <-> In k (all_keys n)).
Proof. intros n. split. apply all_keys_val. intros k. split. apply in_all_keys. apply all_keys_len. Qed.
Print Assumptions C16_all_keys_meaning.

(* Third clause.  A simulator result (C14's model of run(): validation, shot average `perform`, normalisation, _measurament)
   whose measurements used the classical bits in ascending order, passed through fix_counts with n = number of measured
   qubits, is Qiskit's little-endian table: all 2^m keys ascending, and the value under key k is the marginal probability
   that, for every classical bit c, the qubit measured into c shows character m-1-c of k (Qiskit prints classical bit m-1
   first).  msum dist n pos t = sum over the basis indices i whose characters at the measured qubits' ranks `pos` spell t
   (C14_marginal_correct, C14_key_characters); the simulator's key for Qiskit's key k is rev k.  The simulator orders key
   characters by the order of the measure instructions (it never reads the classical-bit index), so "ascending
   classical-bit order" is exactly the hypothesis Hasc under which that order is the classical-bit order. *)
Theorem C16_simulator_result_little_endian :
  forall (a : args) (f : front_out) (perform : front_out -> res (list R)) (probs : list R),
  front a = Ok f -> data_wf a -> NoDup (map fst (f_meas f)) ->
  perform f = Ok probs -> length probs = Nat.pow 2 (f_n f) -> Forall (Rle 0%R) probs -> (0 < rsum probs)%R ->
  let m := length (f_meas f) in
  map snd (f_meas f) = map N.of_nat (seq 0 m) ->                                      (* Hasc *)
  exists out out2, run_model R 0%R Rplus Rdiv rpos a perform = Ok out /\
    fix_counts R 0%R out m = Ok out2 /\ map fst out2 = all_keys m /\
    forall k, length k = m ->
      lookup R k out2 = Some (msum (map (fun x => (x / rsum probs)%R) probs) (f_n f) (positions_of (f_meas f) (f_used f)) (rev k)) /\
      forall c, (c < m)%nat ->
        snd (nth c (f_meas f) (0%N, 0%N)) = N.of_nat c /\ nth (m - 1 - c) k false = nth c (rev k) false.
Proof. exact fix_counts_of_run_little_endian. Qed.
Print Assumptions C16_simulator_result_little_endian.

(* Non-vacuity: a concrete table meets the hypotheses, and the model computes the expected completion. *)
Example C16_example :
  let t := [([true; false], 7%N); ([false; false], 5%N)] in
  NoDup (map fst t) /\ Forall (fun kv => length (fst kv) = 2) t /\
  fix_counts N 0%N t 2 = Ok [([false; false], 5%N); ([false; true], 7%N); ([true; false], 0%N); ([true; true], 0%N)].
Proof.
  split; [|split].
  - repeat constructor; simpl; intuition discriminate.
  - repeat constructor.
  - vm_compute. reflexivity.
Qed.

(* Non-vacuity of the third clause: x(0); cx(0,2); measure 2 -> c0, measure 0 -> c1 on labels {0,2} (C14's example) is
   accepted, its classical bits are used in ascending order, and a shot average meeting the hypotheses exists. *)
Example C16_simulator_example :
  let data := [mkinstr OpX [0%N] []; mkinstr OpCx [0%N; 2%N] []; mkinstr OpMeasure [2%N] [0%N]; mkinstr OpMeasure [0%N] [1%N]] in
  let a := mkargs (CData true data) true (PsiShape [4%Z]) (Some 3%Z) (Some (T1Len 3%Z)) (Some 2%Z) in
  let f := mkfront [0%N; 2%N] [(2%N, 0%N); (0%N, 1%N)] 2 2%Z 3%Z in
  front a = Ok f /\ data_wf a /\ NoDup (map fst (f_meas f)) /\
  map snd (f_meas f) = map N.of_nat (seq 0 (length (f_meas f))) /\
  (let probs := [1; 0; 2; 1]%R in length probs = Nat.pow 2 (f_n f) /\ Forall (Rle 0%R) probs /\ (0 < rsum probs)%R).
Proof.
  cbv zeta. split; [vm_compute; reflexivity|]. split.
  { unfold data_wf. cbn [a_circ]. repeat (apply Forall_cons; [intros H; try discriminate H; cbn; eauto|]). apply Forall_nil. }
  split. { cbn. repeat constructor; cbn; intuition discriminate. }
  split; [vm_compute; reflexivity|].
  split; [reflexivity|]. split. { repeat constructor; lra. } unfold rsum. cbn. lra.
Qed.
