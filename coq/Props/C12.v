(* C12 — the integrator returns the pulse-shaped Ito integrals.
   Property theorems only.  Subject: Gen/GenIntegrator.v, regenerated from quantum_gates/_gates/integrator.py on every
   run by checks/c12_translate.py (INTEGRAL, RESULT, analytical_integration, numerical_integration, quad_integrand,
   integrate_cold, integrate_requires).  Specification vocabulary: Model/Integrals.v (key, g, spec_integrand, quad).
   scipy.integrate.quad is modelled as the Riemann integral (quad f lo hi := RInt f lo hi): its accuracy is trusted.
   Memoisation (cached = uncached) is C10's theorem; the translator checks the cache protocol syntactically. *)
From Coq Require Import Reals Lra String.
From Coquelicot Require Import Coquelicot.
Require Import QG.Model.Integrals QG.Proofs.Integrals QG.Gen.GenIntegrator QG.Proofs.IntegralsGen.
Require Import QG.Gen.GenPulse QG.Proofs.IntegralsPulses.
Open Scope R_scope.

(* MAIN: for every pulse parametrisation F continuous on [0,1], every supported integrand k, every total angle theta and
   every duration accepted by integrate's own validation (a > 0), a cache-miss call of integrate returns the integral
   over [0,a] of g_k(theta * F(t/a)).  With use_lookup the pulse must be the constant one (F = id), as in pulse.py. *)
Theorem C12_integrate_spec :
  forall (use_lookup : bool) (F : R -> R) (k : key) (theta a : R),
  integrate_requires k theta a ->
  (forall x, 0 <= x <= 1 -> continuous F x) ->
  (use_lookup = true -> forall x, 0 < x < 1 -> F x = x) ->
  is_RInt (fun t => g k (theta * F (t / a))) 0 a (integrate_cold use_lookup F k theta a).
Proof. exact integrate_spec. Qed.
Print Assumptions C12_integrate_spec.

(* what integrate validates is exactly a > 0 *)
Theorem C12_integrate_requires : forall k theta a, integrate_requires k theta a <-> 0 < a.
Proof. intros k theta a. unfold integrate_requires. split; intros H; lra. Qed.
Print Assumptions C12_integrate_requires.

(* the eight closed forms, in the argument convention of the code: lambda(theta_total * t, a) integrated over [0,a] *)
Theorem C12_analytic_closed_forms :
  forall (k : key) (theta a : R), theta <> 0 -> 0 < a ->
  is_RInt (fun t => INTEGRAL k (theta * t) a) 0 a (RESULT k theta a).
Proof. exact analytic_closed_form. Qed.
Print Assumptions C12_analytic_closed_forms.

(* the integrand lambdas are g at angle theta/a; the dictionary keys are the names of g (read as formulas at a = 1) *)
Theorem C12_lookup_is_g : forall (k : key) (x a : R), a <> 0 -> INTEGRAL k x a = g k (x / a).
Proof. exact lookup_is_g. Qed.
Print Assumptions C12_lookup_is_g.

Theorem C12_key_names :
  forall k : key, GEN_key_string k = key_string k /\ forall x, KEYEXPR k x 1 = g k x.
Proof. intros k. split. apply keys_agree. apply keyexpr_is_g. Qed.
Print Assumptions C12_key_names.

(* analytic route, all theta including 0 *)
Theorem C12_analytic_spec :
  forall (k : key) (theta a : R), 0 < a ->
  is_RInt (fun t => g k (theta * (t / a))) 0 a (analytical_integration k theta a).
Proof. exact analytic_spec. Qed.
Print Assumptions C12_analytic_spec.

(* theta = 0: the branch returns a * g_k(0), which is the integral of the (constant) integrand AND the limit of the
   closed form as theta -> 0 *)
Theorem C12_analytic_zero :
  forall (k : key) (a : R), 0 < a ->
  analytical_integration k 0 a = a * g k 0 /\
  is_RInt (fun t => g k (0 * (t / a))) 0 a (analytical_integration k 0 a) /\
  is_lim (fun theta => RESULT k theta a) 0 (analytical_integration k 0 a).
Proof.
  intros k a Ha. destruct (analytic_zero k a Ha) as [E I]. split; [exact E | split; [exact I |]].
  now apply analytic_zero_limit.
Qed.
Print Assumptions C12_analytic_zero.

(* numerical route: what is handed to quad is the specified integrand, for EVERY F (no regularity needed), over [0,a] *)
Theorem C12_numeric_is_spec :
  forall (F : R -> R) (k : key) (theta a t : R), a <> 0 ->
  quad_integrand F k theta a t = g k (theta * F (t / a)) /\
  integrand_p F k theta a t = g k (theta * F (t / a)) /\
  quad_lower k theta a = 0 /\ quad_upper k theta a = a.
Proof.
  intros F k theta a t Ha. split; [apply (numeric_is_spec F k theta a t Ha) |].
  split; [apply (integrand_p_is_spec F k theta a t Ha) | apply quad_bounds].
Qed.
Print Assumptions C12_numeric_is_spec.

Theorem C12_numerical_spec :
  forall (F : R -> R) (k : key) (theta a : R),
  0 < a -> (forall x, 0 <= x <= 1 -> continuous F x) ->
  is_RInt (fun t => g k (theta * F (t / a))) 0 a (numerical_integration F k theta a).
Proof. exact numerical_spec. Qed.
Print Assumptions C12_numerical_spec.

(* the scaled parametrisation runs from 0 to a*theta (so that the lambdas, which divide by a, see 0 .. theta) *)
Theorem C12_scaled_param_ends :
  forall (F : R -> R) (k : key) (theta a : R), a <> 0 -> F 0 = 0 -> F 1 = 1 ->
  scaled_param F k theta a 0 = 0 /\ scaled_param F k theta a a = a * theta.
Proof. exact scaled_param_ends. Qed.
Print Assumptions C12_scaled_param_ends.

(* constant pulse: lookup and numerical integration agree for all theta (pointwise integrands and values) *)
Theorem C12_const_pulse_agree :
  forall (k : key) (theta a : R), 0 < a ->
  (forall t, quad_integrand (fun x => x) k theta a t = INTEGRAL k (theta * t) a) /\
  numerical_integration (fun x => x) k theta a = analytical_integration k theta a.
Proof.
  intros k theta a Ha. split.
  - intros t. apply const_pulse_pointwise. lra.
  - now apply const_pulse_agree.
Qed.
Print Assumptions C12_const_pulse_agree.

(* The pulses pulse.py ships (Gen/GenPulse.v, regenerated from pulse.py): for each of them the hypotheses of
   C12_integrate_spec are discharged - ConstantPulse is the only one with use_lookup = True and its parametrisation is
   the identity; a Gaussian pulse accepted by its constructor is continuous (C13) and integrated numerically.
   pdf, cdf stand for scipy.stats.norm.pdf/cdf (trusted: cdf' = pdf, pdf >= 0, pdf continuous). *)
Theorem C12_shipped_pulses :
  forall (k : key) (theta a : R), 0 < a ->
  is_RInt (fun t => g k (theta * ConstantPulse_parametrization (t / a))) 0 a
          (integrate_cold ConstantPulse_use_lookup ConstantPulse_parametrization k theta a) /\
  is_RInt (fun t => g k (theta * ConstantPulseNumerical_parametrization (t / a))) 0 a
          (integrate_cold ConstantPulseNumerical_use_lookup ConstantPulseNumerical_parametrization k theta a) /\
  forall (pdf cdf : R -> R -> R -> R) (loc scale : R),
  (forall x, is_derive (fun y => cdf y loc scale) x (pdf x loc scale)) ->
  (forall x, 0 <= pdf x loc scale) ->
  (forall x, continuous (fun y => pdf y loc scale) x) ->
  validate_inputs_ok cdf loc scale ->
  is_RInt (fun t => g k (theta * GaussianPulse_parametrization cdf loc scale (t / a))) 0 a
          (integrate_cold GaussianPulse_use_lookup (GaussianPulse_parametrization cdf loc scale) k theta a).
Proof.
  intros k theta a Ha. split; [now apply constant_pulse_integrate | split; [now apply constant_pulse_numerical_integrate |]].
  intros pdf cdf loc scale Hd Hp Hc Hacc. now apply (gaussian_pulse_integrate pdf cdf loc scale).
Qed.
Print Assumptions C12_shipped_pulses.

(* Non-vacuity: the hypotheses are satisfiable (a = 33/10, a smooth non-constant F with F 0 = 0, F 1 = 1), and one
   value: the analytic route at theta = PI, a = 1 for sin^2 gives 1/2. *)
Example C12_example :
  integrate_requires K_sin2 PI (33 / 10) /\
  (forall x, 0 <= x <= 1 -> continuous (fun x => x * x * (3 - 2 * x)) x) /\
  integrate_cold true (fun x => x) K_sin2 PI 1 = 1 / 2.
Proof.
  split; [| split].
  - unfold integrate_requires. lra.
  - intros x _. apply (ex_derive_continuous (fun x => x * x * (3 - 2 * x))). auto_derive. exact I.
  - unfold integrate_cold, analytical_integration.
    destruct (Req_EM_T PI 0) as [E | _]. { generalize PI_RGT_0. lra. }
    unfold RESULT, RESULT_K_sin2. rewrite sin_2PI. field. generalize PI_RGT_0. lra.
Qed.
