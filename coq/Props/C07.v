(* C07 — zero noise gives the ideal gate exactly; unitary noise gives unitary samples.
   Subject: coq/Gen/GenGates.v, regenerated on every run from factories.py and gates.py by symbolic execution of the
   real code (checks/gates_trace.py). Symbolic identities are decided by the reflective procedure of coq/Sym (sound
   w.r.t. Coquelicot's complex numbers), so each statement holds for ALL angles, phases, gate times, sample values and
   integral values. scipy.linalg.expm is abstract: the facts used about it are explicit hypotheses. *)
From Coq Require Import QArith List String Bool Reals.
From Coquelicot Require Import Complex.
Require Import QG.Sym.Expr QG.Sym.Subst QG.Sym.Mat.
Require Import QG.Model.GateModel QG.Model.Composite QG.Proofs.GateRefl QG.Proofs.MatAlg QG.Proofs.C07Refl QG.Proofs.C07Sem QG.Proofs.C04Refl QG.Gen.GenGates.
Import ListNotations.
Close Scope Q_scope.
Open Scope string_scope.

(* 1. With p = 0 and T1 = T2 = 0 (traced with the literal 0) the drift and every stochastic block of the driven
      single-qubit gate, the cross-resonance gate and the idle depolarisation vanish identically. *)
Theorem C07_zero_strength_blocks :
  (forall rho, respects rho (ep_defs gen_sq_zero) -> interpM rho (ep_D gen_sq_zero) = interpM rho (zero_mat 2) /\ interpM rho (ep_N gen_sq_zero) = interpM rho (zero_mat 2)) /\
  (forall rho, respects rho (ep_defs gen_cr_zero) -> interpM rho (ep_D gen_cr_zero) = interpM rho (zero_mat 4) /\ interpM rho (ep_N gen_cr_zero) = interpM rho (zero_mat 4)) /\
  (forall rho, interpM rho gen_depol_zero_N = interpM rho (zero_mat 2)).
Proof.
  split; [|split].
  - intros rho R. split; [exact (sq_zero_D rho R) | exact (sq_zero_N rho R)].
  - intros rho R. split; [exact (cr_zero_D rho R) | exact (cr_zero_N rho R)].
  - exact depol_zero_N.
Qed.
Print Assumptions C07_zero_strength_blocks.

(* 2. Hence (expm 0 = I) every zero-noise sample of an elementary gate is the hard-coded noise-free matrix of gates.py,
      for every pulse shape (the integrals only multiply zero strengths). *)
Theorem C07_zero_noise_elementary :
  forall expm : Cmat -> Cmat, expm Z2 = I2 -> expm Z4 = I4 ->
  (forall rho, respects rho (ep_defs gen_sq_zero) -> sample expm rho gen_sq_zero = interpM rho gen_nf_single_qubit_gate) /\
  (forall rho, respects rho (ep_defs gen_cr_zero) -> sample expm rho gen_cr_zero = interpM rho gen_nf_CR) /\
  (forall rho, expm (interpM rho gen_depol_zero_N) = I2).
Proof.
  intros expm H2 H4. split; [|split].
  - exact (zero_noise_sq expm H2).
  - exact (zero_noise_cr expm H4).
  - exact (zero_noise_depol expm H2).
Qed.
Print Assumptions C07_zero_noise_elementary.

(* X and SX are the general rotation at theta = pi and pi/2 with unchanged phase and noise arguments, and the
   noise-free X / SX matrices are the noise-free rotation at those angles. *)
Theorem C07_X_SX_forwarding :
  gen_fwd_X = [EPi; EVar (vi "phi"); EVar (vi "p"); EVar (vi "T1"); EVar (vi "T2")] /\
  tl gen_fwd_SX = [EVar (vi "phi"); EVar (vi "p"); EVar (vi "T1"); EVar (vi "T2")] /\
  (forall rho, interpC rho (hd (EQ (0#1)%Q) gen_fwd_SX) = interpC rho (EDiv EPi (EQ (2#1)%Q))) /\
  (forall rho, interpM rho gen_nf_X = interpM (env_of [(vi "theta", EPi)] rho) gen_nf_single_qubit_gate /\
               interpM rho gen_nf_SX = interpM (env_of [(vi "theta", EDiv EPi (EQ (2#1)%Q))] rho) gen_nf_single_qubit_gate).
Proof. split; [exact fwd_X | split; [exact fwd_SX_rest | split; [exact fwd_SX_angle | exact zero_noise_X_SX_matrices]]]. Qed.
Print Assumptions C07_X_SX_forwarding.

(* Exact samplers: idle relaxation with T1 = T2 = 0 (its second draw has standard deviation 0, hence is 0) and the
   read-out bit flip with zero error are the identity. *)
Theorem C07_zero_noise_exact_samplers :
  (forall rho, respects rho relax_zero_defs -> interpC rho second_std = interpC rho (EQ (0#1)%Q)) /\
  (forall rho, respects rho relax_zero_defs -> rho second_sample = 0%R -> interpM rho relax_zero_G = interpM rho (id_mat 2)) /\
  (forall rho, respects rho gen_bitflip_zero_defs -> interpM rho gen_bitflip_zero_G = interpM rho (id_mat 2)).
Proof. split; [exact relax_zero_std | split; [exact relax_zero_is_identity | exact bitflip_zero_is_identity]]. Qed.
Print Assumptions C07_zero_noise_exact_samplers.

(* 3. Composite gates: the noisy factories issue the same pulse sequence as the noise-free gate set (same constituent
      kinds, order, product structure, angle / phase / duration arguments), and that product over noise-free constituents
      IS the noise-free composite matrix of gates.py. So when every constituent sample is noise free (statement 2 at the
      constituent's own arguments) the composite sample equals the noise-free composite gate. *)
Theorem C07_zero_noise_composite :
  (same_sequence gen_comp_CNOT gen_nfcomp_CNOT = true /\ same_sequence gen_comp_CNOT_inv gen_nfcomp_CNOT_inv = true /\
   same_sequence gen_comp_ECR gen_nfcomp_ECR = true /\ same_sequence gen_comp_ECR_inv gen_nfcomp_ECR_inv = true) /\
  forall rho S,
  (constituents_noise_free gen_comp_CNOT S rho -> interpT S rho (cp_tree gen_comp_CNOT) = interpM rho gen_nf_CNOT) /\
  (constituents_noise_free gen_comp_CNOT_inv S rho -> interpT S rho (cp_tree gen_comp_CNOT_inv) = interpM rho gen_nf_CNOT_inv) /\
  (constituents_noise_free gen_comp_ECR S rho -> interpT S rho (cp_tree gen_comp_ECR) = interpM rho gen_nf_ECR) /\
  (constituents_noise_free gen_comp_ECR_inv S rho -> interpT S rho (cp_tree gen_comp_ECR_inv) = interpM rho gen_nf_ECR_inv).
Proof. split; [exact same_sequences | exact zero_noise_composites]. Qed.
Print Assumptions C07_zero_noise_composite.

(* 4. T == 0 switches a relaxation channel off: on the decision paths taken for T1 == 0 (T2 == 0) no matrix entry,
      sampler argument or definition reads T1 (T2) any more; all 4 + 16 paths are present. *)
Theorem C07_T_zero_means_off :
  sq_T_off = true /\ cr_T_off = true /\ List.length gen_sq_paths = 4%nat /\ List.length gen_cr_paths = 16%nat.
Proof. exact T_zero_means_off. Qed.
Print Assumptions C07_T_zero_means_off.

(* 5. Relaxation off (T1 == 0 paths), every other noise on: the drift vanishes, the generator is anti-Hermitian and U is
      unitary, so with "expm of an anti-Hermitian matrix is unitary" every sample is exactly unitary — for all angles,
      phases, p, T2, pulse shapes and sample values. Idle depolarisation and the read-out bit flip are unitary too, and
      a composite product of unitary constituents (scale factors -i, i have modulus 1) is unitary. *)
Theorem C07_unitary_when_relaxation_off :
  forall expm : Cmat -> Cmat, expm Z2 = I2 -> expm Z4 = I4 ->
  (forall A, sq2 A -> Cm_dag A = Cm_scale (- (RtoC 1))%C A -> unitary2 (expm A)) ->
  (forall A, sq4 A -> Cm_dag A = Cm_scale (- (RtoC 1))%C A -> unitary4 (expm A)) ->
  (forall rho p, In p gen_sq_paths -> t1_off_sq p = true -> unitary2 (sample expm rho p)) /\
  (forall rho p, In p gen_cr_paths -> t1_off_cr p = true -> unitary4 (sample expm rho p)) /\
  (forall rho, unitary2 (expm (interpM rho gen_depol_N))) /\
  (forall rho, unitary2 (interpM rho gen_bitflip_G)) /\
  (forall rho S,
    ((forall k, unitaryd (comp_dimf gen_comp_CNOT k) (S k)) -> unitary4 (interpT S rho (cp_tree gen_comp_CNOT))) /\
    ((forall k, unitaryd (comp_dimf gen_comp_CNOT_inv k) (S k)) -> unitary4 (interpT S rho (cp_tree gen_comp_CNOT_inv))) /\
    ((forall k, unitaryd (comp_dimf gen_comp_ECR k) (S k)) -> unitary4 (interpT S rho (cp_tree gen_comp_ECR))) /\
    ((forall k, unitaryd (comp_dimf gen_comp_ECR_inv k) (S k)) -> unitary4 (interpT S rho (cp_tree gen_comp_ECR_inv)))).
Proof.
  intros expm H2 H4 A2 A4. destruct paths_N_leaves as (L2 & L4 & _).
  rewrite forallb_forall in L2. rewrite forallb_forall in L4.
  split; [|split; [|split; [|split]]].
  - intros rho p Hin Hoff. exact (unitary_sq_T1_off expm H2 A2 rho p Hin Hoff (L2 p Hin)).
  - intros rho p Hin Hoff. exact (unitary_cr_T1_off expm H4 A4 rho p Hin Hoff (L4 p Hin)).
  - exact (unitary_depol expm A2).
  - exact unitary_bitflip.
  - exact unitary_composites.
Qed.
Print Assumptions C07_unitary_when_relaxation_off.

(* 6. Every gate set: Gates(pulse) forwards each method unchanged to its factory, and ScaledNoiseGates(s) calls the SAME-NAMED
      method of the wrapped Gates with p*s and T/s — so at zero noise (p = 0, T = 0 stay 0 under scaling) and at T1 = 0 the
      statements above transfer to every gate set, every pulse and every noise scale. *)
Theorem C07_all_gate_sets :
  (fwd_ok gen_gates_fwd_relaxation && fwd_ok gen_gates_fwd_bitflip && fwd_ok gen_gates_fwd_depolarizing && fwd_ok gen_gates_fwd_single_qubit_gate &&
   fwd_ok gen_gates_fwd_X && fwd_ok gen_gates_fwd_SX && fwd_ok gen_gates_fwd_CR && fwd_ok gen_gates_fwd_CNOT && fwd_ok gen_gates_fwd_CNOT_inv &&
   fwd_ok gen_gates_fwd_ECR && fwd_ok gen_gates_fwd_ECR_inv = true) /\
  (scaled_ok gen_scaled_X "X" [same "phi"; times_s "p"; over_s "T1"; over_s "T2"] &&
   scaled_ok gen_scaled_SX "SX" [same "phi"; times_s "p"; over_s "T1"; over_s "T2"] &&
   scaled_ok gen_scaled_single_qubit_gate "single_qubit_gate" [same "theta"; same "phi"; times_s "p"; over_s "T1"; over_s "T2"] &&
   scaled_ok gen_scaled_CR "CR" [same "theta"; same "phi"; same "t_cr"; times_s "p_cr"; over_s "T1c"; over_s "T2c"; over_s "T1t"; over_s "T2t"] &&
   scaled_ok gen_scaled_relaxation "relaxation" [same "Dt"; over_s "T1"; over_s "T2"] &&
   scaled_ok gen_scaled_depolarizing "depolarizing" [same "Dt"; times_s "p"] &&
   scaled_ok gen_scaled_bitflip "bitflip" [same "Dt"; times_s "p"] &&
   scaled_ok gen_scaled_CNOT "CNOT" comp_spec && scaled_ok gen_scaled_CNOT_inv "CNOT_inv" comp_spec &&
   scaled_ok gen_scaled_ECR "ECR" comp_spec && scaled_ok gen_scaled_ECR_inv "ECR_inv" comp_spec = true).
Proof. split; [exact gates_forwarding | exact scaled_noise_gates]. Qed.
Print Assumptions C07_all_gate_sets.

(* Non-vacuity: the T1-off path sets are non-empty and the zero traces have the expected shape. *)
Example C07_example :
  List.length (filter t1_off_sq gen_sq_paths) = 2%nat /\ List.length (filter t1_off_cr gen_cr_paths) = 4%nat /\
  is_leaf2 (ep_U gen_sq_zero) = true /\ is_leaf4 (ep_U gen_cr_zero) = true.
Proof. vm_compute. repeat split. Qed.
