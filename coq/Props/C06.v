(* C06 — composite two-qubit gates apply each qubit's own noise on that qubit.
   Subject: gen_comp_CNOT / CNOT_inv / ECR / ECR_inv of coq/Gen/GenGates.v, regenerated on every run from
   factories.py:717-731,781-797,846-858,910-929 by symbolic execution of the real construct() methods with recording
   constituent factories (checks/gates_trace.py). Statements only; proofs are boolean reflection through
   Proofs/CompositeProofs.own_params_ok_sound. *)
From Coq Require Import QArith List String Bool.
Require Import QG.Sym.Expr QG.Sym.ExprEq QG.Model.GateModel QG.Model.Composite QG.Proofs.CompositeProofs QG.Proofs.C06Refl QG.Gen.GenGates.
Import ListNotations.
Close Scope Q_scope.
Open Scope string_scope.

Fixpoint var_index (name : string) (l : list (nat * string)) : nat :=
  match l with [] => 4999 | (i, n) :: r => if String.eqb n name then i else var_index name r end.
Definition var (name : string) : expr := EVar (var_index name gen_varnames).

(* the control / target parameters as the composite factories name them *)
Definition ctr : qparams := {| q_phi := var_index "phc" gen_varnames; q_p := var "pc"; q_T1 := var "T1c"; q_T2 := var "T2c" |}.
Definition trg : qparams := {| q_phi := var_index "pht" gen_varnames; q_p := var "pt"; q_T1 := var "T1t"; q_T2 := var "T2t" |}.
Definition pcr_of (cp : composite) : expr := match first_cr_pcr cp with Some e => e | None => EQ 0%Q end.

(* Every constituent pulse occurs exactly once in the product, sits in a definite tensor slot, carries exactly the
   (p, T1, T2) of the qubit of that slot and a drive phase depending on that qubit's phase only; every cross-resonance
   pulse carries (T1, T2) of slot 0 then slot 1 and the one derived two-qubit error.
   Slot conventions: CNOT (control, target); reversed CNOT (target, control); ECR and reversed ECR (control, target). *)
Theorem C06_own_params_CNOT : own_params_spec gen_comp_CNOT (pcr_of gen_comp_CNOT) ctr trg.
Proof. apply own_params_ok_sound. vm_compute. reflexivity. Qed.
Print Assumptions C06_own_params_CNOT.

Theorem C06_own_params_CNOT_inv : own_params_spec gen_comp_CNOT_inv (pcr_of gen_comp_CNOT_inv) trg ctr.
Proof. apply own_params_ok_sound. vm_compute. reflexivity. Qed.
Print Assumptions C06_own_params_CNOT_inv.

Theorem C06_own_params_ECR : own_params_spec gen_comp_ECR (pcr_of gen_comp_ECR) ctr trg.
Proof. apply own_params_ok_sound. vm_compute. reflexivity. Qed.
Print Assumptions C06_own_params_ECR.

Theorem C06_own_params_ECR_inv : own_params_spec gen_comp_ECR_inv (pcr_of gen_comp_ECR_inv) ctr trg.
Proof. apply own_params_ok_sound. vm_compute. reflexivity. Qed.
Print Assumptions C06_own_params_ECR_inv.

(* The derived two-qubit error is an expression in the gate error and the two single-qubit errors only (it does not
   read T1/T2 or phases), and both CR pulses of a gate receive the same one (part of own_params_spec). *)
Definition pcr_reads_only_errors (cp : composite) : bool :=
  reads_only (cp_defs cp) [var_index "p2" gen_varnames; var_index "pc" gen_varnames; var_index "pt" gen_varnames] (pcr_of cp).
Theorem C06_pcr_derivation_inputs :
  pcr_reads_only_errors gen_comp_CNOT = true /\ pcr_reads_only_errors gen_comp_CNOT_inv = true /\
  pcr_reads_only_errors gen_comp_ECR = true /\ pcr_reads_only_errors gen_comp_ECR_inv = true.
Proof. vm_compute. repeat split. Qed.
Print Assumptions C06_pcr_derivation_inputs.

(* The derived two-qubit error itself: p_cr = (4/3)(1 - ((1 - 3/4 p_gate)^2 / ((1 - 3/4 p_ctr)^2 (1 - 3/4 p_trg)^k))^(1/4)) with k = 1 for
   CNOT, ECR and reversed ECR and k = 3 for the reversed CNOT — every ingredient (both single-qubit errors, the gate error) enters
   exactly as the package derives it; in particular p_cr = 0 exactly when the gate error equals the combined single-qubit errors. *)
Theorem C06_pcr_formula :
  pcr_formula_ok gen_comp_CNOT 1 && pcr_formula_ok gen_comp_CNOT_inv 3 && pcr_formula_ok gen_comp_ECR 1 && pcr_formula_ok gen_comp_ECR_inv 1 = true.
Proof. exact pcr_formulas. Qed.
Print Assumptions C06_pcr_formula.

(* Non-vacuity: the CNOT product really contains six constituents, two of them cross-resonance pulses. *)
Example C06_example : List.length (cp_calls gen_comp_CNOT) = 6 /\ List.length (filter (fun c => factory_eqb (c_fac c) FCR) (cp_calls gen_comp_CNOT)) = 2
  /\ List.length (slots (cp_tree gen_comp_CNOT_inv)) = 8.
Proof. vm_compute. repeat split. Qed.
