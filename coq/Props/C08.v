(* C08 — every operation uses its own qubits' parameters, phases and tensor slots.
   Subject: coq/Gen/GenCircuit.v, regenerated on every run by symbolic execution of the real circuit.py methods
   (symbolic qubit indices i, k; both outcomes of i < k; both grid states) and of simulator._apply_gates_on_circuit
   (symbolic physical qubits and device tables). Slot conventions of the gate-set methods are those proved in C06. *)
From Coq Require Import QArith List String Bool.
Require Import QG.Sym.Expr QG.Sym.ExprEq QG.Model.Handoff QG.Proofs.GateRefl QG.Proofs.HandoffRefl QG.Gen.GenCircuit.
Require Import QG.Base.State QG.Base.Mat QG.Base.Perm QG.Proofs.Relabel QG.Proofs.RelabelRank QG.Proofs.RelabelSum QG.Proofs.RelabelMain.
Require QG.Proofs.RelabelMsum QG.Proofs.RelabelLayout.
Import ListNotations.
Close Scope Q_scope.
Open Scope string_scope.

(* 1. Circuit classes, two-qubit methods (16 traced variants: grid class in both layer states, layered class, index class;
      CNOT and ECR; i < k and i > k): the expected gate-set method is called (CNOT / CNOT_inv / ECR / ECR_inv), with the gate
      time and two-qubit error unchanged, and for each tensor slot of the returned matrix the (phase, p, T1, T2) arguments
      that C06 assigns to that slot are exactly those of the qubit placed under it; slot 0 is the lower index; layered
      classes store the matrix in the control's row (the other row keeps its scalar placeholder). *)
Theorem C08_handoff_two_qubit :
  forallb (fun h => negb (is_two h) || two_ok h) gen_handoff = true /\ List.length (filter is_two gen_handoff) = 16%nat.
Proof. exact handoff_two_qubit. Qed.
Print Assumptions C08_handoff_two_qubit.

(* 2. Single-qubit methods (X, SX, relaxation, bitflip, depolarizing, Rz, I) of every class: own phase, own parameters, own
      slot; Rz only shifts the qubit's own phase; the three subclasses inherit everything. *)
Theorem C08_handoff_one_qubit :
  (forallb (fun h => is_two h || one_ok h) gen_handoff = true /\ List.length (filter (fun h => negb (is_two h)) gen_handoff) = 28%nat) /\
  gen_subclasses = ["StandardCircuit"; "EfficientCircuit"; "OneCircuit"].
Proof. split; [exact handoff_one_qubit | exact subclasses_inherit]. Qed.
Print Assumptions C08_handoff_one_qubit.

(* 3. Simulator, index-based class: every instruction kind hands the circuit method the internal indices of its own
      physical qubits and the table entries p, T1, T2, t_int[c][t], p_int[c][t], duration*dt indexed by those PHYSICAL
      qubits; read-out noise of internal qubit k uses tm, rout of the physical qubit layout[k]. *)
Theorem C08_simulator_index_branch :
  sim_eqb gen_sim_binary sim_spec = true /\
  calls_eqb gen_sim_binary_readout [("bitflip", [EQ (0#1)%Q; cv "tm[L[0]]"; cv "rout[L[0]]"]); ("bitflip", [EQ (1#1)%Q; cv "tm[L[1]]"; cv "rout[L[1]]"])] = true.
Proof. exact simulator_index_branch. Qed.
Print Assumptions C08_simulator_index_branch.

(* 4. End to end (index class, cx and ecr, both directions): composing simulator -> circuit method -> gate-set method,
      the pulses of the tensor slot under which the instruction's qubit q (control or target) is placed are sampled with
      the current virtual phase of q's internal index and with p[q], T1[q], T2[q] of the PHYSICAL qubit q, and the
      gate with t_int[c][t], p_int[c][t]. *)
Theorem C08_handoff_own_end_to_end :
  forallb (fun h => negb (String.eqb (h_cls h) "BinaryCircuit" && is_two h) ||
                    flow_ok (if String.eqb (h_meth h) "CNOT" then "cx" else "ecr") (h_meth h) h) gen_handoff = true.
Proof. exact handoff_own_end_to_end. Qed.
Print Assumptions C08_handoff_own_end_to_end.

(* 5. Simulator, layered branch (loops over range(nqubit)): a hand-written model for EVERY n — the operated qubit gets
      its own table entries, every other qubit gets I, the target row of a two-qubit gate is skipped, read-out uses
      tm[k], rout[k] — which the regenerated traces reproduce exactly for all instruction kinds and qubit positions, n <= 4. *)
Theorem C08_simulator_layered_branch :
  forallb (fun r => let '(n, kind, qs, calls, ro) := r in calls_eqb calls (layered_model n kind qs) && calls_eqb ro (layered_readout n)) gen_sim_layered = true /\
  List.length gen_sim_layered = 64%nat.
Proof. exact simulator_layered_branch_tied. Qed.
Print Assumptions C08_simulator_layered_branch.

(* the layered model itself, for every n and every adjacent pair: exactly one two-qubit call, on the control row, with own entries *)
Theorem C08_layered_model_own : forall n c t, c < n -> t < n -> c <> t ->
  filter (fun x => negb (String.eqb (fst x) "I")) (layered_model n "cx" [c; t]) =
  [("CNOT", [nq c; nq t; tint_ c t; pint_ c t; p_ c; p_ t; T1_ c; T2_ c; T1_ t; T2_ t])].
Proof. exact layered_model_own. Qed.
Print Assumptions C08_layered_model_own.

(* ====================================================================================================================
   7-13. The last sentence of the property: "Relabelling the physical qubits together with their calibration data (and the
   initial state's tensor factors) leaves the result unchanged, and measuring a subset gives the marginal of measuring all."
   Both clauses are theorems at the level of the item semantics of Base/State.v (shared with C01/C02/C03/C18), for the
   index-based circuit class and a deterministic gate set.  Proofs: Base/Perm.v, Proofs/Relabel*.v.

   MODEL (Proofs/Relabel.v, Proofs/RelabelMain.v).
     L          the used physical labels (distinct naturals); internal index of q = rank L q = number of used labels < q
                (C08_layout_is_rank: this is what C14's model of _process_layout / list.index computes);
     circuit    list of  P1 o q | P2 o c t  on physical labels (measure and barrier are not operations);
     GATE SET   gate1 : op1 -> ph -> cal -> option (2x2)   gate2 : op2 -> ph -> ph -> cal -> cal -> cal2 -> 4x4 on the
                ordered pair (control, target);  ro : cal -> 2x2 (read-out layer);  next1/next2: new virtual phases of
                the operation's own qubits.  I.e. a gate set is a FUNCTION OF THE OPERATION KIND (with its own parameters:
                angle, delay duration, a fixed noise realisation) AND OF THE OWN VALUES (phases, per-qubit calibration
                record, per-ordered-pair calibration record) of the qubits acted on -- theorems 1-6 above say the
                simulator calls the plugged gate set with exactly these own values.  All of it is abstract (any types).
     run L T1 T2 circ ph0 psi   = sem (internalise (rank L) T1 T2 circ (fun _ => ph0) ++ readout ...) psi.
     Relabelling by pi (injective on L): labels map pi L, circuit map (relabel pi) circ, tables with T1' (pi q) = T1 q and
     T2' (pi c) (pi t) = T2 c t, initial state psi' with psi' (permute s b) = psi b where s = induced L pi is the induced
     permutation of the internal indices (s (rank L q) = rank (map pi L) (pi q)); for a product state this is exactly the
     re-ordering of the tensor factors (C08_relabel_product_state).
     permute s b: the bit list whose position s q holds bit q of b.  encode L a: internal bit list of the assignment
     a : label -> bool.  marg n w pos t: total weight of the bit lists of length n showing key t at the positions pos. *)

(* 7. Permutations of qubit positions acting on bit lists (Base/Perm.v). *)
Theorem C08_permute_laws : forall (n : nat) (s : nat -> nat) (b : bits) (q : nat) (v : bool),
  perm_on n s -> List.length b = n -> q < n ->
  List.length (permute s b) = n /\ get (permute s b) (s q) = get b q /\
  upd (permute s b) (s q) v = permute s (upd b q v) /\
  unpermute s (permute s b) = b /\ permute s (unpermute s b) = b /\ permute (inv_of n s) b = unpermute s b.
Proof.
  intros n s b q v Hp L Hq. subst n. repeat split.
  - apply permute_length.
  - now apply get_permute.
  - now apply permute_upd.
  - now apply unpermute_permute.
  - now apply permute_unpermute.
  - now apply permute_inv.
Qed.
Print Assumptions C08_permute_laws.

(* 8. Equivariance of the item semantics (any scalar type with an addition and a multiplication): renaming the items by s and reading the initial
      state through s permutes the final state by s. *)
Theorem C08_sem_equivariant : forall (R : Type) (radd rmul : R -> R -> R) (n : nat) (s : nat -> nat),
  perm_on n s -> forall (items : list (item R)) (psi : bits -> R) (b : bits),
  Forall (item_lt R n) items -> List.length b = n ->
  sem R radd rmul (map (rename R s) items) (transport R s psi) (permute s b) = sem R radd rmul items psi b.
Proof. exact sem_equiv. Qed.
Print Assumptions C08_sem_equivariant.

(* 9. relabel_invariant: the final amplitude function read through the induced permutation is unchanged; equivalently, per
      assignment of bits to PHYSICAL qubits (a' (pi q) = a q) the amplitude, hence the Born weight, is unchanged. *)
Theorem C08_relabel_invariant :
  forall (R : Type) (rO rI : R) (radd rmul rsub : R -> R -> R) (ropp : R -> R),
  Ring_theory.ring_theory rO rI radd rmul rsub ropp eq ->
  forall (cal cal2 ph op1 op2 : Type)
    (gate1 : op1 -> ph -> cal -> option (m2 R)) (next1 : op1 -> ph -> ph)
    (gate2 : op2 -> ph -> ph -> cal -> cal -> cal2 -> m4 R) (next2 : op2 -> ph -> ph -> ph * ph) (ro : cal -> m2 R)
    (L : list nat) (pi : nat -> nat) (T1 T1' : nat -> cal) (T2 T2' : nat -> nat -> cal2)
    (circ : list (pop op1 op2)) (ph0 : ph) (psi psi' : bits -> R),
  NoDup L -> inj_on L pi -> Forall (pop_on op1 op2 L) circ ->
  (forall q, In q L -> T1' (pi q) = T1 q) ->
  (forall c t, In c L -> In t L -> T2' (pi c) (pi t) = T2 c t) ->
  (forall b, List.length b = List.length L -> psi' (permute (induced L pi) b) = psi b) ->
  let final := run R radd rmul cal cal2 ph op1 op2 gate1 next1 gate2 next2 ro L T1 T2 circ ph0 psi in
  let final' := run R radd rmul cal cal2 ph op1 op2 gate1 next1 gate2 next2 ro (map pi L) T1' T2' (map (relabel op1 op2 pi) circ) ph0 psi' in
  perm_on (List.length L) (induced L pi) /\
  (forall q, In q L -> induced L pi (rank L q) = rank (map pi L) (pi q)) /\
  (forall b, List.length b = List.length L -> final' (permute (induced L pi) b) = final b) /\
  (forall a a' : nat -> bool, (forall q, In q L -> a' (pi q) = a q) -> final' (encode (map pi L) a') = final (encode L a)).
Proof.
  intros R rO rI radd rmul rsub ropp Rth cal cal2 ph op1 op2 gate1 next1 gate2 next2 ro L pi T1 T1' T2 T2' circ ph0 psi psi'
         HL Hpi Hc HT1 HT2 Hpsi final final'.
  split; [now apply induced_perm|]. split; [intros q Hq; now apply induced_spec|]. split.
  - exact (relabel_invariant_bits R rO rI radd rmul rsub ropp Rth cal cal2 ph op1 op2 gate1 next1 gate2 next2 ro L pi T1 T1' T2 T2' circ ph0 psi psi' HL Hpi Hc HT1 HT2 Hpsi).
  - exact (relabel_invariant_assignment R rO rI radd rmul rsub ropp Rth cal cal2 ph op1 op2 gate1 next1 gate2 next2 ro L pi T1 T1' T2 T2' circ ph0 psi psi' HL Hpi Hc HT1 HT2 Hpsi).
Qed.
Print Assumptions C08_relabel_invariant.

(* 10. ... and so is the distribution over the keys of ANY list M of measured physical qubits (weights in any commutative
       ring W, Born rule = any function born : R -> W): measuring the qubits map pi M of the relabelled run gives every key
       the weight that measuring M gives it in the original run. *)
Theorem C08_relabel_invariant_marginal :
  forall (R : Type) (rO rI : R) (radd rmul rsub : R -> R -> R) (ropp : R -> R),
  Ring_theory.ring_theory rO rI radd rmul rsub ropp eq ->
  forall (W : Type) (wO wI : W) (wadd wmul wsub : W -> W -> W) (wopp : W -> W),
  Ring_theory.ring_theory wO wI wadd wmul wsub wopp eq ->
  forall (born : R -> W) (cal cal2 ph op1 op2 : Type)
    (gate1 : op1 -> ph -> cal -> option (m2 R)) (next1 : op1 -> ph -> ph)
    (gate2 : op2 -> ph -> ph -> cal -> cal -> cal2 -> m4 R) (next2 : op2 -> ph -> ph -> ph * ph) (ro : cal -> m2 R)
    (L : list nat) (pi : nat -> nat) (T1 T1' : nat -> cal) (T2 T2' : nat -> nat -> cal2)
    (circ : list (pop op1 op2)) (ph0 : ph) (psi psi' : bits -> R),
  NoDup L -> inj_on L pi -> Forall (pop_on op1 op2 L) circ ->
  (forall q, In q L -> T1' (pi q) = T1 q) ->
  (forall c t, In c L -> In t L -> T2' (pi c) (pi t) = T2 c t) ->
  (forall b, List.length b = List.length L -> psi' (permute (induced L pi) b) = psi b) ->
  forall (M : list nat) (t : bits), Forall (fun q => In q L) M ->
  marg W wO wadd (List.length L)
    (fun b => born (run R radd rmul cal cal2 ph op1 op2 gate1 next1 gate2 next2 ro (map pi L) T1' T2' (map (relabel op1 op2 pi) circ) ph0 psi' b))
    (map (rank (map pi L)) (map pi M)) t
  = marg W wO wadd (List.length L)
    (fun b => born (run R radd rmul cal cal2 ph op1 op2 gate1 next1 gate2 next2 ro L T1 T2 circ ph0 psi b))
    (map (rank L) M) t.
Proof. exact relabel_invariant_marginal. Qed.
Print Assumptions C08_relabel_invariant_marginal.

(* the initial state's tensor factors: a product state with factor u q on physical qubit q, relabelled with u' (pi q) = u q,
   satisfies the hypothesis on psi' of theorems 9 and 10 *)
Theorem C08_relabel_product_state :
  forall (R : Type) (rO rI : R) (radd rmul rsub : R -> R -> R) (ropp : R -> R),
  Ring_theory.ring_theory rO rI radd rmul rsub ropp eq ->
  forall (L : list nat) (pi : nat -> nat) (u u' : nat -> bool -> R) (b : bits),
  NoDup L -> inj_on L pi -> (forall q, In q L -> u' (pi q) = u q) -> List.length b = List.length L ->
  prod_state R rI rmul (map pi L) u' (permute (induced L pi) b) = prod_state R rI rmul L u b.
Proof. exact prod_state_relabel. Qed.
Print Assumptions C08_relabel_product_state.

(* 11. subset_is_marginal: for ANY weight function w on the internal bit lists (in particular the Born weights of a run --
       the run does not take the measured set as an argument), measuring the sub-selection M'[idx_0], M'[idx_1], ... of the
       measured physical qubits M' gives under key t the sum of the weights that measuring M' gives under the keys t' (all
       strings of |M'| characters) whose characters at idx spell t. *)
Theorem C08_subset_is_marginal :
  forall (W : Type) (wO wI : W) (wadd wmul wsub : W -> W -> W) (wopp : W -> W),
  Ring_theory.ring_theory wO wI wadd wmul wsub wopp eq ->
  forall (L : list nat) (w : bits -> W) (M' idx : list nat) (t : bits),
  Forall (fun k => k < List.length M') idx ->
  marg W wO wadd (List.length L) w (map (rank L) (map (fun k => nth k M' 0) idx)) t
  = bsum W wadd (List.length M') (fun t' => if beq (bsel t' idx) t then marg W wO wadd (List.length L) w (map (rank L) M') t' else wO).
Proof. exact subset_is_marginal_physical. Qed.
Print Assumptions C08_subset_is_marginal.

(* 12. The same in the vocabulary of C14 (real-valued probability vector `final` of the simulator model; C14_marginal_correct:
       the returned value under key t is msum final n pos t): the dictionary for the sub-selection is the marginal of the
       dictionary for pos'; and dictionaries of probability vectors that agree through a permutation of the bit positions agree. *)
Theorem C08_subset_is_marginal_simulator :
  forall (final : list Rdefinitions.R) (n : nat) (pos' idx : list nat) (t : list bool),
  0 < n -> Forall (fun k => k < List.length pos') idx ->
  SimRunProofs.msum final n (map (fun k => nth k pos' 0) idx) t
  = SimRunProofs.rsum (map (fun t' => SimRunProofs.msum final n pos' t')
                           (filter (fun t' => FixCounts.key_eqb (SimRunKeys.sel t' idx) t) (FixCountsKeys.all_keys (List.length pos')))).
Proof. exact RelabelMsum.msum_subset_is_marginal. Qed.
Print Assumptions C08_subset_is_marginal_simulator.

Theorem C08_relabel_invariant_simulator :
  forall (final final' : list Rdefinitions.R) (n : nat) (s : nat -> nat) (pos : list nat) (t : list bool),
  0 < n -> perm_on n s -> Forall (fun q => q < n) pos ->
  (forall b, List.length b = n -> RelabelMsum.weights_of final' (permute s b) = RelabelMsum.weights_of final b) ->
  SimRunProofs.msum final' n (map s pos) t = SimRunProofs.msum final n pos t.
Proof. exact RelabelMsum.msum_relabel. Qed.
Print Assumptions C08_relabel_invariant_simulator.

(* 13. The rank layout is the layout of the simulator model of C14 (Model/SimRun.v, tied to _process_layout, run and
       _measurament by C14's correspondence run): the used labels come out distinct, list.index of a used label in the sorted
       list is its rank, and the measured positions are the ranks of the measured labels. *)
Theorem C08_layout_is_rank :
  forall (data : list SimRun.instr) (used : list BinNums.N) (meas : list (BinNums.N * BinNums.N)) (n : nat),
  Forall SimRunProofs.wf_instr data -> SimRun.process_layout data = Res.Ok (used, meas, n) ->
  let L := map BinNat.N.to_nat used in
  NoDup L /\ n = List.length L /\
  (forall q, In q used -> SimRun.index_of q used = Some (rank L (BinNat.N.to_nat q))) /\
  SimRunKeys.positions_of meas used = map (rank L) (map (fun qc => BinNat.N.to_nat (fst qc)) meas).
Proof. exact RelabelLayout.process_layout_rank. Qed.
Print Assumptions C08_layout_is_rank.

(* WHAT IS STILL DECIDED ONLY BY THE CORRESPONDENCE / ORACLE RUNS of checks/c08.py (see the registry note):
   - run_is_spec for whole circuits: that the real simulator with the real circuit classes computes `run` for the plugged
     gate set, i.e. the composition of the per-instruction hand-off tables (theorems 1-6) with the builder state machines
     of C11 and the layer / item semantics of C01 / C02 (the oracle compares call logs and statevectors exactly);
   - that measure and barrier instructions produce no gate-set call: the regenerated tables gen_sim_binary /
     gen_sim_layered (theorems 3 and 5) enumerate exactly the six kinds rz, sx, x, cx, ecr, delay that produce calls, the
     tracer does not execute a measure instruction; the recorded call logs of the oracle runs cover it;
   - that both measured sets lead to the SAME used-label list L: _process_layout also counts a measured qubit as used, so
     measuring an otherwise untouched qubit enlarges the layout (then n and psi0 differ and theorem 11 does not apply);
   - direction consistency of the plugged gate set: that CNOT / CNOT_inv (ECR / ECR_inv), placed with slot 0 = lower
     internal index (theorem 1), are the same matrix on the ordered pair (control, target) -- a relabelling may swap which
     of the two qubits has the lower internal index.  The model's gate2 takes this for granted;
   - gate sets that sample noise: a relabelling changes neither the own values nor the order of the operations, but for the
     read-out layer (and for the layered classes) it changes the order in which the qubits draw their random numbers;
   - the layered (non index-based) classes, whose layout is the identity on 0..n-1. *)

Example C08_relabel_example :
  let L := [2; 5] in let pi := fun q => if Nat.eqb q 2 then 7 else 1 in
  NoDup L /\ inj_on L pi /\ map pi L = [7; 1] /\ map (rank L) L = [0; 1] /\ map (rank (map pi L)) (map pi L) = [1; 0] /\
  map (induced L pi) [0; 1] = [1; 0] /\ permute (induced L pi) [true; false] = [false; true] /\
  encode L (fun q => Nat.eqb q 2) = [true; false] /\ encode (map pi L) (fun q => Nat.eqb q 7) = [false; true].
Proof.
  cbv zeta. split. { repeat constructor; cbn; intuition discriminate. }
  split. { intros a b [<-|[<-|[]]] [<-|[<-|[]]]; cbn; intros E; try reflexivity; discriminate E. }
  repeat split; vm_compute; reflexivity.
Qed.

Example C08_example : List.length gen_handoff = 44%nat.
Proof. vm_compute. reflexivity. Qed.

(* ====================================================================================================================
   14-20. run_is_spec FOR THE EXECUTABLE MODELS OF THE SIMULATOR'S INSTRUCTION LOOP (Model/SimLoop.v: index class,
   Model/SimLoopLayered.v: layered classes -- tied to simulator.py by the exact call-sequence correspondence of
   checks/c03_simloop*.py, which checks/c08.py re-runs on its own cases).  Proofs: Proofs/SimLoopOwn*.v.

   VOCABULARY.
     tok               a device-table entry by name: TT1 q, TT2 q, Tp q, Ttm q, Trout q (label q), Ttint c t, Tpint c t (ordered
                       pair), Ttime d (duration d times dt), Ttheta a;   call_args c: the tokens of the arguments of a method call
                       (what the correspondence run compares with the real argument values);   call_indices c: its internal indices;
     labels used       the used physical labels as naturals;  rk used q = rank (labels used) q = number of used labels below q;
     own_calls used (j, x)   the calls that instruction x at position j of circ.data must issue, written from x's own qubits;
     own_readout used 0 n    bitflip(k, tm[used[k]], rout[used[k]]) for k = 0..n-1: EVERY internal qubit, measured or not;
     val : tok -> V    the device tables (V: any type of values);  gate set: ANY functions
                         g1 k phase [p; T1; T2] (X / SX),  g2 k inv phase_a phase_b [t; p_ab; p_a; p_b; T1_a; T2_a; T1_b; T2_b]
                         (CNOT / ECR for inv = false, CNOT_inv / ECR_inv for inv = true),  grelax [Dt; T1; T2],  gflip [tm; rout];
     own_shot val n layout cs   Model/SimLoopOwn.v: a fresh BinaryCircuit(n, layout) (C11's builder model bstep + do_instr) fed the
                       calls cs with that gate set, then statevector()'s view of the stored list;
     own_run val L circ psi     the abstract run of theorems 9-11 (RelabelMain.run) at the instantiation C08_run_is_spec_vocabulary
                       spells out;  own_circ val theta dur used data: the physical circuit read off the instruction list.

   OF THE LIST ABOVE ("still decided only by the correspondence / oracle runs") these items become theorems about the models:
     - run_is_spec for whole circuits, index class, any deterministic gate set (17), through the builder model of C11 and the
       backend model of C02;  - measure / barrier / other instructions and delays on unused labels issue no call (14: own_calls);
     - direction: made explicit -- the run model's op2 carries the direction bit (control label < target label) and gate2 / next2
       are what the code does in that direction; relabelling needs dir_kept (18), and 21 shows that it cannot be dropped.
   Still hypotheses / oracle-only: both measured sets give the same layout (hypothesis of 19); gate sets that draw random numbers;
   whole runs of the layered classes (their calls: 15; their builders and backends: C03 / C01). *)
From Coq Require Import NArith ZArith Permutation Lia.
Require Import QG.Base.Res QG.Model.SimRun QG.Model.NoiseFreeRun QG.Model.SimLoop QG.Model.SimLoopLayered QG.Model.SimLoopOwn.
Require Import QG.Proofs.OptimizerSem QG.Proofs.SimLoop QG.Proofs.SimLoopOwn QG.Proofs.SimLoopOwnRun QG.Proofs.SimLoopOwnSpec.
Require Import QG.Proofs.SimLoopOwnRelabel QG.Proofs.SimLoopOwnTie.

(* 14. OWN PARAMETERS, index class.  For data accepted by _process_layout (hypotheses of C03_translate_wf) and every nqubit up to the
       number of used qubits: the loop raises nothing and its calls are, instruction by instruction and in order, own_calls of the
       instruction's own qubits followed by the read-out calls; per call (own_params): the argument tokens are the table entries
       at the call's OWN label(s) -- for a two-qubit gate t_int, p_int at the ORDERED pair (control, target), then p, T1, T2 of
       the control and of the target in the order BinaryCircuit.CNOT / ECR expect (p_i, p_k, T1_ctr, T2_ctr, T1_trg, T2_trg) --,
       a delay carries its own duration token, the internal indices are the ranks of these labels, and the bitflip on internal
       qubit k carries tm, rout of the k-th used label. *)
Theorem C08_calls_own_params :
  forall (A D : Type) (theta : nat -> A) (dur : nat -> D) (data : list SimRun.instr) (used : list N) (meas : list (N * N)) (n : nat) (nq : Z),
  Forall wf_qiskit data -> process_layout data = Ok (used, meas, n) -> (nq <= Z.of_nat n)%Z ->
  exists cs, translate_calls A D theta dur used nq data = Ok cs /\
    Forall (call_on A D used) cs /\ Forall (own_params A D used) cs /\
    cs = (flat_map (own_calls A D theta dur used) (numbered data) ++ own_readout A D used 0 (Z.to_nat nq))%list.
Proof. exact calls_own_params. Qed.
Print Assumptions C08_calls_own_params.

Theorem C08_own_params_vocabulary :
  forall (A D : Type) (theta : nat -> A) (dur : nat -> D) (used : list N),
  (forall v th, own_params A D used (CRz v th) <->
     (v < List.length used)%nat /\ call_args A D (CRz v th) = [Ttheta th] /\ call_indices A D (CRz v th) = [v]) /\
  (forall k v q, own_params A D used (C1 k v q) <->
     In q used /\ call_indices A D (C1 k v q) = [rk used q] /\ call_args A D (C1 k v q) = [Tp q; TT1 q; TT2 q]) /\
  (forall k cv tv c t, own_params A D used (C2 k cv tv c t) <->
     In c used /\ In t used /\ c <> t /\ call_indices A D (C2 k cv tv c t) = [rk used c; rk used t] /\
     call_args A D (C2 k cv tv c t) = [Ttint c t; Tpint c t; Tp c; Tp t; TT1 c; TT2 c; TT1 t; TT2 t]) /\
  (forall v d q, own_params A D used (CRelax v d q) <->
     In q used /\ call_indices A D (CRelax v d q) = [rk used q] /\ call_args A D (CRelax v d q) = [Ttime d; TT1 q; TT2 q]) /\
  (forall k q, own_params A D used (CBitflip k q) <->
     nth_error used k = Some q /\ In q used /\ call_indices A D (CBitflip k q) = [rk used q] /\ call_args A D (CBitflip k q) = [Ttm q; Trout q]) /\
  (forall q, rk used q = rank (labels used) (N.to_nat q)) /\ labels used = map N.to_nat used /\
  (forall j q, own_calls A D theta dur used (j, mkinstr OpRz [q] []) = [CRz (rk used q) (theta j)] /\
     own_calls A D theta dur used (j, mkinstr OpSx [q] []) = [C1 KSX (rk used q) q] /\
     own_calls A D theta dur used (j, mkinstr OpX [q] []) = [C1 KX (rk used q) q] /\
     own_calls A D theta dur used (j, mkinstr OpDelay [q] []) = (if memN q used then [CRelax (rk used q) (dur j) q] else [])) /\
  (forall j c t, own_calls A D theta dur used (j, mkinstr OpCx [c; t] []) = [C2 KCX (rk used c) (rk used t) c t] /\
     own_calls A D theta dur used (j, mkinstr OpEcr [c; t] []) = [C2 KECR (rk used c) (rk used t) c t]) /\
  (forall j qs cs, own_calls A D theta dur used (j, mkinstr OpMeasure qs cs) = [] /\ own_calls A D theta dur used (j, mkinstr OpBarrier qs cs) = [] /\
     own_calls A D theta dur used (j, mkinstr OpOther qs cs) = []) /\
  (forall k cnt, own_readout A D used k cnt = map (fun i => CBitflip i (nth i used 0%N)) (seq k cnt)).
Proof. exact own_params_vocabulary. Qed.
Print Assumptions C08_own_params_vocabulary.

(* 15. OWN PARAMETERS, layered classes (Circuit / Standard / Efficient / OneCircuit).  The calls are the per-instruction loops
       (groups) of the instructions' own labels followed by bitflip(k, tm[k], rout[k]) for every k; every call that carries table
       entries indexes the tables with the index it acts on (own_lparams: label = index, ordered pair (control, target)); and the
       loop of one instruction on in-range labels issues exactly ONE such call, on the operated (control) qubit's own iteration. *)
Theorem C08_calls_own_params_layered :
  forall (A D : Type) (theta : nat -> A) (dur : nat -> D),
  (forall (data : list SimRun.instr) (used : list N) (meas : list (N * N)) (n : nat) (nq : Z),
   Forall wf_qiskit data -> process_layout data = Ok (used, meas, n) ->
   translate_calls_layered A D theta dur used nq data
   = Ok (calls_of_groups A D (Z.to_nat nq) (flat_map (own_groups A D theta dur used) (numbered data)))) /\
  (forall (nq : nat) (gs : list (group A D)), Forall (own_lparams A D nq) (calls_of_groups A D nq gs)) /\
  (forall (nq : nat) (g : group A D),
   match g with
   | GRz q th => group_calls A D nq g = [LC (CRz q th)]
   | G1 k q => (q < nq)%nat -> filter (is_LC A D) (group_calls A D nq g) = [LC (C1 k q (N.of_nat q))]
   | G2 k c t => (c < nq)%nat -> filter (is_LC A D) (group_calls A D nq g) = [LC (C2 k c t (N.of_nat c) (N.of_nat t))]
   | SimLoopLayered.GRelax q d => (q < nq)%nat -> filter (is_LC A D) (group_calls A D nq g) = [LC (CRelax q d (N.of_nat q))]
   end).
Proof. exact calls_own_params_layered. Qed.
Print Assumptions C08_calls_own_params_layered.

Theorem C08_own_lparams_vocabulary :
  forall (A D : Type) (theta : nat -> A) (dur : nat -> D) (nq : nat) (used : list N),
  (forall k, own_lparams A D nq (LI k) <-> (k < nq)%nat) /\
  (forall k v q, own_lparams A D nq (LC (C1 k v q)) <->
     q = N.of_nat v /\ call_args A D (C1 k v q) = [Tp (N.of_nat v); TT1 (N.of_nat v); TT2 (N.of_nat v)]) /\
  (forall k cv tv c t, own_lparams A D nq (LC (C2 k cv tv c t)) <->
     c = N.of_nat cv /\ t = N.of_nat tv /\
     call_args A D (C2 k cv tv c t) = [Ttint (N.of_nat cv) (N.of_nat tv); Tpint (N.of_nat cv) (N.of_nat tv); Tp (N.of_nat cv); Tp (N.of_nat tv);
                                       TT1 (N.of_nat cv); TT2 (N.of_nat cv); TT1 (N.of_nat tv); TT2 (N.of_nat tv)]) /\
  (forall v d q, own_lparams A D nq (LC (CRelax v d q)) <-> q = N.of_nat v /\ call_args A D (CRelax v d q) = [Ttime d; TT1 (N.of_nat v); TT2 (N.of_nat v)]) /\
  (forall k q, own_lparams A D nq (LC (CBitflip k q)) <->
     q = N.of_nat k /\ (k < nq)%nat /\ call_args A D (CBitflip k q) = [Ttm (N.of_nat k); Trout (N.of_nat k)]) /\
  (forall j c t, own_groups A D theta dur used (j, mkinstr OpCx [c; t] []) = [G2 KCX (N.to_nat c) (N.to_nat t)] /\
     own_groups A D theta dur used (j, mkinstr OpEcr [c; t] []) = [G2 KECR (N.to_nat c) (N.to_nat t)]) /\
  (forall j q, own_groups A D theta dur used (j, mkinstr OpSx [q] []) = [G1 KSX (N.to_nat q)] /\
     own_groups A D theta dur used (j, mkinstr OpX [q] []) = [G1 KX (N.to_nat q)] /\
     own_groups A D theta dur used (j, mkinstr OpRz [q] []) = [GRz (N.to_nat q) (theta j)] /\
     own_groups A D theta dur used (j, mkinstr OpDelay [q] []) = (if memN q used then [SimLoopLayered.GRelax (N.to_nat q) (dur j)] else [])).
Proof. exact own_lparams_vocabulary. Qed.
Print Assumptions C08_own_lparams_vocabulary.

(* 16. THE HAND-OFF OF Model/SimLoopOwn.v IS THE CODE'S: for every BinaryCircuit method the simulator calls (CNOT and ECR in both
       directions, X, SX, relaxation, bitflip, Rz) the gate-set method, the ORDER of its phase and parameter arguments, the qubits
       under the matrix's slots and the phase writes that instr_of_call + do_instr + bstep produce are those of the regenerated
       trace table gen_handoff (circuit.py re-executed symbolically on every run). *)
Theorem C08_own_handoff_tied :
  forallb (fun h => negb (used_by_simulator h) || tie_ok h) gen_handoff = true /\
  map (fun h => (h_meth h, h_lt h)) (filter used_by_simulator gen_handoff)
  = [("CNOT", true); ("CNOT", false); ("ECR", true); ("ECR", false); ("X", true); ("SX", true); ("relaxation", true); ("bitflip", true); ("Rz", true)].
Proof. exact own_handoff_tied. Qed.
Print Assumptions C08_own_handoff_tied.

(* 17. run_is_spec_index.  For every commutative ring of scalars, every table valuation, EVERY gate set (functions of the phases and
       argument values they are called with), every data accepted by _process_layout, with nqubit = number of used qubits: the
       calls exist and carry own parameters (14); fed to the builder model of BinaryCircuit they raise nothing; the stored list is
       well-formed input of BinaryBackend and denotes, amplitude by amplitude, the abstract run of theorems 9-11 on the physical
       circuit own_circ of the instruction list; and BinaryBackend's model (C02_bin_spec) returns exactly that state. *)
Theorem C08_run_is_spec_index :
  forall (T : Type) (rO rI : T) (radd rmul rsub : T -> T -> T) (ropp : T -> T),
  Ring_theory.ring_theory rO rI radd rmul rsub ropp eq ->
  forall (A D V : Type) (val : tok A D -> V) (ph : A -> Z * Z)
         (g1 : kind1 -> Z * Z -> list V -> m2 T) (g2 : kind2 -> bool -> Z * Z -> Z * Z -> list V -> m4 T) (grelax gflip : list V -> m2 T)
         (theta : nat -> A) (dur : nat -> D) (data : list SimRun.instr) (used : list N) (meas : list (N * N)) (n : nat),
  Forall wf_qiskit data -> process_layout data = Ok (used, meas, n) ->
  let L := labels used in let circ := own_circ A D V val theta dur used data in
  NoDup L /\ n = List.length L /\ Forall (pop_on (op1 A V) (kind2 * bool) L) circ /\
  exists cs, translate_calls A D theta dur used (Z.of_nat n) data = Ok cs /\ Forall (own_params A D used) cs /\
    forall (layout : option (list Z)) (psi : bits -> T),
    exists content, own_shot A D V val ph (mat T) (mid2 T rO rI) (gs T V g1 g2 grelax gflip) n layout cs = Ok content /\
      Forall (wf_in T n) content /\
      (forall b, sem T radd rmul (map (den T rO rI) content) psi b = own_run T radd rmul A D V val ph g1 g2 grelax gflip L circ psi b) /\
      (content <> [] ->
       exists out, Sparse.bin_statevector T rO radd rmul (mat T) (mmul T radd rmul) (mkron T rmul) (mid2 T rO rI) (mid4 T rO rI) (SparseApply.entry_mat T rO)
                     n content psi = Ok out /\
         state_eq T n out (own_run T radd rmul A D V val ph g1 g2 grelax gflip L circ psi)).
Proof. exact run_is_spec_index. Qed.
Print Assumptions C08_run_is_spec_index.

Theorem C08_run_is_spec_vocabulary :
  forall (T : Type) (radd rmul : T -> T -> T) (A D V : Type) (val : tok A D -> V) (ph : A -> Z * Z)
    (g1 : kind1 -> Z * Z -> list V -> m2 T) (g2 : kind2 -> bool -> Z * Z -> Z * Z -> list V -> m4 T) (grelax gflip : list V -> m2 T)
    (theta : nat -> A) (dur : nat -> D),
  (forall L circ psi, own_run T radd rmul A D V val ph g1 g2 grelax gflip L circ psi
     = run T radd rmul (qcal V) (pcal V) (Z * Z)%type (op1 A V) (kind2 * bool)%type (gate1 T A V g1 grelax) (next1 A V ph) (gate2 T V g2) next2
         (ro T V gflip) L (T1tab A D V val) (T2tab A D V val) circ Builders.p0 psi) /\
  (forall q, T1tab A D V val q = mkqcal V (val (Tp (N.of_nat q))) (val (TT1 (N.of_nat q))) (val (TT2 (N.of_nat q))) (val (Ttm (N.of_nat q))) (val (Trout (N.of_nat q)))) /\
  (forall c t, T2tab A D V val c t = mkpcal V (val (Ttint (N.of_nat c) (N.of_nat t))) (val (Tpint (N.of_nat c) (N.of_nat t)))) /\
  (forall th p c, gate1 T A V g1 grelax (O1rz A V th) p c = None /\ next1 A V ph (O1rz A V th) p = Builders.padd p (ph th)) /\
  (forall k p c, gate1 T A V g1 grelax (O1g A V k) p c = Some (g1 k (Builders.pneg p) [c_p V c; c_T1 V c; c_T2 V c]) /\ next1 A V ph (O1g A V k) p = p) /\
  (forall dt p c, gate1 T A V g1 grelax (O1relax A V dt) p c = Some (grelax [dt; c_T1 V c; c_T2 V c]) /\ next1 A V ph (O1relax A V dt) p = p) /\
  (forall k pc pt cc ct c2, gate2 T V g2 (k, true) pc pt cc ct c2
     = g2 k false pc pt [c_tint V c2; c_pint V c2; c_p V cc; c_p V ct; c_T1 V cc; c_T2 V cc; c_T1 V ct; c_T2 V ct]) /\
  (forall pc pt cc ct c2, gate2 T V g2 (KCX, false) pc pt cc ct c2
     = swap4 (g2 KCX true pc pt [c_tint V c2; c_pint V c2; c_p V cc; c_p V ct; c_T1 V cc; c_T2 V cc; c_T1 V ct; c_T2 V ct])) /\
  (forall pc pt cc ct c2, gate2 T V g2 (KECR, false) pc pt cc ct c2
     = swap4 (g2 KECR true pt pc [c_tint V c2; c_pint V c2; c_p V ct; c_p V cc; c_T1 V ct; c_T2 V ct; c_T1 V cc; c_T2 V cc])) /\
  (forall (G : m4 T) r c, swap4 G r c = G (snd r, fst r) (snd c, fst c)) /\
  (forall pc pt, next2 (KCX, true) pc pt = (Builders.padd pc (Builders.quarter (-1)), pt) /\
                 next2 (KCX, false) pc pt = (Builders.padd (Builders.padd pc (Builders.quarter 1)) (Builders.quarter 2), Builders.padd pt (Builders.quarter 1)) /\
                 next2 (KECR, true) pc pt = (pc, pt) /\ next2 (KECR, false) pc pt = (pc, pt)) /\
  (forall c, ro T V gflip c = gflip [c_tm V c; c_rout V c]) /\
  (forall used data, own_circ A D V val theta dur used data = flat_map (own_pops A D V val theta dur used) (numbered data)) /\
  (forall used j x, own_pops A D V val theta dur used (j, x) = pops_annot A D V val used (theta j) (dur j) x) /\
  (forall used th du q, pops_annot A D V val used th du (mkinstr OpRz [q] []) = [P1 (op1 A V) (kind2 * bool)%type (O1rz A V th) (N.to_nat q)] /\
     pops_annot A D V val used th du (mkinstr OpSx [q] []) = [P1 (op1 A V) (kind2 * bool)%type (O1g A V KSX) (N.to_nat q)] /\
     pops_annot A D V val used th du (mkinstr OpX [q] []) = [P1 (op1 A V) (kind2 * bool)%type (O1g A V KX) (N.to_nat q)] /\
     pops_annot A D V val used th du (mkinstr OpDelay [q] [])
       = (if memN q used then [P1 (op1 A V) (kind2 * bool)%type (O1relax A V (val (Ttime du))) (N.to_nat q)] else [])) /\
  (forall used th du c t, pops_annot A D V val used th du (mkinstr OpCx [c; t] []) = [P2 (op1 A V) (kind2 * bool)%type (KCX, (c <? t)%N) (N.to_nat c) (N.to_nat t)] /\
     pops_annot A D V val used th du (mkinstr OpEcr [c; t] []) = [P2 (op1 A V) (kind2 * bool)%type (KECR, (c <? t)%N) (N.to_nat c) (N.to_nat t)]) /\
  (forall used th du qs cs, pops_annot A D V val used th du (mkinstr OpMeasure qs cs) = [] /\ pops_annot A D V val used th du (mkinstr OpBarrier qs cs) = [] /\
     pops_annot A D V val used th du (mkinstr OpOther qs cs) = []).
Proof. exact run_is_spec_vocabulary. Qed.
Print Assumptions C08_run_is_spec_vocabulary.

(* 18. relabel_invariant for the modelled simulator run.  Relabel every qubit of the instruction list by an injective piN that keeps
       the order of control and target of every cx / ecr (dir_kept), permute the tables accordingly (val' at the relabelled token =
       val at the token) and read the initial state through the induced permutation: the relabelled list is accepted with the
       relabelled measured pairs and a layout that is the image of the old one; both shots succeed; the final amplitudes agree
       through the induced permutation of the internal indices, and so does the key distribution of every list Mq of measured
       physical qubits under any Born reading.  (Without dir_kept the code switches between CNOT and CNOT_inv / ECR and ECR_inv
       with other phase updates; for an arbitrary gate set these are unrelated matrices -- see the registry note.) *)
Theorem C08_relabel_invariant_simloop :
  forall (T : Type) (rO rI : T) (radd rmul rsub : T -> T -> T) (ropp : T -> T),
  Ring_theory.ring_theory rO rI radd rmul rsub ropp eq ->
  forall (W : Type) (wO wI : W) (wadd wmul wsub : W -> W -> W) (wopp : W -> W),
  Ring_theory.ring_theory wO wI wadd wmul wsub wopp eq ->
  forall (born : T -> W) (A D V : Type) (ph : A -> Z * Z)
         (g1 : kind1 -> Z * Z -> list V -> m2 T) (g2 : kind2 -> bool -> Z * Z -> Z * Z -> list V -> m4 T) (grelax gflip : list V -> m2 T)
         (piN : N -> N), injN piN ->
  forall val val' : tok A D -> V, (forall t, val' (relabel_tok A D piN t) = val t) ->
  forall (theta : nat -> A) (dur : nat -> D) (data : list SimRun.instr) (used : list N) (meas : list (N * N)) (n : nat) (psi psi' : bits -> T),
  Forall wf_qiskit data -> process_layout data = Ok (used, meas, n) -> Forall (dir_kept piN) data ->
  let L := labels used in let data' := map (relabel_instr piN) data in
  (forall b, List.length b = n -> psi' (permute (induced L (pi_nat piN)) b) = psi b) ->
  exists used' cs cs',
    process_layout data' = Ok (used', map (relabel_meas piN) meas, n) /\ Permutation (labels used') (map (pi_nat piN) L) /\
    translate_calls A D theta dur used (Z.of_nat n) data = Ok cs /\
    translate_calls A D theta dur used' (Z.of_nat n) data' = Ok cs' /\
    perm_on n (induced L (pi_nat piN)) /\
    (forall q, In q L -> induced L (pi_nat piN) (rank L q) = rank (labels used') (pi_nat piN q)) /\
    forall layout layout' : option (list Z), exists content content',
      own_shot A D V val ph (mat T) (mid2 T rO rI) (gs T V g1 g2 grelax gflip) n layout cs = Ok content /\
      own_shot A D V val' ph (mat T) (mid2 T rO rI) (gs T V g1 g2 grelax gflip) n layout' cs' = Ok content' /\
      (forall b, List.length b = n ->
         sem T radd rmul (map (den T rO rI) content') psi' (permute (induced L (pi_nat piN)) b) = sem T radd rmul (map (den T rO rI) content) psi b) /\
      (forall (Mq : list nat) (t : bits), Forall (fun q => In q L) Mq ->
         marg W wO wadd n (fun b => born (sem T radd rmul (map (den T rO rI) content') psi' b)) (map (rank (labels used')) (map (pi_nat piN) Mq)) t
         = marg W wO wadd n (fun b => born (sem T radd rmul (map (den T rO rI) content) psi b)) (map (rank L) Mq) t).
Proof. exact relabel_invariant_simloop. Qed.
Print Assumptions C08_relabel_invariant_simloop.

(* 19. subset_is_marginal for the modelled simulator run.  Two instruction lists with the same operations (non-measure instructions
       with their angles / durations: ops_of) that _process_layout accepts with the SAME layout: same final state; and when the
       second measures the sub-selection Mq[idx_0], Mq[idx_1], ... of the first one's measured qubits Mq, its key distribution is
       the marginal.  (map (rank L) Mq are the positions _measurament reads: C08_layout_is_rank.) *)
Theorem C08_subset_is_marginal_simloop :
  forall (T : Type) (rO rI : T) (radd rmul rsub : T -> T -> T) (ropp : T -> T),
  Ring_theory.ring_theory rO rI radd rmul rsub ropp eq ->
  forall (W : Type) (wO wI : W) (wadd wmul wsub : W -> W -> W) (wopp : W -> W),
  Ring_theory.ring_theory wO wI wadd wmul wsub wopp eq ->
  forall (born : T -> W) (A D V : Type) (ph : A -> Z * Z)
         (g1 : kind1 -> Z * Z -> list V -> m2 T) (g2 : kind2 -> bool -> Z * Z -> Z * Z -> list V -> m4 T) (grelax gflip : list V -> m2 T)
         (val : tok A D -> V) (theta : nat -> A) (dur : nat -> D) (theta' : nat -> A) (dur' : nat -> D)
         (data data' : list SimRun.instr) (used : list N) (meas meas' : list (N * N)) (n : nat) (idx : list nat),
  Forall wf_qiskit data -> Forall wf_qiskit data' ->
  process_layout data = Ok (used, meas, n) -> process_layout data' = Ok (used, meas', n) ->
  ops_of A D theta dur data = ops_of A D theta' dur' data' ->
  let L := labels used in
  let Mq := map (fun qc : N * N => N.to_nat (fst qc)) meas in let Mq' := map (fun qc : N * N => N.to_nat (fst qc)) meas' in
  exists cs cs',
    translate_calls A D theta dur used (Z.of_nat n) data = Ok cs /\
    translate_calls A D theta' dur' used (Z.of_nat n) data' = Ok cs' /\
    forall (layout layout' : option (list Z)) (psi : bits -> T), exists content content',
      own_shot A D V val ph (mat T) (mid2 T rO rI) (gs T V g1 g2 grelax gflip) n layout cs = Ok content /\
      own_shot A D V val ph (mat T) (mid2 T rO rI) (gs T V g1 g2 grelax gflip) n layout' cs' = Ok content' /\
      (forall b, sem T radd rmul (map (den T rO rI) content') psi b = sem T radd rmul (map (den T rO rI) content) psi b) /\
      (Mq' = map (fun k => nth k Mq 0%nat) idx -> Forall (fun k => (k < List.length Mq)%nat) idx -> forall t : bits,
         marg W wO wadd n (fun b => born (sem T radd rmul (map (den T rO rI) content') psi b)) (map (rank L) Mq') t
         = bsum W wadd (List.length Mq) (fun t' => if beq (bsel t' idx) t
                                                   then marg W wO wadd n (fun b => born (sem T radd rmul (map (den T rO rI) content) psi b)) (map (rank L) Mq) t'
                                                   else wO)).
Proof. exact subset_is_marginal_simloop. Qed.
Print Assumptions C08_subset_is_marginal_simloop.

Theorem C08_simloop_clauses_vocabulary :
  forall (A D : Type) (piN : N -> N) (theta : nat -> A) (dur : nat -> D),
  (injN piN <-> forall a b, piN a = piN b -> a = b) /\
  (forall x, relabel_instr piN x = mkinstr (iname x) (map piN (iqs x)) (ics x)) /\
  (forall qc, relabel_meas piN qc = (piN (fst qc), snd qc)) /\
  (forall q, pi_nat piN q = N.to_nat (piN (N.of_nat q))) /\
  (forall c t cs, dir_kept piN (mkinstr OpCx [c; t] cs) <-> (piN c <? piN t)%N = (c <? t)%N) /\
  (forall c t cs, dir_kept piN (mkinstr OpEcr [c; t] cs) <-> (piN c <? piN t)%N = (c <? t)%N) /\
  (forall q, relabel_tok A D piN (TT1 q) = TT1 (piN q) /\ relabel_tok A D piN (TT2 q) = TT2 (piN q) /\ relabel_tok A D piN (Tp q) = Tp (piN q) /\
             relabel_tok A D piN (Ttm q) = Ttm (piN q) /\ relabel_tok A D piN (Trout q) = Trout (piN q)) /\
  (forall c t, relabel_tok A D piN (Ttint c t) = Ttint (piN c) (piN t) /\ relabel_tok A D piN (Tpint c t) = Tpint (piN c) (piN t)) /\
  (forall d a, relabel_tok A D piN (Ttime d) = Ttime d /\ relabel_tok A D piN (Ttheta a) = Ttheta a) /\
  (forall data, ops_of A D theta dur data
     = map (fun jx : nat * SimRun.instr => (theta (fst jx), dur (fst jx), snd jx))
           (filter (fun jx : nat * SimRun.instr => negb (is_measure (iname (snd jx)))) (numbered data))).
Proof. exact simloop_clauses_vocabulary. Qed.
Print Assumptions C08_simloop_clauses_vocabulary.

(* 20. Non-vacuity: rz(5); cx(5,2) [control above target]; delay(7) [label otherwise unused: dropped]; delay(2); sx(9); barrier; ecr(2,5);
       three measures, on labels {2,5,9}; relabelling 2 -> 4, 5 -> 7, 9 -> 0 (not monotone, keeps the order of 2 and 5): the hypotheses of
       14, 17 and 18 hold; the calls with their own tokens, the physical circuit, the relabelled layout and the induced permutation. *)
Example C08_simloop_example :
  let data := [mkinstr OpRz [5%N] []; mkinstr OpCx [5%N; 2%N] []; mkinstr OpDelay [7%N] []; mkinstr OpDelay [2%N] []; mkinstr OpSx [9%N] [];
               mkinstr OpBarrier [2%N; 5%N; 9%N] []; mkinstr OpEcr [2%N; 5%N] [];
               mkinstr OpMeasure [5%N] [0%N]; mkinstr OpMeasure [9%N] [1%N]; mkinstr OpMeasure [2%N] [2%N]] in
  let piN := fun q : N => if N.eqb q 9 then 0%N else (q + 2)%N in
  let val := fun t : tok nat nat => t in
  Forall wf_qiskit data /\ process_layout data = Ok ([2%N; 5%N; 9%N], [(5%N, 0%N); (9%N, 1%N); (2%N, 2%N)], 3%nat) /\
  injN piN /\ Forall (dir_kept piN) data /\
  translate_calls nat nat (fun j => j) (fun j => j) [2%N; 5%N; 9%N] 3 data
    = Ok [CRz 1 0; C2 KCX 1 0 5%N 2%N; CRelax 0 3 2%N; C1 KSX 2 9%N; C2 KECR 0 1 2%N 5%N; CBitflip 0 2%N; CBitflip 1 5%N; CBitflip 2 9%N] /\
  call_args nat nat (C2 KCX 1 0 5%N 2%N) = [Ttint 5%N 2%N; Tpint 5%N 2%N; Tp 5%N; Tp 2%N; TT1 5%N; TT2 5%N; TT1 2%N; TT2 2%N] /\
  own_circ nat nat (tok nat nat) val (fun j => j) (fun j => j) [2%N; 5%N; 9%N] data
    = [P1 _ _ (O1rz nat _ 0%nat) 5; P2 _ _ (KCX, false) 5 2; P1 _ _ (O1relax nat _ (Ttime 3%nat)) 2; P1 _ _ (O1g nat _ KSX) 9; P2 _ _ (KECR, true) 2 5] /\
  process_layout (map (relabel_instr piN) data) = Ok ([0%N; 4%N; 7%N], [(7%N, 0%N); (0%N, 1%N); (4%N, 2%N)], 3%nat) /\
  map (induced [2; 5; 9] (pi_nat piN)) [0; 1; 2]%nat = [1; 2; 0]%nat.
Proof.
  cbv zeta. split.
  { repeat (apply Forall_cons; [unfold wf_qiskit; cbn; eauto; try (do 2 eexists; split; [reflexivity|discriminate]); try discriminate|]). apply Forall_nil. }
  split; [vm_compute; reflexivity|]. split.
  { intros a b. destruct (N.eqb_spec a 9) as [->|Ha], (N.eqb_spec b 9) as [->|Hb]; intros E; try reflexivity; lia. }
  split. { repeat (apply Forall_cons; [vm_compute; auto|]). apply Forall_nil. }
  repeat split; vm_compute; reflexivity.
Qed.

(* 21. THE DIRECTION HYPOTHESIS OF 18 IS NEEDED for an arbitrary gate set: the statement of 18 without dir_kept (amplitude clause) is
       FALSE.  Witness (integer scalars): cx(0,1) with both qubits measured, relabelling 0 <-> 1, a gate set whose CNOT is the identity
       and whose CNOT_inv is the zero matrix -- every other hypothesis of 18 holds, both shots succeed, the amplitude of 00 is 1
       before and 0 after.  (For the package's own gate sets CNOT / CNOT_inv and ECR / ECR_inv are the same operator up to the
       virtual-Z frame, and only the Born weights are direction-independent: C03_noise_free_born_index for the noise-free set;
       for noisy sets this stays with the relabelling oracle of checks/c08.py.) *)
Require Import QG.Proofs.SimLoopOwnWitness.
Theorem C08_relabel_needs_direction :
  injN w_pi /\ Forall wf_qiskit w_data /\ process_layout w_data = Ok ([0%N; 1%N], [(0%N, 0%N); (1%N, 1%N)], 2) /\
  ~ Forall (dir_kept w_pi) w_data /\
  (forall b, List.length b = 2 -> w_psi (permute (induced (labels [0%N; 1%N]) (pi_nat w_pi)) b) = w_psi b) /\
  exists cs cs' content content',
    process_layout (map (relabel_instr w_pi) w_data) = Ok ([0%N; 1%N], map (relabel_meas w_pi) [(0%N, 0%N); (1%N, 1%N)], 2) /\
    translate_calls unit unit (fun _ => tt) (fun _ => tt) [0%N; 1%N] 2 w_data = Ok cs /\
    translate_calls unit unit (fun _ => tt) (fun _ => tt) [0%N; 1%N] 2 (map (relabel_instr w_pi) w_data) = Ok cs' /\
    w_shot cs = Ok content /\ w_shot cs' = Ok content' /\
    sem Z Z.add Z.mul (map (den Z 0%Z 1%Z) content) w_psi [false; false] = 1%Z /\
    sem Z Z.add Z.mul (map (den Z 0%Z 1%Z) content') w_psi (permute (induced (labels [0%N; 1%N]) (pi_nat w_pi)) [false; false]) = 0%Z.
Proof. exact relabel_needs_direction. Qed.
Print Assumptions C08_relabel_needs_direction.

Definition C08_relabel_any_direction_full : Prop :=
  forall (T : Type) (rO rI : T) (radd rmul rsub : T -> T -> T) (ropp : T -> T),
  Ring_theory.ring_theory rO rI radd rmul rsub ropp eq ->
  forall (A D V : Type) (ph : A -> Z * Z)
         (g1 : kind1 -> Z * Z -> list V -> m2 T) (g2 : kind2 -> bool -> Z * Z -> Z * Z -> list V -> m4 T) (grelax gflip : list V -> m2 T)
         (piN : N -> N), injN piN ->
  forall val val' : tok A D -> V, (forall t, val' (relabel_tok A D piN t) = val t) ->
  forall (theta : nat -> A) (dur : nat -> D) (data : list SimRun.instr) (used : list N) (meas : list (N * N)) (n : nat) (psi psi' : bits -> T),
  Forall wf_qiskit data -> process_layout data = Ok (used, meas, n) ->
  let L := labels used in let data' := map (relabel_instr piN) data in
  (forall b, List.length b = n -> psi' (permute (induced L (pi_nat piN)) b) = psi b) ->
  exists used' cs cs',
    process_layout data' = Ok (used', map (relabel_meas piN) meas, n) /\
    translate_calls A D theta dur used (Z.of_nat n) data = Ok cs /\
    translate_calls A D theta dur used' (Z.of_nat n) data' = Ok cs' /\
    forall layout layout' : option (list Z), exists content content',
      own_shot A D V val ph (mat T) (mid2 T rO rI) (gs T V g1 g2 grelax gflip) n layout cs = Ok content /\
      own_shot A D V val' ph (mat T) (mid2 T rO rI) (gs T V g1 g2 grelax gflip) n layout' cs' = Ok content' /\
      (forall b, List.length b = n ->
         sem T radd rmul (map (den T rO rI) content') psi' (permute (induced L (pi_nat piN)) b) = sem T radd rmul (map (den T rO rI) content) psi b).
Theorem C08_relabel_any_direction_refuted : ~ C08_relabel_any_direction_full.
Proof. exact relabel_any_direction_refuted. Qed.
Print Assumptions C08_relabel_any_direction_refuted.
