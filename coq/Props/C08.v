(* C08 — every operation uses its own qubits' parameters, phases and tensor slots.
   Subject: coq/Gen/GenCircuit.v, regenerated on every run by symbolic execution of the real circuit.py methods
   (symbolic qubit indices i, k; both outcomes of i < k; both grid states) and of simulator._apply_gates_on_circuit
   (symbolic physical qubits and device tables). Slot conventions of the gate-set methods are those proved in C06. *)
From Coq Require Import QArith List String Bool.
Require Import QG.Sym.Expr QG.Sym.ExprEq QG.Model.Handoff QG.Proofs.GateRefl QG.Proofs.HandoffRefl QG.Gen.GenCircuit.
Import ListNotations.
Close Scope Q_scope.
Open Scope string_scope.

(* 1. Circuit classes, two-qubit methods (16 traced variants: grid class in both layer states, layered class, index class;
      CNOT and ECR; i < k and i > k): the expected gate-set method is called (CNOT / CNOT_inv / ECR / ECR_inv), with the gate
      time and two-qubit error unchanged, and for each tensor slot of the returned matrix the (phase, p, T1, T2) arguments
      that C06 assigns to that slot are exactly those of the qubit placed under it; slot 0 is the lower index; layered
      classes store the matrix in the control's row (the other row keeps its scalar placeholder). *)
Theorem C08_handoff_two_qubit :
  forallb (fun h => negb (is_two h) || two_ok h) gen_handoff = true /\ List.length (filter is_two gen_handoff) = 16%nat.
Proof. exact handoff_two_qubit. Qed.
Print Assumptions C08_handoff_two_qubit.

(* 2. Single-qubit methods (X, SX, relaxation, bitflip, depolarizing, Rz, I) of every class: own phase, own parameters, own
      slot; Rz only shifts the qubit's own phase; the three subclasses inherit everything. *)
Theorem C08_handoff_one_qubit :
  (forallb (fun h => is_two h || one_ok h) gen_handoff = true /\ List.length (filter (fun h => negb (is_two h)) gen_handoff) = 28%nat) /\
  gen_subclasses = ["StandardCircuit"; "EfficientCircuit"; "OneCircuit"].
Proof. split; [exact handoff_one_qubit | exact subclasses_inherit]. Qed.
Print Assumptions C08_handoff_one_qubit.

(* 3. Simulator, index-based class: every instruction kind hands the circuit method the internal indices of its own
      physical qubits and the table entries p, T1, T2, t_int[c][t], p_int[c][t], duration*dt indexed by those PHYSICAL
      qubits; read-out noise of internal qubit k uses tm, rout of the physical qubit layout[k]. *)
Theorem C08_simulator_index_branch :
  sim_eqb gen_sim_binary sim_spec = true /\
  calls_eqb gen_sim_binary_readout [("bitflip", [EQ (0#1)%Q; cv "tm[L[0]]"; cv "rout[L[0]]"]); ("bitflip", [EQ (1#1)%Q; cv "tm[L[1]]"; cv "rout[L[1]]"])] = true.
Proof. exact simulator_index_branch. Qed.
Print Assumptions C08_simulator_index_branch.

(* 4. End to end (index class, cx and ecr, both directions): composing simulator -> circuit method -> gate-set method,
      the pulses of the tensor slot under which the instruction's qubit q (control or target) is placed are sampled with
      the current virtual phase of q's internal index and with p[q], T1[q], T2[q] of the PHYSICAL qubit q, and the
      gate with t_int[c][t], p_int[c][t]. *)
Theorem C08_handoff_own_end_to_end :
  forallb (fun h => negb (String.eqb (h_cls h) "BinaryCircuit" && is_two h) ||
                    flow_ok (if String.eqb (h_meth h) "CNOT" then "cx" else "ecr") (h_meth h) h) gen_handoff = true.
Proof. exact handoff_own_end_to_end. Qed.
Print Assumptions C08_handoff_own_end_to_end.

(* 5. Simulator, layered branch (loops over range(nqubit)): a hand-written model for EVERY n — the operated qubit gets
      its own table entries, every other qubit gets I, the target row of a two-qubit gate is skipped, read-out uses
      tm[k], rout[k] — which the regenerated traces reproduce exactly for all instruction kinds and qubit positions, n <= 4. *)
Theorem C08_simulator_layered_branch :
  forallb (fun r => let '(n, kind, qs, calls, ro) := r in calls_eqb calls (layered_model n kind qs) && calls_eqb ro (layered_readout n)) gen_sim_layered = true /\
  List.length gen_sim_layered = 64%nat.
Proof. exact simulator_layered_branch_tied. Qed.
Print Assumptions C08_simulator_layered_branch.

(* the layered model itself, for every n and every adjacent pair: exactly one two-qubit call, on the control row, with own entries *)
Theorem C08_layered_model_own : forall n c t, c < n -> t < n -> c <> t ->
  filter (fun x => negb (String.eqb (fst x) "I")) (layered_model n "cx" [c; t]) =
  [("CNOT", [nq c; nq t; tint_ c t; pint_ c t; p_ c; p_ t; T1_ c; T2_ c; T1_ t; T2_ t])].
Proof. exact layered_model_own. Qed.
Print Assumptions C08_layered_model_own.

(* NOT theorems here (decided by the correspondence and oracle runs of checks/c08.py only, see the registry note):
   run_is_spec for whole circuits (the composition of these per-instruction tables with the builder state machines of
   C11 and the layer / item semantics of C01 / C02), invariance under relabelling of the physical qubits, and
   "measuring a subset gives the marginal of measuring all" (the marginalisation itself is C14_marginal_correct). *)

Example C08_example : List.length gen_handoff = 44%nat.
Proof. vm_compute. reflexivity. Qed.
