(* C08 — every operation uses its own qubits' parameters, phases and tensor slots.
   Subject: coq/Gen/GenCircuit.v, regenerated on every run by symbolic execution of the real circuit.py methods
   (symbolic qubit indices i, k; both outcomes of i < k; both grid states) and of simulator._apply_gates_on_circuit
   (symbolic physical qubits and device tables). Slot conventions of the gate-set methods are those proved in C06. *)
From Coq Require Import QArith List String Bool.
Require Import QG.Sym.Expr QG.Sym.ExprEq QG.Model.Handoff QG.Proofs.GateRefl QG.Proofs.HandoffRefl QG.Gen.GenCircuit.
Require Import QG.Base.State QG.Base.Mat QG.Base.Perm QG.Proofs.Relabel QG.Proofs.RelabelRank QG.Proofs.RelabelSum QG.Proofs.RelabelMain.
Require QG.Proofs.RelabelMsum QG.Proofs.RelabelLayout.
Import ListNotations.
Close Scope Q_scope.
Open Scope string_scope.

(* 1. Circuit classes, two-qubit methods (16 traced variants: grid class in both layer states, layered class, index class;
      CNOT and ECR; i < k and i > k): the expected gate-set method is called (CNOT / CNOT_inv / ECR / ECR_inv), with the gate
      time and two-qubit error unchanged, and for each tensor slot of the returned matrix the (phase, p, T1, T2) arguments
      that C06 assigns to that slot are exactly those of the qubit placed under it; slot 0 is the lower index; layered
      classes store the matrix in the control's row (the other row keeps its scalar placeholder). *)
Theorem C08_handoff_two_qubit :
  forallb (fun h => negb (is_two h) || two_ok h) gen_handoff = true /\ List.length (filter is_two gen_handoff) = 16%nat.
Proof. exact handoff_two_qubit. Qed.
Print Assumptions C08_handoff_two_qubit.

(* 2. Single-qubit methods (X, SX, relaxation, bitflip, depolarizing, Rz, I) of every class: own phase, own parameters, own
      slot; Rz only shifts the qubit's own phase; the three subclasses inherit everything. *)
Theorem C08_handoff_one_qubit :
  (forallb (fun h => is_two h || one_ok h) gen_handoff = true /\ List.length (filter (fun h => negb (is_two h)) gen_handoff) = 28%nat) /\
  gen_subclasses = ["StandardCircuit"; "EfficientCircuit"; "OneCircuit"].
Proof. split; [exact handoff_one_qubit | exact subclasses_inherit]. Qed.
Print Assumptions C08_handoff_one_qubit.

(* 3. Simulator, index-based class: every instruction kind hands the circuit method the internal indices of its own
      physical qubits and the table entries p, T1, T2, t_int[c][t], p_int[c][t], duration*dt indexed by those PHYSICAL
      qubits; read-out noise of internal qubit k uses tm, rout of the physical qubit layout[k]. *)
Theorem C08_simulator_index_branch :
  sim_eqb gen_sim_binary sim_spec = true /\
  calls_eqb gen_sim_binary_readout [("bitflip", [EQ (0#1)%Q; cv "tm[L[0]]"; cv "rout[L[0]]"]); ("bitflip", [EQ (1#1)%Q; cv "tm[L[1]]"; cv "rout[L[1]]"])] = true.
Proof. exact simulator_index_branch. Qed.
Print Assumptions C08_simulator_index_branch.

(* 4. End to end (index class, cx and ecr, both directions): composing simulator -> circuit method -> gate-set method,
      the pulses of the tensor slot under which the instruction's qubit q (control or target) is placed are sampled with
      the current virtual phase of q's internal index and with p[q], T1[q], T2[q] of the PHYSICAL qubit q, and the
      gate with t_int[c][t], p_int[c][t]. *)
Theorem C08_handoff_own_end_to_end :
  forallb (fun h => negb (String.eqb (h_cls h) "BinaryCircuit" && is_two h) ||
                    flow_ok (if String.eqb (h_meth h) "CNOT" then "cx" else "ecr") (h_meth h) h) gen_handoff = true.
Proof. exact handoff_own_end_to_end. Qed.
Print Assumptions C08_handoff_own_end_to_end.

(* 5. Simulator, layered branch (loops over range(nqubit)): a hand-written model for EVERY n — the operated qubit gets
      its own table entries, every other qubit gets I, the target row of a two-qubit gate is skipped, read-out uses
      tm[k], rout[k] — which the regenerated traces reproduce exactly for all instruction kinds and qubit positions, n <= 4. *)
Theorem C08_simulator_layered_branch :
  forallb (fun r => let '(n, kind, qs, calls, ro) := r in calls_eqb calls (layered_model n kind qs) && calls_eqb ro (layered_readout n)) gen_sim_layered = true /\
  List.length gen_sim_layered = 64%nat.
Proof. exact simulator_layered_branch_tied. Qed.
Print Assumptions C08_simulator_layered_branch.

(* the layered model itself, for every n and every adjacent pair: exactly one two-qubit call, on the control row, with own entries *)
Theorem C08_layered_model_own : forall n c t, c < n -> t < n -> c <> t ->
  filter (fun x => negb (String.eqb (fst x) "I")) (layered_model n "cx" [c; t]) =
  [("CNOT", [nq c; nq t; tint_ c t; pint_ c t; p_ c; p_ t; T1_ c; T2_ c; T1_ t; T2_ t])].
Proof. exact layered_model_own. Qed.
Print Assumptions C08_layered_model_own.

(* ====================================================================================================================
   7-13. The last sentence of the property: "Relabelling the physical qubits together with their calibration data (and the
   initial state's tensor factors) leaves the result unchanged, and measuring a subset gives the marginal of measuring all."
   Both clauses are theorems at the level of the item semantics of Base/State.v (shared with C01/C02/C03/C18), for the
   index-based circuit class and a deterministic gate set.  Proofs: Base/Perm.v, Proofs/Relabel*.v.

   MODEL (Proofs/Relabel.v, Proofs/RelabelMain.v).
     L          the used physical labels (distinct naturals); internal index of q = rank L q = number of used labels < q
                (C08_layout_is_rank: this is what C14's model of _process_layout / list.index computes);
     circuit    list of  P1 o q | P2 o c t  on physical labels (measure and barrier are not operations);
     GATE SET   gate1 : op1 -> ph -> cal -> option (2x2)   gate2 : op2 -> ph -> ph -> cal -> cal -> cal2 -> 4x4 on the
                ordered pair (control, target);  ro : cal -> 2x2 (read-out layer);  next1/next2: new virtual phases of
                the operation's own qubits.  I.e. a gate set is a FUNCTION OF THE OPERATION KIND (with its own parameters:
                angle, delay duration, a fixed noise realisation) AND OF THE OWN VALUES (phases, per-qubit calibration
                record, per-ordered-pair calibration record) of the qubits acted on -- theorems 1-6 above say the
                simulator calls the plugged gate set with exactly these own values.  All of it is abstract (any types).
     run L T1 T2 circ ph0 psi   = sem (internalise (rank L) T1 T2 circ (fun _ => ph0) ++ readout ...) psi.
     Relabelling by pi (injective on L): labels map pi L, circuit map (relabel pi) circ, tables with T1' (pi q) = T1 q and
     T2' (pi c) (pi t) = T2 c t, initial state psi' with psi' (permute s b) = psi b where s = induced L pi is the induced
     permutation of the internal indices (s (rank L q) = rank (map pi L) (pi q)); for a product state this is exactly the
     re-ordering of the tensor factors (C08_relabel_product_state).
     permute s b: the bit list whose position s q holds bit q of b.  encode L a: internal bit list of the assignment
     a : label -> bool.  marg n w pos t: total weight of the bit lists of length n showing key t at the positions pos. *)

(* 7. Permutations of qubit positions acting on bit lists (Base/Perm.v). *)
Theorem C08_permute_laws : forall (n : nat) (s : nat -> nat) (b : bits) (q : nat) (v : bool),
  perm_on n s -> List.length b = n -> q < n ->
  List.length (permute s b) = n /\ get (permute s b) (s q) = get b q /\
  upd (permute s b) (s q) v = permute s (upd b q v) /\
  unpermute s (permute s b) = b /\ permute s (unpermute s b) = b /\ permute (inv_of n s) b = unpermute s b.
Proof.
  intros n s b q v Hp L Hq. subst n. repeat split.
  - apply permute_length.
  - now apply get_permute.
  - now apply permute_upd.
  - now apply unpermute_permute.
  - now apply permute_unpermute.
  - now apply permute_inv.
Qed.
Print Assumptions C08_permute_laws.

(* 8. Equivariance of the item semantics (any scalar type with an addition and a multiplication): renaming the items by s and reading the initial
      state through s permutes the final state by s. *)
Theorem C08_sem_equivariant : forall (R : Type) (radd rmul : R -> R -> R) (n : nat) (s : nat -> nat),
  perm_on n s -> forall (items : list (item R)) (psi : bits -> R) (b : bits),
  Forall (item_lt R n) items -> List.length b = n ->
  sem R radd rmul (map (rename R s) items) (transport R s psi) (permute s b) = sem R radd rmul items psi b.
Proof. exact sem_equiv. Qed.
Print Assumptions C08_sem_equivariant.

(* 9. relabel_invariant: the final amplitude function read through the induced permutation is unchanged; equivalently, per
      assignment of bits to PHYSICAL qubits (a' (pi q) = a q) the amplitude, hence the Born weight, is unchanged. *)
Theorem C08_relabel_invariant :
  forall (R : Type) (rO rI : R) (radd rmul rsub : R -> R -> R) (ropp : R -> R),
  Ring_theory.ring_theory rO rI radd rmul rsub ropp eq ->
  forall (cal cal2 ph op1 op2 : Type)
    (gate1 : op1 -> ph -> cal -> option (m2 R)) (next1 : op1 -> ph -> ph)
    (gate2 : op2 -> ph -> ph -> cal -> cal -> cal2 -> m4 R) (next2 : op2 -> ph -> ph -> ph * ph) (ro : cal -> m2 R)
    (L : list nat) (pi : nat -> nat) (T1 T1' : nat -> cal) (T2 T2' : nat -> nat -> cal2)
    (circ : list (pop op1 op2)) (ph0 : ph) (psi psi' : bits -> R),
  NoDup L -> inj_on L pi -> Forall (pop_on op1 op2 L) circ ->
  (forall q, In q L -> T1' (pi q) = T1 q) ->
  (forall c t, In c L -> In t L -> T2' (pi c) (pi t) = T2 c t) ->
  (forall b, List.length b = List.length L -> psi' (permute (induced L pi) b) = psi b) ->
  let final := run R radd rmul cal cal2 ph op1 op2 gate1 next1 gate2 next2 ro L T1 T2 circ ph0 psi in
  let final' := run R radd rmul cal cal2 ph op1 op2 gate1 next1 gate2 next2 ro (map pi L) T1' T2' (map (relabel op1 op2 pi) circ) ph0 psi' in
  perm_on (List.length L) (induced L pi) /\
  (forall q, In q L -> induced L pi (rank L q) = rank (map pi L) (pi q)) /\
  (forall b, List.length b = List.length L -> final' (permute (induced L pi) b) = final b) /\
  (forall a a' : nat -> bool, (forall q, In q L -> a' (pi q) = a q) -> final' (encode (map pi L) a') = final (encode L a)).
Proof.
  intros R rO rI radd rmul rsub ropp Rth cal cal2 ph op1 op2 gate1 next1 gate2 next2 ro L pi T1 T1' T2 T2' circ ph0 psi psi'
         HL Hpi Hc HT1 HT2 Hpsi final final'.
  split; [now apply induced_perm|]. split; [intros q Hq; now apply induced_spec|]. split.
  - exact (relabel_invariant_bits R rO rI radd rmul rsub ropp Rth cal cal2 ph op1 op2 gate1 next1 gate2 next2 ro L pi T1 T1' T2 T2' circ ph0 psi psi' HL Hpi Hc HT1 HT2 Hpsi).
  - exact (relabel_invariant_assignment R rO rI radd rmul rsub ropp Rth cal cal2 ph op1 op2 gate1 next1 gate2 next2 ro L pi T1 T1' T2 T2' circ ph0 psi psi' HL Hpi Hc HT1 HT2 Hpsi).
Qed.
Print Assumptions C08_relabel_invariant.

(* 10. ... and so is the distribution over the keys of ANY list M of measured physical qubits (weights in any commutative
       ring W, Born rule = any function born : R -> W): measuring the qubits map pi M of the relabelled run gives every key
       the weight that measuring M gives it in the original run. *)
Theorem C08_relabel_invariant_marginal :
  forall (R : Type) (rO rI : R) (radd rmul rsub : R -> R -> R) (ropp : R -> R),
  Ring_theory.ring_theory rO rI radd rmul rsub ropp eq ->
  forall (W : Type) (wO wI : W) (wadd wmul wsub : W -> W -> W) (wopp : W -> W),
  Ring_theory.ring_theory wO wI wadd wmul wsub wopp eq ->
  forall (born : R -> W) (cal cal2 ph op1 op2 : Type)
    (gate1 : op1 -> ph -> cal -> option (m2 R)) (next1 : op1 -> ph -> ph)
    (gate2 : op2 -> ph -> ph -> cal -> cal -> cal2 -> m4 R) (next2 : op2 -> ph -> ph -> ph * ph) (ro : cal -> m2 R)
    (L : list nat) (pi : nat -> nat) (T1 T1' : nat -> cal) (T2 T2' : nat -> nat -> cal2)
    (circ : list (pop op1 op2)) (ph0 : ph) (psi psi' : bits -> R),
  NoDup L -> inj_on L pi -> Forall (pop_on op1 op2 L) circ ->
  (forall q, In q L -> T1' (pi q) = T1 q) ->
  (forall c t, In c L -> In t L -> T2' (pi c) (pi t) = T2 c t) ->
  (forall b, List.length b = List.length L -> psi' (permute (induced L pi) b) = psi b) ->
  forall (M : list nat) (t : bits), Forall (fun q => In q L) M ->
  marg W wO wadd (List.length L)
    (fun b => born (run R radd rmul cal cal2 ph op1 op2 gate1 next1 gate2 next2 ro (map pi L) T1' T2' (map (relabel op1 op2 pi) circ) ph0 psi' b))
    (map (rank (map pi L)) (map pi M)) t
  = marg W wO wadd (List.length L)
    (fun b => born (run R radd rmul cal cal2 ph op1 op2 gate1 next1 gate2 next2 ro L T1 T2 circ ph0 psi b))
    (map (rank L) M) t.
Proof. exact relabel_invariant_marginal. Qed.
Print Assumptions C08_relabel_invariant_marginal.

(* the initial state's tensor factors: a product state with factor u q on physical qubit q, relabelled with u' (pi q) = u q,
   satisfies the hypothesis on psi' of theorems 9 and 10 *)
Theorem C08_relabel_product_state :
  forall (R : Type) (rO rI : R) (radd rmul rsub : R -> R -> R) (ropp : R -> R),
  Ring_theory.ring_theory rO rI radd rmul rsub ropp eq ->
  forall (L : list nat) (pi : nat -> nat) (u u' : nat -> bool -> R) (b : bits),
  NoDup L -> inj_on L pi -> (forall q, In q L -> u' (pi q) = u q) -> List.length b = List.length L ->
  prod_state R rI rmul (map pi L) u' (permute (induced L pi) b) = prod_state R rI rmul L u b.
Proof. exact prod_state_relabel. Qed.
Print Assumptions C08_relabel_product_state.

(* 11. subset_is_marginal: for ANY weight function w on the internal bit lists (in particular the Born weights of a run --
       the run does not take the measured set as an argument), measuring the sub-selection M'[idx_0], M'[idx_1], ... of the
       measured physical qubits M' gives under key t the sum of the weights that measuring M' gives under the keys t' (all
       strings of |M'| characters) whose characters at idx spell t. *)
Theorem C08_subset_is_marginal :
  forall (W : Type) (wO wI : W) (wadd wmul wsub : W -> W -> W) (wopp : W -> W),
  Ring_theory.ring_theory wO wI wadd wmul wsub wopp eq ->
  forall (L : list nat) (w : bits -> W) (M' idx : list nat) (t : bits),
  Forall (fun k => k < List.length M') idx ->
  marg W wO wadd (List.length L) w (map (rank L) (map (fun k => nth k M' 0) idx)) t
  = bsum W wadd (List.length M') (fun t' => if beq (bsel t' idx) t then marg W wO wadd (List.length L) w (map (rank L) M') t' else wO).
Proof. exact subset_is_marginal_physical. Qed.
Print Assumptions C08_subset_is_marginal.

(* 12. The same in the vocabulary of C14 (real-valued probability vector `final` of the simulator model; C14_marginal_correct:
       the returned value under key t is msum final n pos t): the dictionary for the sub-selection is the marginal of the
       dictionary for pos'; and dictionaries of probability vectors that agree through a permutation of the bit positions agree. *)
Theorem C08_subset_is_marginal_simulator :
  forall (final : list Rdefinitions.R) (n : nat) (pos' idx : list nat) (t : list bool),
  0 < n -> Forall (fun k => k < List.length pos') idx ->
  SimRunProofs.msum final n (map (fun k => nth k pos' 0) idx) t
  = SimRunProofs.rsum (map (fun t' => SimRunProofs.msum final n pos' t')
                           (filter (fun t' => FixCounts.key_eqb (SimRunKeys.sel t' idx) t) (FixCountsKeys.all_keys (List.length pos')))).
Proof. exact RelabelMsum.msum_subset_is_marginal. Qed.
Print Assumptions C08_subset_is_marginal_simulator.

Theorem C08_relabel_invariant_simulator :
  forall (final final' : list Rdefinitions.R) (n : nat) (s : nat -> nat) (pos : list nat) (t : list bool),
  0 < n -> perm_on n s -> Forall (fun q => q < n) pos ->
  (forall b, List.length b = n -> RelabelMsum.weights_of final' (permute s b) = RelabelMsum.weights_of final b) ->
  SimRunProofs.msum final' n (map s pos) t = SimRunProofs.msum final n pos t.
Proof. exact RelabelMsum.msum_relabel. Qed.
Print Assumptions C08_relabel_invariant_simulator.

(* 13. The rank layout is the layout of the simulator model of C14 (Model/SimRun.v, tied to _process_layout, run and
       _measurament by C14's correspondence run): the used labels come out distinct, list.index of a used label in the sorted
       list is its rank, and the measured positions are the ranks of the measured labels. *)
Theorem C08_layout_is_rank :
  forall (data : list SimRun.instr) (used : list BinNums.N) (meas : list (BinNums.N * BinNums.N)) (n : nat),
  Forall SimRunProofs.wf_instr data -> SimRun.process_layout data = Res.Ok (used, meas, n) ->
  let L := map BinNat.N.to_nat used in
  NoDup L /\ n = List.length L /\
  (forall q, In q used -> SimRun.index_of q used = Some (rank L (BinNat.N.to_nat q))) /\
  SimRunKeys.positions_of meas used = map (rank L) (map (fun qc => BinNat.N.to_nat (fst qc)) meas).
Proof. exact RelabelLayout.process_layout_rank. Qed.
Print Assumptions C08_layout_is_rank.

(* WHAT IS STILL DECIDED ONLY BY THE CORRESPONDENCE / ORACLE RUNS of checks/c08.py (see the registry note):
   - run_is_spec for whole circuits: that the real simulator with the real circuit classes computes `run` for the plugged
     gate set, i.e. the composition of the per-instruction hand-off tables (theorems 1-6) with the builder state machines
     of C11 and the layer / item semantics of C01 / C02 (the oracle compares call logs and statevectors exactly);
   - that measure and barrier instructions produce no gate-set call: the regenerated tables gen_sim_binary /
     gen_sim_layered (theorems 3 and 5) enumerate exactly the six kinds rz, sx, x, cx, ecr, delay that produce calls, the
     tracer does not execute a measure instruction; the recorded call logs of the oracle runs cover it;
   - that both measured sets lead to the SAME used-label list L: _process_layout also counts a measured qubit as used, so
     measuring an otherwise untouched qubit enlarges the layout (then n and psi0 differ and theorem 11 does not apply);
   - direction consistency of the plugged gate set: that CNOT / CNOT_inv (ECR / ECR_inv), placed with slot 0 = lower
     internal index (theorem 1), are the same matrix on the ordered pair (control, target) -- a relabelling may swap which
     of the two qubits has the lower internal index.  The model's gate2 takes this for granted;
   - gate sets that sample noise: a relabelling changes neither the own values nor the order of the operations, but for the
     read-out layer (and for the layered classes) it changes the order in which the qubits draw their random numbers;
   - the layered (non index-based) classes, whose layout is the identity on 0..n-1. *)

Example C08_relabel_example :
  let L := [2; 5] in let pi := fun q => if Nat.eqb q 2 then 7 else 1 in
  NoDup L /\ inj_on L pi /\ map pi L = [7; 1] /\ map (rank L) L = [0; 1] /\ map (rank (map pi L)) (map pi L) = [1; 0] /\
  map (induced L pi) [0; 1] = [1; 0] /\ permute (induced L pi) [true; false] = [false; true] /\
  encode L (fun q => Nat.eqb q 2) = [true; false] /\ encode (map pi L) (fun q => Nat.eqb q 7) = [false; true].
Proof.
  cbv zeta. split. { repeat constructor; cbn; intuition discriminate. }
  split. { intros a b [<-|[<-|[]]] [<-|[<-|[]]]; cbn; intros E; try reflexivity; discriminate E. }
  repeat split; vm_compute; reflexivity.
Qed.

Example C08_example : List.length gen_handoff = 44%nat.
Proof. vm_compute. reflexivity. Qed.
