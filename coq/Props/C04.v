(* C04 — elementary noisy gates follow the Lindblad noisy-gate model.
   Subject: coq/Gen/GenGates.v (regenerated from factories.py, gates.py, integrator.py on every run).
   Pointwise-in-time statements decided by the reflective procedure of coq/Sym, hence valid for every angle, phase,
   parameter value and therefore for every pulse shape (the pulse only reparametrises time). *)
From Coq Require Import QArith List String Bool Reals.
From Coquelicot Require Import Complex.
Require Import QG.Sym.Expr QG.Sym.Norm QG.Sym.Mat QG.Sym.Subst.
Require Import QG.Model.GateModel QG.Proofs.GateRefl QG.Proofs.C07Refl QG.Proofs.C05Refl QG.Proofs.C05Sem QG.Proofs.C04Refl QG.Proofs.C04Sem QG.Proofs.C04Channel QG.Gen.GenGates.
Import ListNotations.
Close Scope Q_scope.

(* 1. Interaction picture. For each Lindblad operator L of the driven single-qubit gate — X, Y, Z (depolarisation),
      sigma-minus (relaxation), Z (dephasing), in the order the code draws their samples — and of the cross-resonance
      gate (ten operators on two qubits), on EVERY decision path: the noise generator with that operator's samples
      replaced by their integrand functions of the instantaneous angle (sin w, sin^2(w/2), 1 resp. cos w, sin w) and
      all other samples set to 0 equals  i * s * U(w,phi)^dagger L U(w,phi)  for a strength s that is 0 (channel
      switched off) or one of the path's square-root variables. *)
Theorem C04_interaction_picture :
  forallb sq_blocks_ok gen_sq_paths = true /\ forallb cr_blocks_ok gen_cr_paths = true /\
  (forall p j gs L s, block_strength p j gs L = Some s ->
     forall rho, interpM (block_env p j gs rho) (ep_N p) =
                 interpM (block_env p j gs rho) (MScale (EMul EI s) (MMul (MDag (ep_U p)) (MMul L (ep_U p))))).
Proof. split; [exact interaction_picture_sq | split; [exact interaction_picture_cr | exact interaction_picture_sem]]. Qed.
Print Assumptions C04_interaction_picture.

(* 2. Ito isometry. Every sampler is zero-mean and entry (a,b) of its covariance is the integrator key whose integrand
      is g_a * g_b (the Wiener entry is the duration: 1 resp. a = t_cr/tg; plain normal draws have variance a), taken
      at the gate's own (theta, duration) (C05_strength_and_integrals). That the integrator returns the integral of its
      integrand along the pulse is C12. *)
Theorem C04_covariance_is_ito :
  forallb (fun p => samplers_ok p E1 sq_blocks) gen_sq_paths = true /\ forallb (fun p => samplers_ok p cr_a cr_blocks) gen_cr_paths = true.
Proof. split; [exact covariance_is_ito_sq | exact covariance_is_ito_cr]. Qed.
Print Assumptions C04_covariance_is_ito.

(* 3. Drift. With every integrator value replaced by its integrand at the instantaneous angle (and the duration a by 1):
      drift = -(1/2) e1^2 U^dagger (L^dagger L - L^2) U for L = sigma-minus on each qubit; X, Y, Z contribute nothing. *)
Theorem C04_drift :
  forallb drift_sq_ok gen_sq_paths = true /\ forallb drift_cr_ok gen_cr_paths = true /\
  (mexpr_eqb cf (MAdd (MMul (MDag LX) LX) (MScale (EQ (-1#1)%Q) (MMul LX LX))) (zero_mat 2) = true /\
   mexpr_eqb cf (MAdd (MMul (MDag LY) LY) (MScale (EQ (-1#1)%Q) (MMul LY LY))) (zero_mat 2) = true /\
   mexpr_eqb cf (MAdd (MMul (MDag LZ) LZ) (MScale (EQ (-1#1)%Q) (MMul LZ LZ))) (zero_mat 2) = true /\
   mexpr_eqb cf (MAdd (MMul (MDag LSm) LSm) (MScale (EQ (-1#1)%Q) (MMul LSm LSm))) P1 = true).
Proof. split; [exact drift_sq | split; [exact drift_cr | exact lindblad_drift_operators]]. Qed.
Print Assumptions C04_drift.

(* 4. Noise strengths. The three strengths found in statement 1 on the all-noise path are distinct variables defined as
      ed = sqrt(p/4), e1 = sqrt(tg/T1), ep = sqrt((e2^2 - e1^2/2)/2) with e2 = sqrt(tg/T2); over the reals, for
      p >= 0, T1, T2 > 0 and T2 <= 2 T1 (the T1-limited boundary included):
      ed^2 = p/4, e1^2 = tg/T1, ep^2 = (tg/T2 - tg/(2 T1))/2. Same shapes for the cross-resonance gate with
      ed_cr = sqrt(p_cr/(4a)). *)
Theorem C04_strengths :
  sq_strength_defs_ok = true /\ cr_strength_defs_ok = true /\
  forall rho, respects rho (ep_defs sq_full) ->
    (0 <= rho (vi "p"))%R -> (0 < rho (vi "T1"))%R -> (0 < rho (vi "T2"))%R -> (rho (vi "T2") <= 2 * rho (vi "T1"))%R ->
    (rho v_ed * rho v_ed = rho (vi "p") / 4)%R /\
    (rho v_e1 * rho v_e1 = tgR / rho (vi "T1"))%R /\
    (rho v_ep * rho v_ep = (tgR / rho (vi "T2") - tgR / (2 * rho (vi "T1"))) / 2)%R.
Proof. split; [exact strengths_sq_defs | split; [exact strengths_cr_defs | exact strengths_sq_sem]]. Qed.
Print Assumptions C04_strengths.

(* 5. Exact samplers: idle depolarisation is exp(i ed (W1 X + W2 Y + W3 Z)) with three independent N(0, Dt/tg) draws and
      ed^2 = p/4; the read-out bit flip is cos(u) I + i sin(u) X = exp(i u X), u = e W, W ~ N(0, tm/tg), e^2 = rout/(tm/tg). *)
Theorem C04_exact_samplers : depol_ok = true /\ bitflip_ok = true.
Proof. split; [exact depolarizing_model | exact bitflip_model]. Qed.
Print Assumptions C04_exact_samplers.

(* 6. Gate sets: Gates(pulse) forwards every method unchanged to its factory; ScaledNoiseGates(s) calls the wrapped
      gate set with p*s and T/s, everything else unchanged. *)
Theorem C04_gate_sets :
  (fwd_ok gen_gates_fwd_relaxation && fwd_ok gen_gates_fwd_bitflip && fwd_ok gen_gates_fwd_depolarizing && fwd_ok gen_gates_fwd_single_qubit_gate &&
   fwd_ok gen_gates_fwd_X && fwd_ok gen_gates_fwd_SX && fwd_ok gen_gates_fwd_CR && fwd_ok gen_gates_fwd_CNOT && fwd_ok gen_gates_fwd_CNOT_inv &&
   fwd_ok gen_gates_fwd_ECR && fwd_ok gen_gates_fwd_ECR_inv = true) /\
  (scaled_ok gen_scaled_X "X" [same "phi"; times_s "p"; over_s "T1"; over_s "T2"] &&
   scaled_ok gen_scaled_SX "SX" [same "phi"; times_s "p"; over_s "T1"; over_s "T2"] &&
   scaled_ok gen_scaled_single_qubit_gate "single_qubit_gate" [same "theta"; same "phi"; times_s "p"; over_s "T1"; over_s "T2"] &&
   scaled_ok gen_scaled_CR "CR" [same "theta"; same "phi"; same "t_cr"; times_s "p_cr"; over_s "T1c"; over_s "T2c"; over_s "T1t"; over_s "T2t"] &&
   scaled_ok gen_scaled_relaxation "relaxation" [same "Dt"; over_s "T1"; over_s "T2"] &&
   scaled_ok gen_scaled_depolarizing "depolarizing" [same "Dt"; times_s "p"] &&
   scaled_ok gen_scaled_bitflip "bitflip" [same "Dt"; times_s "p"] &&
   scaled_ok gen_scaled_CNOT "CNOT" comp_spec && scaled_ok gen_scaled_CNOT_inv "CNOT_inv" comp_spec &&
   scaled_ok gen_scaled_ECR "ECR" comp_spec && scaled_ok gen_scaled_ECR_inv "ECR_inv" comp_spec = true).
Proof. split; [exact gates_forwarding | exact scaled_noise_gates]. Qed.
Print Assumptions C04_gate_sets.

(* 7. Idle relaxation: the shot average of G rho G^dagger is exactly the T1/T2 channel.
      Vocabulary (coq/Proofs/C04Channel.v):
      - gen_relax_paths: the four decision paths (T1 == 0 ?, T2 == 0 ?) of RelaxationFactory.construct, each with the traced
        matrix rp_G, its two samplers (W = first draw, I = second draw, both np.random.normal(0, std)) and definitions;
      - Rho = [[a, br + i bi], [br - i bi, d]] over four fresh real variables (values dm_a, dm_br, dm_bi, dm_d);
      - sample_env p rho0 w i: the environment of one shot: the samples take the values w and i, the traced product
        variable ep * W follows, everything else (parameters, strengths, standard deviations, rho) as in rho0;
      - shot_avg E p rho0: the matrix of E (fun w i => entry k l of G rho G^dagger in sample_env p rho0 w i);
      - gaussian_pair E sW sI: E is linear, E[1] = 1, E[I e^{ikW}] = 0 for all real k (independence and E[I] = 0),
        E[I^2] = sI^2, E[e^{ikW}] = exp(-k^2 sW^2 / 2)  -- the moments of two independent centred Gaussians with the
        standard deviations the code passes to its two draws (std_W, std_I: the traced std expressions).  These are the
        only probability facts used; they are HYPOTHESES of the statement (no Gaussian integral is constructed in Coq);
      - channel g1 g2 a br bi d = [[a + (1 - e^{-g1}) d, e^{-g2} (br + i bi)], [e^{-g2} (br - i bi), e^{-g1} d]].
      Statement: (i) on every path the two draws have mean 0, G rho G^dagger equals, for all values of all variables,
      [[a + i I (e^{-2iu} c - e^{2iu} b) + I^2 d, o e^{2iu} b + i I o d], [o e^{-2iu} c - i I o d, o^2 d]] (u the phase of
      G[0][0], o the modulus of G[1][1]) and no strength / standard deviation depends on a sample; (ii) every shot
      environment respects all the tracer's definitions; (iii) the shot average is the channel with g1 = Dt/T1, g2 = Dt/T2
      (all noise, T2 <= 2 T1 incl. the boundary); g2 = Dt/(2 T1) when T2 == 0 (dephasing off); g1 = 0 when T1 == 0. *)
Theorem C04_relaxation_channel :
  forallb (fun p => rp_samplers_ok p && product_ok p && defs_static_ok p) gen_relax_paths = true /\
  map rp_dec gen_relax_paths = [[false; false]; [false; true]; [true; false]; [true; true]] /\
  (forall p rho0 w i, In p gen_relax_paths -> respects rho0 (rp_defs p) -> respects (sample_env p rho0 w i) (rp_defs p)) /\
  (forall E rho0, respects rho0 (rp_defs P00) ->
     (0 <= rho0 (vi "Dt"))%R -> (0 < rho0 (vi "T1"))%R -> (0 < rho0 (vi "T2"))%R -> (rho0 (vi "T2") <= 2 * rho0 (vi "T1"))%R ->
     gaussian_pair E (std_W P00 rho0) (std_I P00 rho0) ->
     shot_avg E P00 rho0 = channel (rho0 (vi "Dt") / rho0 (vi "T1")) (rho0 (vi "Dt") / rho0 (vi "T2")) (dm_a rho0) (dm_br rho0) (dm_bi rho0) (dm_d rho0)) /\
  (forall E rho0, respects rho0 (rp_defs P01) ->
     (0 <= rho0 (vi "Dt"))%R -> (0 < rho0 (vi "T1"))%R ->
     gaussian_pair E (std_W P01 rho0) (std_I P01 rho0) ->
     shot_avg E P01 rho0 = channel (rho0 (vi "Dt") / rho0 (vi "T1")) (rho0 (vi "Dt") / rho0 (vi "T1") / 2) (dm_a rho0) (dm_br rho0) (dm_bi rho0) (dm_d rho0)) /\
  (forall E rho0, respects rho0 (rp_defs P10) ->
     (0 <= rho0 (vi "Dt"))%R -> (0 < rho0 (vi "T2"))%R ->
     gaussian_pair E (std_W P10 rho0) (std_I P10 rho0) ->
     shot_avg E P10 rho0 = channel 0 (rho0 (vi "Dt") / rho0 (vi "T2")) (dm_a rho0) (dm_br rho0) (dm_bi rho0) (dm_d rho0)) /\
  (forall E rho0, respects rho0 (rp_defs P11) ->
     gaussian_pair E (std_W P11 rho0) (std_I P11 rho0) ->
     shot_avg E P11 rho0 = channel 0 0 (dm_a rho0) (dm_br rho0) (dm_bi rho0) (dm_d rho0)).
Proof.
  split; [exact relax_paths_ok|]. split; [exact relax_decisions|]. split; [exact shot_env_is_run|].
  split; [exact relaxation_channel_P00|]. split; [exact relaxation_channel_P01|]. split; [exact relaxation_channel_P10|].
  exact relaxation_channel_P11.
Qed.
Print Assumptions C04_relaxation_channel.

(* the hypotheses of the all-noise case are jointly satisfiable (T1 = T2 = 1, Dt = 0: both standard deviations are 0 and
   the point mass at (0, 0) is the law of the two draws) *)
Example C04_relaxation_example :
  exists E rho0, respects rho0 (rp_defs P00) /\ (0 <= rho0 (vi "Dt"))%R /\ (0 < rho0 (vi "T1"))%R /\ (0 < rho0 (vi "T2"))%R /\
                 (rho0 (vi "T2") <= 2 * rho0 (vi "T1"))%R /\ gaussian_pair E (std_W P00 rho0) (std_I P00 rho0).
Proof. exact relaxation_channel_hypotheses_satisfiable. Qed.

Example C04_example : v_ed <> v_e1 /\ v_e1 <> v_ep /\ List.length sq_blocks = 5%nat /\ List.length cr_blocks = 10%nat.
Proof. vm_compute. repeat split; discriminate. Qed.
