(* placeholder *)
From Coq Require Import List.
Require Import QG.Model.Bench.
