(* C18 — bundled benchmark circuits have their documented ideal outcome, for EVERY qubit count n >= 1.
   Property theorems only.  Model: Model/Bench.v (hrqft, ghz, qft : instruction lists as functions of n), tied to
   quantum_algorithms.py by the exact instruction-list correspondence of checks/c18.py.
   Semantics: `csem P l psi` = Base/State.v `sem` of the gate items of l (apply1/apply2; qubit 0 = first bit of a
   bit list; barrier and measure contribute no item), over any PhaseRing P: a commutative ring with
   `pe P a k` ~ exp(2 pi i a/2^k) (additive, pe(0)=1, pe(2a/2^(k+1)) = pe(a/2^k), pe(1/2) = -1) and `ph P` ~ 1/sqrt 2
   (2 ph^2 = 1).  `CPhase` is that interface PROVED for Coquelicot's complex numbers (Proofs/BenchC.v), so the
   *_C theorems below carry no hypothesis beyond the axioms of Coq's real numbers.
   `ket x` is the basis state |x>;  `val x` = sum x_q 2^q (qubit 0 least significant, qiskit's numbering). *)
From Coq Require Import List Bool Arith ZArith Reals.
From Coquelicot Require Import Complex.
Require Import QG.Base.Res QG.Base.State QG.Base.PathProd QG.Model.Bench QG.Proofs.BenchLists QG.Proofs.BenchSem
  QG.Proofs.BenchGHZ QG.Proofs.BenchQFT QG.Proofs.BenchC QG.Proofs.BenchMain.
Import ListNotations.

(* (1) every generator returns  unitary instructions ++ [barrier on all qubits] ++ [measure q -> clbit q, q = 0..n-1]:
   no instruction acts after a measurement, every index is in range, and the measurement wiring is (q, q). *)
Definition wired_same_index (n : nat) (l : list gate) : Prop :=
  exists u, l = u ++ Barrier (seq 0 n) :: map (fun q => Measure q q) (seq 0 n)
    /\ forallb is_unitary u = true /\ Forall (wf_gate n) l
    /\ measures_of l = map (fun q => (q, q)) (seq 0 n).
Theorem C18_measure_same_index : forall n, 1 <= n ->
  (exists l, hrqft n = Ok l /\ wired_same_index n l) /\ wired_same_index n (ghz n) /\ wired_same_index n (qft n).
Proof. exact measure_same_index. Qed.
Print Assumptions C18_measure_same_index.

(* (2) GHZ: amplitude 1/sqrt 2 at all-zeros and at all-ones, 0 at every other n-bit outcome. *)
Theorem C18_ghz_state : forall (P : PhaseRing) n, 1 <= n ->
  let out := csem P (ghz n) (ket (pR P) (p0 P) (p1 P) (repeat false n)) in
  out (repeat false n) = ph P /\ out (repeat true n) = ph P /\
  forall b, length b = n -> b <> repeat false n -> b <> repeat true n -> out b = p0 P.
Proof. exact ghz_state_final. Qed.
Print Assumptions C18_ghz_state.

(* (3) QuantumCircuit.inverse() as modelled: whenever it succeeds on well-formed instructions, the inverted circuit
   undoes the circuit on every n-qubit state. *)
Theorem C18_inverse_undoes : forall (P : PhaseRing) n l l', Forall (wf_gate n) l -> inverse l = Ok l' ->
  forall psi b, length b = n -> csem P l' (csem P l psi) b = psi b.
Proof. exact inverse_undoes_final. Qed.
Print Assumptions C18_inverse_undoes.

(* (4) Hadamard / inverse-QFT benchmark: the generator succeeds and maps |0..0> to |0..0> exactly. *)
Theorem C18_hrqft_zero : forall (P : PhaseRing) n,
  exists l, hrqft n = Ok l /\
    csem P l (ket (pR P) (p0 P) (p1 P) (repeat false n)) (repeat false n) = p1 P /\
    forall b, length b = n -> b <> repeat false n -> csem P l (ket (pR P) (p0 P) (p1 P) (repeat false n)) b = p0 P.
Proof. exact hrqft_zero_final. Qed.
Print Assumptions C18_hrqft_zero.

(* (5) QFT, product form: on the basis state |x> the circuit produces the product state whose factor on qubit q is
   (|0> + pe(X mod 2^(q+1) / 2^(q+1)) |1>) / sqrt 2. *)
Theorem C18_qft_product : forall (P : PhaseRing) n x y, length x = n -> length y = n ->
  csem P (qft n) (ket (pR P) (p0 P) (p1 P) x) y
  = pp (pR P) (p1 P) (pmul P)
       (fun q b => pmul P (ph P) (if b then pe P (val (firstn (S q) x)) (S q) else p1 P)) y.
Proof. exact qft_product_final. Qed.
Print Assumptions C18_qft_product.

(* (6) QFT = DFT without the final qubit reversal:  <y| qft_circ(n) |x> = (1/sqrt 2)^n exp(2 pi i X rev(Y) / 2^n)
   with X = val x, rev(Y) = val (rev y). *)
Theorem C18_qft_is_dft_rev : forall (P : PhaseRing) n x y, length x = n -> length y = n ->
  csem P (qft n) (ket (pR P) (p0 P) (p1 P) x) y
  = pmul P (rpow (pR P) (p1 P) (pmul P) (ph P) n) (pe P (val x * val (rev y))%Z n).
Proof. exact qft_is_dft_rev. Qed.
Print Assumptions C18_qft_is_dft_rev.

(* ---- the same in Coquelicot's C (interface discharged): probabilities ---- *)
Local Open Scope R_scope.
Theorem C18_ghz_prob_C : forall n, (1 <= n)%nat ->
  let out := csem CPhase (ghz n) (ket C (RtoC 0) (RtoC 1) (repeat false n)) in
  Cmod (out (repeat false n)) ^ 2 = 1 / 2 /\ Cmod (out (repeat true n)) ^ 2 = 1 / 2 /\
  forall b, length b = n -> b <> repeat false n -> b <> repeat true n -> Cmod (out b) ^ 2 = 0.
Proof. exact ghz_prob_C. Qed.
Print Assumptions C18_ghz_prob_C.

Theorem C18_hrqft_prob_C : forall n,
  exists l, hrqft n = Ok l /\ Cmod (csem CPhase l (ket C (RtoC 0) (RtoC 1) (repeat false n)) (repeat false n)) ^ 2 = 1 /\
    forall b, length b = n -> b <> repeat false n -> Cmod (csem CPhase l (ket C (RtoC 0) (RtoC 1) (repeat false n)) b) ^ 2 = 0.
Proof. exact hrqft_prob_C. Qed.
Print Assumptions C18_hrqft_prob_C.

Theorem C18_qft_amp_C : forall n x y, length x = n -> length y = n ->
  csem CPhase (qft n) (ket C (RtoC 0) (RtoC 1) x) y
  = Cmult (rpow C (RtoC 1) Cmult (RtoC (/ sqrt 2)) n)
          (cos (2 * PI * IZR (val x * val (rev y)) / 2 ^ n), sin (2 * PI * IZR (val x * val (rev y)) / 2 ^ n)).
Proof. exact qft_amp_C. Qed.
Print Assumptions C18_qft_amp_C.

(* Non-vacuity: the interface has an instance (the complex numbers), and the model computes the expected
   three-qubit circuits. *)
Example C18_example :
  (pR CPhase = C /\ pe CPhase = Ce /\ ph CPhase = RtoC (/ sqrt 2)) /\
  hrqft 3 = Ok [H 2; H 1; H 0; SWAP 0 2; H 0; CPinv 1 0 1; H 1; CPinv 1 1 2; CPinv 2 0 2; H 2;
                Barrier [0; 1; 2]%nat; Measure 0 0; Measure 1 1; Measure 2 2] /\
  ghz 3 = [H 0; CX 0 1; CX 0 2; Barrier [0; 1; 2]%nat; Measure 0 0; Measure 1 1; Measure 2 2] /\
  qft 3 = [H 2; CP 2 0 2; CP 1 1 2; H 1; CP 1 0 1; H 0; Barrier [0; 1; 2]%nat; Measure 0 0; Measure 1 1; Measure 2 2].
Proof.
  split; [repeat split | repeat split; vm_compute; reflexivity].
Qed.
