(* C09 — stub, replaced below *)
From Coq Require Import List ZArith.
Require Import QG.Base.Res QG.Model.Shots.
Example C09_stub : chunksize 5 2 = 3%Z.
Proof. reflexivity. Qed.
