(* C09 — shots are independent noise realisations, sequentially and in parallel.
   Property theorems only; proofs live in Proofs/ShotsProofs.v.  The model Model/Shots.v (_perform_simulation and
   _single_shot: generator = stream read at a position, a shot = reader program over the stream, sequential threading,
   per-shot seeds drawn by the parent before the pool starts, Pool._get_tasks chunking, arbitrary worker assignment,
   execution order and delivery order) is tied to simulator.py by the exact correspondence run of checks/c09.py.

   All statements hold for every scalar type V (exact arithmetic; float reassociation is rounding), every sample type,
   every reseeding function init and every shot program whose Born vectors have a fixed length L.
   "Independent" is formalised as: different shots read disjoint positions of a stream (sequential), resp. are functions
   of seeds taken from disjoint positions of the parent's stream and of nothing else (parallel).  That samples at
   different positions of an MT19937 stream, and streams started from different seeds, are independent random variables
   is the trusted property of the generator. *)
From Coq Require Import List NArith ZArith Permutation.
Require Import QG.Base.Res QG.Model.Shots QG.Proofs.ShotsProofs.
Import ListNotations.

(* Sequential mode.  The result is the arithmetic mean (sum in shot order, divided by the shot count) of the S per-shot
   Born vectors; spec lists per shot (vector, first position, end position): the segments are chained -- each starts
   where the previous one ended, the first at the generator's position, and the generator ends at the last end -- and
   the vector of a shot is determined by the samples inside its own segment. *)
Theorem C09_seq_mean :
  forall (V : Type) (vzero : V) (vadd vdiv : V -> V -> V) (vofZ : Z -> V) (sample : Type)
         (init : list sample -> N -> sample) (shot : prog sample (list V)) (L : nat),
  (forall (s : N -> sample) (p : N), length (fst (run_prog sample shot s p)) = L) ->
  forall (shots : Z) (len : N) (s : N -> sample) (p : N),
  (0 <= shots)%Z -> N.to_nat len = L ->
  let spec := seq_spec V sample shot (Z.to_nat shots) s p in
  perform_seq V vzero vadd vdiv vofZ sample init shot shots len (mkgen sample s p) =
    Ok (mean V vdiv vofZ shots (fold_left (vadd2 V vadd) (map (seg_vec V) spec) (zeros V vzero len)),
        mkgen sample s (last_end V spec p), map (seg_vec V) spec) /\
  length spec = Z.to_nat shots /\
  chained V spec p /\
  Forall (fun x : list V * N * N =>
            forall s' : N -> sample,
            (forall q : N, (seg_start V x <= q < seg_end V x)%N -> s' q = s q) ->
            run_prog sample shot s' (seg_start V x) = (seg_vec V x, seg_end V x)) spec.
Proof. exact seq_mean. Qed.
Print Assumptions C09_seq_mean.

(* chained segments are pairwise disjoint: an earlier shot's segment ends before a later one's begins *)
Theorem C09_seq_disjoint :
  forall (V : Type) (l : list (list V * N * N)) (p : N), chained V l p ->
  forall i j : nat, (i < j < length l)%nat ->
  (seg_end V (nth i l ([], 0%N, 0%N)) <= seg_start V (nth j l ([], 0%N, 0%N)))%N.
Proof. exact chained_disjoint. Qed.
Print Assumptions C09_seq_disjoint.

(* The accumulated sum is invariant under every permutation of the order in which shot results arrive. *)
Theorem C09_pool_sum_order :
  forall (V : Type) (vadd : V -> V -> V),
  (forall x y : V, vadd x y = vadd y x) -> (forall x y z : V, vadd x (vadd y z) = vadd (vadd x y) z) ->
  forall (l l' : list (list V)) (a : list V), Permutation l l' ->
  fold_left (vadd2 V vadd) l a = fold_left (vadd2 V vadd) l' a.
Proof. exact sum_order. Qed.
Print Assumptions C09_pool_sum_order.

(* For all S >= 1 and W >= 2 the computed chunk size is at least one and W chunks suffice. *)
Theorem C09_chunksize_pos :
  forall shots W : Z, (1 <= shots)%Z -> (2 <= W)%Z -> (1 <= chunksize shots W)%Z /\ (shots <= W * chunksize shots W)%Z.
Proof. exact chunksize_pos. Qed.
Print Assumptions C09_chunksize_pos.
Theorem C09_n_processes_ge2 : forall cpu : Z, (2 <= n_processes cpu)%Z.
Proof. exact n_processes_ge2. Qed.

(* The chunking covers every argument exactly once and in order; no chunk is empty or longer than the chunk size. *)
Theorem C09_chunks_cover :
  forall (A : Type) (cs : nat) (l : list A), (1 <= cs)%nat ->
  concat (chunks cs l) = l /\ Forall (fun c : list A => c <> [] /\ (length c <= cs)%nat) (chunks cs l).
Proof. intros A. exact (@chunks_cover A). Qed.
Print Assumptions C09_chunks_cover.

(* Parallel mode, for every worker assignment (sc_assign), every execution order and delivery order of the chunks
   (permutations of the chunk indices) and every family ws of worker generators (forked copies or fresh ones):
   the parent reads seed_i from positions p+4i..p+4i+3 of its stream, in shot order, and ends at p+4S; the vector
   delivered for shot i is shot_of_seed seed_i = the shot program run on the stream init seed_i from position 0 --
   the expression mentions neither the schedule nor ws, i.e. the realisation depends on the shot's own seed only;
   the delivered vectors (log) are a permutation of the S per-shot vectors, each shot exactly once; the returned mean
   is the arithmetic mean in shot order; the chunks cover the seeds and at most W of them exist. *)
Theorem C09_pool_independent :
  forall (V : Type) (vzero : V) (vadd vdiv : V -> V -> V) (vofZ : Z -> V) (sample : Type)
         (init : list sample -> N -> sample) (shot : prog sample (list V)) (L : nat),
  (forall (s : N -> sample) (p : N), length (fst (run_prog sample shot s p)) = L) ->
  (forall x y : V, vadd x y = vadd y x) -> (forall x y z : V, vadd x (vadd y z) = vadd (vadd x y) z) ->
  forall (shots : Z) (len : N) (cpu : Z) (s : N -> sample) (p : N) (sc : sched) (ws : nat -> gen sample),
  (1 <= shots)%Z -> N.to_nat len = L ->
  let W := n_processes cpu in
  let cs := chunksize shots W in
  let seeds := map (fun i : nat => seed_at sample s (p + 4 * N.of_nat i)%N) (seq 0 (Z.to_nat shots)) in
  let chs := chunks (Z.to_nat cs) seeds in
  Permutation (sc_exec sc) (seq 0 (length chs)) -> Permutation (sc_deliver sc) (seq 0 (length chs)) ->
  exists log : list (list V),
    perform_par V vzero vadd vdiv vofZ sample init shot shots len cpu (mkgen sample s p) sc ws =
      Ok (mean V vdiv vofZ shots (fold_left (vadd2 V vadd) (map (shot_of_seed V sample init shot) seeds) (zeros V vzero len)),
          mkgen sample s (p + 4 * N.of_nat (Z.to_nat shots))%N, log) /\
    log = flat_map (fun c : nat => map (shot_of_seed V sample init shot) (nth c chs [])) (sc_deliver sc) /\
    Permutation log (map (shot_of_seed V sample init shot) seeds) /\
    concat chs = seeds /\ (length chs <= Z.to_nat W)%nat.
Proof. exact pool_run. Qed.
Print Assumptions C09_pool_independent.

(* seeds of different shots come from disjoint positions of the parent's stream *)
Theorem C09_seed_positions_disjoint :
  forall (p : N) (i j : nat) (a b : N), i <> j -> (a < 4)%N -> (b < 4)%N ->
  (p + 4 * N.of_nat i + a <> p + 4 * N.of_nat j + b)%N.
Proof. exact seed_positions_disjoint. Qed.
Print Assumptions C09_seed_positions_disjoint.

(* Non-vacuity: a shot that reads two samples; samples = stream positions (sequential) resp. 100*seed-start + position
   (parallel).  Three sequential shots from position 5 read 5-6, 7-8, 9-10.  Five shots on cpu_count = 3 (two
   processes, chunk size 3, chunks of 3 and 2) executed in the order chunk 1, chunk 0 by one worker and delivered in
   the order 1, 0: every shot reads positions 0-1 of the stream of its own seed, the parent ends at 7 + 4*5. *)
Example C09_example :
  let shot : prog N (list Z) := Draw (fun x => Draw (fun y => Ret [Z.of_N x; Z.of_N y])) in
  (forall s p, length (fst (run_prog N shot s p)) = 2) /\
  perform_seq Z 0%Z Z.add Z.div (fun z => z) N (fun _ p => p) shot 3 2 (mkgen N (fun p => p) 5%N) =
    Ok ([(5 + 7 + 9) / 3; (6 + 8 + 10) / 3]%Z, mkgen N (fun p => p) 11%N, [[5; 6]; [7; 8]; [9; 10]]%Z) /\
  (let sc := mksched (fun _ => O) [1; 0]%nat [1; 0]%nat in
   Permutation (sc_exec sc) (seq 0 2) /\
   match perform_par Z 0%Z Z.add Z.div (fun z => z) N (fun sd p => (100 * hd 0 sd + p)%N) shot 5 2 3 (mkgen N (fun p => p) 7%N) sc
           (fun _ => mkgen N (fun p => p) 7%N) with
   | Ok (_, g, log) => g_pos N g = 27%N /\ log = [[1900; 1901]; [2300; 2301]; [700; 701]; [1100; 1101]; [1500; 1501]]%Z
   | Err _ => False
   end).
Proof.
  cbv zeta. split; [reflexivity|]. split; [vm_compute; reflexivity|]. split; [apply perm_swap|]. vm_compute. split; reflexivity.
Qed.
