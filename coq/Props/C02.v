(* C02 — gate fusion never changes what a gate list computes.
   Property theorems only; proofs live in Proofs/Optimizer*.v; the models Model/Optimizer.v and Model/Sparse.v are
   tied to circ_optimizer.py and backend.py by the exact correspondence runs of checks/c02.py.

   Vocabulary.  Scalars: any commutative ring (R, rO, rI, radd, rmul, rsub, ropp with a ring_theory).
   mat R = 2x2 | 4x4 matrix over R | MBad; mmul / mkron / mid2 / mid4 interpret numpy's @, kron, identity(2|4).
   An optimizer item is (matrix, qubit list : list Z).  wf_in n = the property's well-formed items
   ([q] or [q,-1] with a 2x2 matrix, [q1,q2] distinct with a 4x4 matrix, indices in 0..n-1); wfn n = the same
   without the [q,-1] spelling (what the optimizer returns); den maps an item to the Base/State.v item it denotes,
   sem applies State.v items one after another, state_eq n compares states on n-qubit basis labels. *)
From Coq Require Import List Bool Arith ZArith Ring.
Require Import QG.Base.Res QG.Base.State QG.Model.Optimizer QG.Model.Sparse.
Require Import QG.Proofs.OptimizerSem QG.Proofs.OptimizerL13 QG.Proofs.OptimizerL2 QG.Proofs.OptimizerL4 QG.Proofs.OptimizerMain.
Import ListNotations.

(* ---- the optimizer half of the property, full strength (all rings, all n, all levels 0..4, all well-formed lists):
        the model returns normally (no exception, no OutOfFuel), the result is never longer, is again a well-formed
        list on the same n qubits, and is the same linear operator. *)
Definition C02_full : Prop :=
  forall (R : Type) (rO rI : R) (radd rmul rsub : R -> R -> R) (ropp : R -> R)
         (Rth : ring_theory rO rI radd rmul rsub ropp eq)
         (level n : nat) (items : list (mat R * list Z)),
  level <= 4 -> Forall (wf_in R n) items ->
  exists out, optimize (mat R) (mmul R radd rmul) (mkron R rmul) (mid2 R rO rI) (mid4 R rO rI) level n items = Ok out /\
    length out <= length items /\
    Forall (wf_item R n) (map (den R rO rI) out) /\
    forall psi, state_eq R n (sem R radd rmul (map (den R rO rI) out) psi) (sem R radd rmul (map (den R rO rI) items) psi).

Theorem C02_optimize_sound : C02_full.
Proof. intros R rO rI radd rmul rsub ropp Rth level n items. exact (optimize_sound_state R rO rI radd rmul rsub ropp Rth n level items). Qed.
Print Assumptions C02_optimize_sound.

(* the returned items are moreover in normalised form (no [q,-1], shapes match) *)
Theorem C02_optimize_normalised :
  forall (R : Type) (rO rI : R) (radd rmul rsub : R -> R -> R) (ropp : R -> R)
         (Rth : ring_theory rO rI radd rmul rsub ropp eq)
         (level n : nat) (items : list (mat R * list Z)),
  level <= 4 -> Forall (wf_in R n) items ->
  exists out, optimize (mat R) (mmul R radd rmul) (mkron R rmul) (mid2 R rO rI) (mid4 R rO rI) level n items = Ok out /\
    length out <= length items /\ Forall (wfn R n) out /\ equiv R rO rI radd rmul n out items.
Proof. intros R rO rI radd rmul rsub ropp Rth level n items. exact (optimize_sound R rO rI radd rmul rsub ropp Rth n level items). Qed.
Print Assumptions C02_optimize_normalised.

(* per level, on normalised lists (levels 2 and 4 with the precondition their caller establishes) *)
Theorem C02_lvl1_sound :
  forall (R : Type) (rO rI : R) (radd rmul rsub : R -> R -> R) (ropp : R -> R)
         (Rth : ring_theory rO rI radd rmul rsub ropp eq) (n : nat) (gl : list (mat R * list Z)),
  Forall (wfn R n) gl ->
  exists out, opt1 (mat R) (mmul R radd rmul) (mid2 R rO rI) gl = Ok out /\ length out <= length gl /\
    Forall (wfn R n) out /\ equiv R rO rI radd rmul n out gl /\ noadj R out /\ (gl <> [] -> out <> []).
Proof. exact lvl1_spec. Qed.
Print Assumptions C02_lvl1_sound.

Theorem C02_lvl2_sound :
  forall (R : Type) (rO rI : R) (radd rmul rsub : R -> R -> R) (ropp : R -> R)
         (Rth : ring_theory rO rI radd rmul rsub ropp eq) (n : nat) (gl : list (mat R * list Z)),
  Forall (wfn R n) gl -> noadj R gl ->
  exists out, opt2 (mat R) (mmul R radd rmul) (mkron R rmul) (mid2 R rO rI) gl = Ok out /\
    equiv R rO rI radd rmul n out gl /\ Forall (wfn R n) out /\ length out <= length gl /\ (gl <> [] -> out <> []).
Proof. exact lvl2_spec. Qed.
Print Assumptions C02_lvl2_sound.

Theorem C02_lvl3_sound :
  forall (R : Type) (rO rI : R) (radd rmul rsub : R -> R -> R) (ropp : R -> R)
         (Rth : ring_theory rO rI radd rmul rsub ropp eq) (n : nat) (gl : list (mat R * list Z)),
  Forall (wfn R n) gl ->
  exists out, opt3 (mat R) (mmul R radd rmul) (mid4 R rO rI) gl = Ok out /\ length out <= length gl /\
    Forall (wfn R n) out /\ equiv R rO rI radd rmul n out gl /\ (gl <> [] -> out <> []).
Proof. exact lvl3_spec. Qed.
Print Assumptions C02_lvl3_sound.

Theorem C02_lvl4_sound :
  forall (R : Type) (rO rI : R) (radd rmul rsub : R -> R -> R) (ropp : R -> R)
         (Rth : ring_theory rO rI radd rmul rsub ropp eq) (n : nat) (gl : list (mat R * list Z)),
  Forall (wfn R n) gl -> gl <> [] ->
  exists out, opt4 (mat R) (mmul R radd rmul) (mid2 R rO rI) n gl = Ok out /\
    equiv R rO rI radd rmul n out gl /\ Forall (wfn R n) out /\ length out <= length gl.
Proof. exact lvl4_spec. Qed.
Print Assumptions C02_lvl4_sound.

(* process_snippet on the snippets level 2 builds: one-qubit items, one two-qubit item, then at most two one-qubit
   items on different qubits *)
Theorem C02_process_snippet_sound :
  forall (R : Type) (rO rI : R) (radd rmul rsub : R -> R -> R) (ropp : R -> R)
         (Rth : ring_theory rO rI radd rmul rsub ropp eq) (n : nat)
         (pre : list (mat R * list Z)) (g : State.m4 R) (c t : Z) (post : list (mat R * list Z)),
  Forall (is1 R n) pre -> post_ok R n post ->
  (0 <= c < Z.of_nat n)%Z -> (0 <= t < Z.of_nat n)%Z -> c <> t ->
  exists out, process_snippet (mat R) (mmul R radd rmul) (mkron R rmul) (mid2 R rO rI) (pre ++ (M4 R g, [c; t]) :: post) = Ok out /\
    equiv R rO rI radd rmul n out (pre ++ (M4 R g, [c; t]) :: post) /\ Forall (wfn R n) out /\
    length out <= length (pre ++ (M4 R g, [c; t]) :: post) /\ out <> [].
Proof. exact process_snippet_spec. Qed.
Print Assumptions C02_process_snippet_sound.

(* ---- the BinaryBackend half: statement only (NOT proved; tied by exact correspondence of the COO triples and the
        tensordot oracle, see checks/c02.py and the registry note).  entry reads a matrix entry by its numeric index. *)
Definition bit_of (x : N) : bool := negb (N.eqb x 0).
Definition entry_mat (R : Type) (rO : R) (m : mat R) (r c : N) : R :=
  match m with
  | M2 _ a => a (bit_of r) (bit_of c)
  | M4 _ g => g (bit_of (N.div r 2), bit_of (N.modulo r 2)) (bit_of (N.div c 2), bit_of (N.modulo c 2))
  | MBad _ => rO
  end.
Definition C02_backend_full : Prop :=
  forall (R : Type) (rO rI : R) (radd rmul rsub : R -> R -> R) (ropp : R -> R)
         (Rth : ring_theory rO rI radd rmul rsub ropp eq)
         (n : nat) (items : list (mat R * list Z)) (psi : State.state R),
  items <> [] -> Forall (wf_in R n) items ->
  exists out, bin_statevector R rO radd rmul (mat R) (mmul R radd rmul) (mkron R rmul) (mid2 R rO rI) (mid4 R rO rI)
                (entry_mat R rO) n items psi = Ok out /\
    state_eq R n out (sem R radd rmul (map (den R rO rI) items) psi).

(* Non-vacuity: a concrete well-formed list over the Gaussian integers satisfies the hypotheses, and on symbolic
   matrices the model fuses it as the code does (the repaired F2 input: the qubit-2 gate stays outside). *)
Require Import QG.Base.ZI.
Example C02_example_wf :
  let X : State.m2 ZI := fun r c => if Bool.eqb r c then zi0 else zi1 in
  let G : State.m4 ZI := fun r c => if Bool.eqb (fst r) (fst c) && Bool.eqb (snd r) (snd c) then zii else zi0 in
  Forall (wf_in ZI 3) [(M2 ZI X, [1%Z]); (M4 ZI G, [0%Z; 1%Z]); (M2 ZI X, [2%Z; (-1)%Z])].
Proof. repeat constructor; simpl; auto; try discriminate; try (split; [reflexivity|split]; discriminate || reflexivity). Qed.

Example C02_example_sym :
  optimize_sym 4 3 [(Tok 0, [1%Z]); (Tok 1, [0%Z; 1%Z]); (Tok 2, [2%Z])]
  = Ok [(Mul (Tok 1) (Kron Id2 (Tok 0)), [0%Z; 1%Z]); (Tok 2, [2%Z])].
Proof. vm_compute. reflexivity. Qed.
