(* C02 — gate fusion never changes what a gate list computes.
   Property theorems only; proofs live in Proofs/Optimizer*.v and Proofs/Sparse*.v; the models Model/Optimizer.v and Model/Sparse.v are
   tied to circ_optimizer.py and backend.py by the exact correspondence runs of checks/c02.py.

   Vocabulary.  Scalars: any commutative ring (R, rO, rI, radd, rmul, rsub, ropp with a ring_theory).
   mat R = 2x2 | 4x4 matrix over R | MBad; mmul / mkron / mid2 / mid4 interpret numpy's @, kron, identity(2|4).
   An optimizer item is (matrix, qubit list : list Z).  wf_in n = the property's well-formed items
   ([q] or [q,-1] with a 2x2 matrix, [q1,q2] distinct with a 4x4 matrix, indices in 0..n-1); wfn n = the same
   without the [q,-1] spelling (what the optimizer returns); den maps an item to the Base/State.v item it denotes,
   sem applies State.v items one after another, state_eq n compares states on n-qubit basis labels. *)
From Coq Require Import List Bool Arith ZArith NArith Ring.
Require Import QG.Base.Res QG.Base.State QG.Model.Optimizer QG.Model.Sparse.
Require Import QG.Proofs.OptimizerSem QG.Proofs.OptimizerL13 QG.Proofs.OptimizerL2 QG.Proofs.OptimizerL4 QG.Proofs.OptimizerMain.
Require Import QG.Base.Mat QG.Proofs.SparseBits QG.Proofs.SparseJoin QG.Proofs.SparseApply QG.Proofs.SparseMain.
Import ListNotations.

(* ---- the optimizer half of the property, full strength (all rings, all n, all levels 0..4, all well-formed lists):
        the model returns normally (no exception, no OutOfFuel), the result is never longer, is again a well-formed
        list on the same n qubits, and is the same linear operator. *)
Definition C02_full : Prop :=
  forall (R : Type) (rO rI : R) (radd rmul rsub : R -> R -> R) (ropp : R -> R)
         (Rth : ring_theory rO rI radd rmul rsub ropp eq)
         (level n : nat) (items : list (mat R * list Z)),
  level <= 4 -> Forall (wf_in R n) items ->
  exists out, optimize (mat R) (mmul R radd rmul) (mkron R rmul) (mid2 R rO rI) (mid4 R rO rI) level n items = Ok out /\
    length out <= length items /\
    Forall (wf_item R n) (map (den R rO rI) out) /\
    forall psi, state_eq R n (sem R radd rmul (map (den R rO rI) out) psi) (sem R radd rmul (map (den R rO rI) items) psi).

Theorem C02_optimize_sound : C02_full.
Proof. intros R rO rI radd rmul rsub ropp Rth level n items. exact (optimize_sound_state R rO rI radd rmul rsub ropp Rth n level items). Qed.
Print Assumptions C02_optimize_sound.

(* the returned items are moreover in normalised form (no [q,-1], shapes match) *)
Theorem C02_optimize_normalised :
  forall (R : Type) (rO rI : R) (radd rmul rsub : R -> R -> R) (ropp : R -> R)
         (Rth : ring_theory rO rI radd rmul rsub ropp eq)
         (level n : nat) (items : list (mat R * list Z)),
  level <= 4 -> Forall (wf_in R n) items ->
  exists out, optimize (mat R) (mmul R radd rmul) (mkron R rmul) (mid2 R rO rI) (mid4 R rO rI) level n items = Ok out /\
    length out <= length items /\ Forall (wfn R n) out /\ equiv R rO rI radd rmul n out items.
Proof. intros R rO rI radd rmul rsub ropp Rth level n items. exact (optimize_sound R rO rI radd rmul rsub ropp Rth n level items). Qed.
Print Assumptions C02_optimize_normalised.

(* per level, on normalised lists (levels 2 and 4 with the precondition their caller establishes) *)
Theorem C02_lvl1_sound :
  forall (R : Type) (rO rI : R) (radd rmul rsub : R -> R -> R) (ropp : R -> R)
         (Rth : ring_theory rO rI radd rmul rsub ropp eq) (n : nat) (gl : list (mat R * list Z)),
  Forall (wfn R n) gl ->
  exists out, opt1 (mat R) (mmul R radd rmul) (mid2 R rO rI) gl = Ok out /\ length out <= length gl /\
    Forall (wfn R n) out /\ equiv R rO rI radd rmul n out gl /\ noadj R out /\ (gl <> [] -> out <> []).
Proof. exact lvl1_spec. Qed.
Print Assumptions C02_lvl1_sound.

Theorem C02_lvl2_sound :
  forall (R : Type) (rO rI : R) (radd rmul rsub : R -> R -> R) (ropp : R -> R)
         (Rth : ring_theory rO rI radd rmul rsub ropp eq) (n : nat) (gl : list (mat R * list Z)),
  Forall (wfn R n) gl -> noadj R gl ->
  exists out, opt2 (mat R) (mmul R radd rmul) (mkron R rmul) (mid2 R rO rI) gl = Ok out /\
    equiv R rO rI radd rmul n out gl /\ Forall (wfn R n) out /\ length out <= length gl /\ (gl <> [] -> out <> []).
Proof. exact lvl2_spec. Qed.
Print Assumptions C02_lvl2_sound.

Theorem C02_lvl3_sound :
  forall (R : Type) (rO rI : R) (radd rmul rsub : R -> R -> R) (ropp : R -> R)
         (Rth : ring_theory rO rI radd rmul rsub ropp eq) (n : nat) (gl : list (mat R * list Z)),
  Forall (wfn R n) gl ->
  exists out, opt3 (mat R) (mmul R radd rmul) (mid4 R rO rI) gl = Ok out /\ length out <= length gl /\
    Forall (wfn R n) out /\ equiv R rO rI radd rmul n out gl /\ (gl <> [] -> out <> []).
Proof. exact lvl3_spec. Qed.
Print Assumptions C02_lvl3_sound.

Theorem C02_lvl4_sound :
  forall (R : Type) (rO rI : R) (radd rmul rsub : R -> R -> R) (ropp : R -> R)
         (Rth : ring_theory rO rI radd rmul rsub ropp eq) (n : nat) (gl : list (mat R * list Z)),
  Forall (wfn R n) gl -> gl <> [] ->
  exists out, opt4 (mat R) (mmul R radd rmul) (mid2 R rO rI) n gl = Ok out /\
    equiv R rO rI radd rmul n out gl /\ Forall (wfn R n) out /\ length out <= length gl.
Proof. exact lvl4_spec. Qed.
Print Assumptions C02_lvl4_sound.

(* process_snippet on the snippets level 2 builds: one-qubit items, one two-qubit item, then at most two one-qubit
   items on different qubits *)
Theorem C02_process_snippet_sound :
  forall (R : Type) (rO rI : R) (radd rmul rsub : R -> R -> R) (ropp : R -> R)
         (Rth : ring_theory rO rI radd rmul rsub ropp eq) (n : nat)
         (pre : list (mat R * list Z)) (g : State.m4 R) (c t : Z) (post : list (mat R * list Z)),
  Forall (is1 R n) pre -> post_ok R n post ->
  (0 <= c < Z.of_nat n)%Z -> (0 <= t < Z.of_nat n)%Z -> c <> t ->
  exists out, process_snippet (mat R) (mmul R radd rmul) (mkron R rmul) (mid2 R rO rI) (pre ++ (M4 R g, [c; t]) :: post) = Ok out /\
    equiv R rO rI radd rmul n out (pre ++ (M4 R g, [c; t]) :: post) /\ Forall (wfn R n) out /\
    length out <= length (pre ++ (M4 R g, [c; t]) :: post) /\ out <> [].
Proof. exact process_snippet_spec. Qed.
Print Assumptions C02_process_snippet_sound.

(* ---- the BinaryBackend half (Model/Sparse.v; proofs in Proofs/Sparse*.v; the model is tied to backend.py by the exact
        correspondence of the COO triples, see checks/c02.py and the registry note).
        entry_mat R rO m r c = m[r, c] reads a matrix entry by its numeric index: for a 2x2 matrix a it is
        a (r <> 0) (c <> 0), for a 4x4 matrix g it is g (r / 2 <> 0, r mod 2 <> 0) (c / 2 <> 0, c mod 2 <> 0)
        (Proofs/SparseApply.v).  Full strength: every commutative ring, every n, every non-empty well-formed list, one-qubit
        items on any qubit, two-qubit items on any ordered pair of distinct qubits (adjacent or not): the model returns
        normally and the returned state is sem items psi on all n-qubit basis labels. *)
Definition C02_backend_full : Prop :=
  forall (R : Type) (rO rI : R) (radd rmul rsub : R -> R -> R) (ropp : R -> R)
         (Rth : ring_theory rO rI radd rmul rsub ropp eq)
         (n : nat) (items : list (mat R * list Z)) (psi : State.state R),
  items <> [] -> Forall (wf_in R n) items ->
  exists out, bin_statevector R rO radd rmul (mat R) (mmul R radd rmul) (mkron R rmul) (mid2 R rO rI) (mid4 R rO rI)
                (entry_mat R rO) n items psi = Ok out /\
    state_eq R n out (sem R radd rmul (map (den R rO rI) items) psi).

Theorem C02_bin_spec : C02_backend_full.
Proof. intros R rO rI radd rmul rsub ropp Rth n items psi. exact (bin_spec R rO rI radd rmul rsub ropp Rth n items psi). Qed.
Print Assumptions C02_bin_spec.

(* bits_dup (create_sparse's k_str): the 2k-digit binary of i * (2^k + 1) is the k-digit binary of i written twice *)
Theorem C02_bits_dup :
  forall (k : nat) (i : N), 0 < k -> (i < 2 ^ N.of_nat k)%N ->
  fmt_b (2 * k) (i * (2 ^ N.of_nat k + 1))%N = fmt_b k i ++ fmt_b k i.
Proof. exact bits_dup. Qed.
Print Assumptions C02_bits_dup.

(* f"{x:0{w}b}" and int(s, 2) are mutually inverse between range(2^w) and the w-character bit strings (w >= 1) *)
Theorem C02_fmt_b_val2 :
  forall (w : nat), 0 < w ->
  (forall x : N, (x < 2 ^ N.of_nat w)%N -> length (fmt_b w x) = w /\ val2 (fmt_b w x) = x) /\
  (forall s : list bool, length s = w -> (val2 s < 2 ^ N.of_nat w)%N /\ fmt_b w (val2 s) = s).
Proof. exact fmt_b_val2_inverse. Qed.
Print Assumptions C02_fmt_b_val2.

(* dense_is_apply / sparse_is_apply, one-qubit items: for every n and q < n the operator statevector builds for the qubit
   list [q] (create_dense when n = 1, create_sparse otherwise) is built without an exception and acts as apply1 q *)
Theorem C02_operator_is_apply1 :
  forall (R : Type) (rO rI : R) (radd rmul rsub : R -> R -> R) (ropp : R -> R)
         (Rth : ring_theory rO rI radd rmul rsub ropp eq) (n q : nat) (a : State.m2 R), q < n ->
  exists op, item_operator n [Z.of_nat q] = Ok op /\
    forall psi b, length b = n ->
      coo_apply R rO radd rmul (snd op) (entry_mat R rO (M2 R a)) psi b = apply1 R radd rmul q a psi b.
Proof. exact item_operator_apply1. Qed.
Print Assumptions C02_operator_is_apply1.

(* two-qubit items on any ordered pair of distinct qubits (create_dense when n = 2, create_sparse otherwise) *)
Theorem C02_operator_is_apply2 :
  forall (R : Type) (rO rI : R) (radd rmul rsub : R -> R -> R) (ropp : R -> R)
         (Rth : ring_theory rO rI radd rmul rsub ropp eq) (n q1 q2 : nat) (g : State.m4 R),
  q1 < n -> q2 < n -> q1 <> q2 ->
  exists op, item_operator n [Z.of_nat q1; Z.of_nat q2] = Ok op /\
    forall psi b, length b = n ->
      coo_apply R rO radd rmul (snd op) (entry_mat R rO (M4 R g)) psi b = apply2 R radd rmul q1 q2 g psi b.
Proof. exact item_operator_apply2. Qed.
Print Assumptions C02_operator_is_apply2.

(* the sparse operator in closed form: for a split of the n positions into not-used and used ones, applying the COO
   triples of create_sparse sums, over the 2^m column patterns jc of the used positions, gate[bits of b at used,
   jc] * psi[b with jc written at the used positions] *)
Theorem C02_sparse_sum :
  forall (R : Type) (rO rI : R) (radd rmul rsub : R -> R -> R) (ropp : R -> R)
         (Rth : ring_theory rO rI radd rmul rsub ropp eq) (qnu qs : list nat),
  NoDup qnu -> NoDup qs -> (forall p, In p qnu -> ~ In p qs) ->
  (forall p, p < length qnu + length qs -> In p qnu \/ In p qs) ->
  (forall q, In q qnu -> q < length qnu + length qs) -> (forall q, In q qs -> q < length qnu + length qs) ->
  0 < length qnu -> 0 < length qs ->
  create_sparse (map Z.of_nat qs) (map Z.of_nat qnu) (map Z.of_nat qs) (length qnu + length qs) = Ok (sparse_triples qnu qs) /\
  forall gate psi b, length b = length qnu + length qs ->
    coo_apply R rO radd rmul (sparse_triples qnu qs) gate psi b =
    bsum R radd (length qs) (fun jc => rmul (gate (fst (ent qs b (scat qs jc b))) (snd (ent qs b (scat qs jc b)))) (psi (scat qs jc b))).
Proof. exact sparse_sum_full. Qed.
Print Assumptions C02_sparse_sum.

(* Non-vacuity: a concrete well-formed list over the Gaussian integers satisfies the hypotheses, and on symbolic
   matrices the model fuses it as the code does (the repaired F2 input: the qubit-2 gate stays outside). *)
Require Import QG.Base.ZI.
Example C02_example_wf :
  let X : State.m2 ZI := fun r c => if Bool.eqb r c then zi0 else zi1 in
  let G : State.m4 ZI := fun r c => if Bool.eqb (fst r) (fst c) && Bool.eqb (snd r) (snd c) then zii else zi0 in
  Forall (wf_in ZI 3) [(M2 ZI X, [1%Z]); (M4 ZI G, [0%Z; 1%Z]); (M2 ZI X, [2%Z; (-1)%Z])].
Proof. repeat constructor; simpl; auto; try discriminate; try (split; [reflexivity|split]; discriminate || reflexivity). Qed.

(* the BinaryBackend model runs on that list (level 4 really fuses: 3 items, n = 3) and agrees with sem on every basis label *)
Example C02_example_backend :
  let X : State.m2 ZI := fun r c => if Bool.eqb r c then zi0 else zi1 in
  let G : State.m4 ZI := fun r c => if Bool.eqb (fst r) (fst c) && Bool.eqb (snd r) (snd c) then zii else zi0 in
  let items := [(M2 ZI X, [1%Z]); (M4 ZI G, [0%Z; 1%Z]); (M2 ZI X, [2%Z; (-1)%Z])] in
  let psi : State.state ZI := fun b => match b with [false; true; false] => zi1 | [true; true; true] => zii | _ => zi0 end in
  match bin_statevector ZI zi0 ziadd zimul (mat ZI) (mmul ZI ziadd zimul) (mkron ZI zimul) (mid2 ZI zi0 zi1) (mid4 ZI zi0 zi1)
          (entry_mat ZI zi0) 3 items psi with
  | Ok out => forallb (fun b => zieqb (out b) (sem ZI ziadd zimul (map (den ZI zi0 zi1) items) psi b)) (all_bits 3)
  | Err _ => false
  end = true.
Proof. vm_compute. reflexivity. Qed.

Example C02_example_sym :
  optimize_sym 4 3 [(Tok 0, [1%Z]); (Tok 1, [0%Z; 1%Z]); (Tok 2, [2%Z])]
  = Ok [(Mul (Tok 1) (Kron Id2 (Tok 0)), [0%Z; 1%Z]); (Tok 2, [2%Z])].
Proof. vm_compute. reflexivity. Qed.
