(* C02 — placeholder; replaced below once the proofs exist *)
From Coq Require Import List ZArith.
Require Import QG.Base.Res QG.Model.Optimizer QG.Model.Sparse.
Import ListNotations.
Example C02_example : optimize_sym 4 3 [(Tok 0, [1%Z]); (Tok 1, [0%Z; 1%Z]); (Tok 2, [2%Z])]
  = Ok [(Mul (Tok 1) (Kron Id2 (Tok 0)), [0%Z; 1%Z]); (Tok 2, [2%Z])].
Proof. vm_compute. reflexivity. Qed.
