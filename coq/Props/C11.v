(* C11 — placeholder while the proofs are being written *)
Require Import QG.Model.Builders.
