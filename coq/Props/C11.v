(* C11 — running is pure; objects are reusable.
   Property theorems only.  Model: Model/Builders.v (the builder state machines of Circuit [g*], AlternativeCircuit /
   StandardCircuit / EfficientCircuit / OneCircuit [l*], BinaryCircuit [b*] over abstract gate matrices M; statevector
   returns the new object state too; the shots loop with its per-shot copies).  Proofs: Proofs/BuildersProofs.v.
   Xexec s h runs the history h (public method calls) from state s and collects what the evaluations returned;
   a history that raises gives Err, so "Xexec ... = Ok ..." reads "the history ran without an exception".
   The model is tied to circuit.py / circ_optimizer.py:70-74 / simulator.py:263-316 by the exact correspondence run of
   checks/c11.py.  Python aliasing (that copy.deepcopy really isolates the caller's objects, that psi0 is not written to)
   is not expressible in a functional model: checked at run time only (checks/c11.py purity family), see C11_full below. *)
From Coq Require Import List Bool ZArith.
Require Import QG.Base.Res QG.Model.Builders QG.Proofs.BuildersProofs.
Import ListNotations.
Local Open Scope Z_scope.

(* ------------------------------------------------------------------ reset() = __init__(constructor arguments) *)
(* after ANY history, reset() produces exactly the state a newly constructed object has, field by field ... *)
Theorem C11_reset_is_init_grid :
  forall (M : Type) (idM : M) (n depth : nat) (h : list (op M)) s outs,
  gexec M idM (g_init M n depth) h = Ok (s, outs) -> g_reset M s = g_init M n depth.
Proof. exact g_reset_is_init. Qed.
Print Assumptions C11_reset_is_init_grid.

Theorem C11_reset_is_init_layered :
  forall (M : Type) (idM : M) (n : nat) (bk : backend_kind) (h : list (op M)) s outs,
  lexec M idM (l_init M n bk) h = Ok (s, outs) -> l_reset M s = l_init M n bk.
Proof. exact l_reset_is_init. Qed.
Print Assumptions C11_reset_is_init_layered.

Theorem C11_reset_is_init_index :
  forall (M : Type) (idM : M) (n : nat) (lay : option (list Z)) (h : list (op M)) s outs,
  bexec M idM (b_init M n lay) h = Ok (s, outs) -> b_reset M s = b_init M n lay.
Proof. exact b_reset_is_init. Qed.
Print Assumptions C11_reset_is_init_index.

(* ... hence every continuation h' after a reset behaves (final state, evaluation results, exceptions) exactly as on a
   newly constructed object *)
Theorem C11_reset_then_fresh :
  forall (M : Type) (idM : M),
  (forall n depth h s outs h', gexec M idM (g_init M n depth) h = Ok (s, outs) ->
     gexec M idM (g_init M n depth) (h ++ OReset M :: h') = rmap (fun x => (fst x, outs ++ snd x)) (gexec M idM (g_init M n depth) h')) /\
  (forall n bk h s outs h', lexec M idM (l_init M n bk) h = Ok (s, outs) ->
     lexec M idM (l_init M n bk) (h ++ OReset M :: h') = rmap (fun x => (fst x, outs ++ snd x)) (lexec M idM (l_init M n bk) h')) /\
  (forall n lay h s outs h', bexec M idM (b_init M n lay) h = Ok (s, outs) ->
     bexec M idM (b_init M n lay) (h ++ OReset M :: h') = rmap (fun x => (fst x, outs ++ snd x)) (bexec M idM (b_init M n lay) h')).
Proof.
  intros M idM. split; [|split].
  - intros; eapply g_reset_then_fresh; eauto.
  - intros; eapply l_reset_then_fresh; eauto.
  - intros; eapply b_reset_then_fresh; eauto.
Qed.
Print Assumptions C11_reset_then_fresh.

(* ------------------------------------------------------------------ evaluation is repeatable *)
(* statevector twice: the second call returns the same content and changes nothing; the state after the first call is
   observationally the state before it (grid: only the list->array container flag differs; index class: only the
   [q,-1] -> [q] normalisation, which is idempotent; layered: identical) *)
Theorem C11_eval_repeatable :
  forall (M : Type),
  (forall s c s1, g_eval M s = Ok (c, s1) ->
     g_eval M s1 = Ok (c, s1) /\ c = g_content M s /\ g_content M s1 = g_content M s /\
     (g_n M s1, g_depth M s1, g_j M s1, g_s M s1, g_phi M s1, g_grid M s1) = (g_n M s, g_depth M s, g_j M s, g_s M s, g_phi M s, g_grid M s)) /\
  (forall s c s1, l_eval M s = Ok (c, s1) -> l_eval M s1 = Ok (c, s1) /\ c = l_content M s /\ s1 = s) /\
  (forall s c s1, b_eval M s = Ok (c, s1) ->
     b_eval M s1 = Ok (c, s1) /\ c = b_content M s /\ b_content M s1 = b_content M s /\
     (b_n M s1, b_layout_arg M s1, b_phi M s1) = (b_n M s, b_layout_arg M s, b_phi M s)) /\
  (forall it, norm_item M (norm_item M it) = norm_item M it).
Proof.
  intros M. repeat split; intros.
  1-4: eapply g_eval_repeatable; eauto.
  1-3: eapply l_eval_repeatable; eauto.
  1-4: eapply b_eval_repeatable; eauto.
  apply norm_item_idem.
Qed.
Print Assumptions C11_eval_repeatable.

(* "observationally equal" in full: evaluations can be erased from ANY history without changing what the remaining
   operations do (same exceptions-free run, same final content; layered: the very same final state) *)
Theorem C11_eval_erasure :
  forall (M : Type) (idM : M),
  (forall h s s1 outs, gexec M idM s h = Ok (s1, outs) ->
     exists s1', gexec M idM s (erase_evals M h) = Ok (s1', []) /\ g_core M s1 = g_core M s1' /\ g_content M s1 = g_content M s1') /\
  (forall h s s1 outs, lexec M idM s h = Ok (s1, outs) -> lexec M idM s (erase_evals M h) = Ok (s1, [])) /\
  (forall h s s1 outs, bexec M idM s h = Ok (s1, outs) ->
     exists s1', bexec M idM s (erase_evals M h) = Ok (s1', []) /\ b_rel M s1 s1').
Proof.
  intros M idM. split; [|split]; intros.
  - eapply g_eval_erasure; eauto.
  - eapply l_eval_erasure; eauto.
  - eapply b_eval_erasure; eauto.
Qed.
Print Assumptions C11_eval_erasure.

(* ------------------------------------------------------------------ gates applied after an evaluation are included in the next one *)
(* classes without a fixed depth: the content returned by the last evaluation of a history is the content of the same
   operations with all earlier evaluations erased; and between resets the content only grows by appending *)
Theorem C11_eval_then_extend :
  forall (M : Type) (idM : M),
  (forall h s s1 outs, lexec M idM s (h ++ [OEval M]) = Ok (s1, outs) ->
     exists s2 c, lexec M idM s (erase_evals M h ++ [OEval M]) = Ok (s2, [c]) /\ last outs c = c /\ outs <> [] /\ c = l_content M s2) /\
  (forall h s s1 outs, bexec M idM s (h ++ [OEval M]) = Ok (s1, outs) ->
     exists s2 c, bexec M idM s (erase_evals M h ++ [OEval M]) = Ok (s2, [c]) /\ last outs c = c /\ outs <> [] /\ c = b_content M s2) /\
  (forall h s s1 outs, forallb (fun o => negb (is_reset M o)) h = true -> lexec M idM s h = Ok (s1, outs) ->
     exists extra, l_content M s1 = l_content M s ++ extra) /\
  (forall h s s1 outs, forallb (fun o => negb (is_reset M o)) h = true -> bexec M idM s h = Ok (s1, outs) ->
     exists extra, b_content M s1 = b_content M s ++ extra).
Proof.
  intros M idM. split; [|split; [|split]]; intros.
  - eapply l_eval_then_extend; eauto.
  - eapply b_eval_then_extend; eauto.
  - eapply l_content_grows; eauto.
  - eapply b_content_grows; eauto.
Qed.
Print Assumptions C11_eval_then_extend.

(* the same holds of the model of the fixed-depth class (not claimed by the property; the correspondence run checks that the
   real Circuit agrees with its model on histories that continue after an evaluation) *)
Theorem C11_eval_then_extend_grid_model :
  forall (M : Type) (idM : M) h s s1 outs, gexec M idM s (h ++ [OEval M]) = Ok (s1, outs) ->
  exists s2 c, gexec M idM s (erase_evals M h ++ [OEval M]) = Ok (s2, [c]) /\ last outs c = c /\ outs <> [] /\ c = g_content M s2.
Proof. intros; eapply g_eval_then_extend; eauto. Qed.
Print Assumptions C11_eval_then_extend_grid_model.

(* ------------------------------------------------------------------ runs are repeatable *)
(* Pure-model statement.  For ANY gate set whose answers are a function of its own state (deterministic; with or without
   internal state such as an integration cache or a call counter) and any builder class: every shot of a run sees the same
   content, run() hands back the simulator's gate set unchanged, and a second run() returns the identical result. *)
Theorem C11_run_repeatable :
  forall (M G call : Type) (gs_step : G -> call -> M * G) (S C : Type) (step : S -> op M -> res (S * option C))
         (phi_of : S -> list (Z * Z)) (s0 : S) (g : G) (p : list (instr call)) (k : nat) (l : list C) (g' : G),
  run M G call gs_step S C step phi_of s0 g p k = Ok (l, g') ->
  g' = g /\ run M G call gs_step S C step phi_of s0 g' p k = Ok (l, g') /\
  length l = k /\ (forall c, In c l -> shot M G call gs_step S C step phi_of s0 g p = Ok c).
Proof.
  intros until g'. intros H. destruct (run_repeatable _ _ _ _ _ _ _ _ _ _ _ _ _ _ H) as [-> H2]. split; [reflexivity|]. split; [exact H2|].
  unfold run in H. destruct (shots_loop M G call gs_step S C step phi_of s0 g p k) as [r|e] eqn:E; simpl in H; [|discriminate].
  injection H as <-. eapply shots_all_equal; eauto.
Qed.
Print Assumptions C11_run_repeatable.

(* The part of the property that is NOT a theorem here (runtime / correspondence only; object identity and in-place writes are
   not expressible over a functional model): the real run() leaves the caller's circuit, device tables, psi0 and gate-set object
   untouched (copy.deepcopy isolation) and statevector does not write to psi0 — checks/c11.py, purity family and psi0 oracle. *)

(* ------------------------------------------------------------------ non-vacuity and the role of the per-shot copy *)
(* A concrete history on each class (tokens are numbers, 0 is the identity array): build, evaluate twice, extend, evaluate,
   reset, rebuild; the model computes what the theorems describe. *)
Example C11_example_layered :
  let h := [OX Z 1 0; OI Z 1; OEval Z; OEval Z; OCNOT Z 2 1 0; OEval Z; OReset Z; OI Z 0; OX Z 3 1; OEval Z] in
  exists s, lexec Z 0 (l_init Z 2 BkEfficient) h
            = Ok (s, [ [[En2 1; En2 0]]; [[En2 1; En2 0]]; [[En2 1; En2 0]; [EnOne; En4 2]]; [[En2 0; En2 3]] ])
            /\ l_phi Z s = [(0, 0); (0, 0)].
Proof. eexists. vm_compute. split; reflexivity. Qed.

Example C11_example_index :
  let h := [OX Z 1 0; OEval Z; OCNOT Z 2 1 0; OEval Z; OEval Z] in
  exists s, bexec Z 0 (b_init Z 2 None) h
            = Ok (s, [ [(1, [0])]; [(1, [0]); (2, [0; 1])]; [(1, [0]); (2, [0; 1])] ])
            /\ b_items Z s = [(1, [0]); (2, [0; 1])] /\ b_phi Z s = [(0, 1); (0, 3)].
Proof. eexists. vm_compute. repeat split; reflexivity. Qed.

Example C11_example_grid :
  let h := [OX Z 1 0; OI Z 1; OECR Z 2 0 1; OEval Z; OEval Z; OReset Z] in
  exists s, gexec Z 0 (g_init Z 2 2) h = Ok (s, [ [[En2 1; En2 0]; [En4 2; EnOne]]; [[En2 1; En2 0]; [En4 2; EnOne]] ])
            /\ s = g_init Z 2 2.
Proof. eexists. vm_compute. split; reflexivity. Qed.

(* A stateful deterministic gate set (a call counter names the matrix): with the per-shot copy two shots are identical;
   if the gate-set object were shared between shots (shots_loop_shared) they would differ — the copy is what the theorem
   C11_run_repeatable rests on. *)
Example C11_copy_matters :
  let gs := fun (g : Z) (_ : unit) => (g, g + 1) in
  let p := [NG unit tt 0; NI unit 1] in
  run Z Z unit gs (lstate Z) _ (lstep Z 0) (l_phi Z) (l_init Z 2 BkStandard) 5 p 2
    = Ok ([ [[En2 5; En2 0]]; [[En2 5; En2 0]] ], 5) /\
  shots_loop_shared Z Z unit gs (lstate Z) _ (lstep Z 0) (l_phi Z) (l_init Z 2 BkStandard) 5 p 2
    = Ok ([ [[En2 5; En2 0]]; [[En2 6; En2 0]] ], 7).
Proof. vm_compute. split; reflexivity. Qed.
