(* C17 — the Hellinger distance returned by the library is a metric bounded by 1 on probability vectors.
   Property theorems only.  Their subject, `gen_compute_Hellinger_distance`, is the Gallina definition that
   checks/c17_translate.py regenerates from the CURRENT source of
   quantum_gates._utility.simulations_utility.compute_Hellinger_distance on every run (coq/Gen/GenHellinger.v);
   proofs live in Proofs/Hellinger.v (mathematics), Proofs/HellingerVocab.v (translator vocabulary) and
   Proofs/HellingerBridge.v.  Arguments in source order: (p_ng, p_real, nqubits). *)
From Coq Require Import Reals List.
Require Import QG.Base.Res QG.Model.Hellinger QG.Proofs.HellingerBridge QG.Gen.GenHellinger.
Import ListNotations.
Local Open Scope R_scope.

(* pvec n p :  length p = 2^n,  every entry >= 0,  entries sum to 1.
   bc p q = sum_i sqrt (p_i * q_i).   hell p q = 1/sqrt 2 * sqrt (sum_i (sqrt q_i - sqrt p_i)^2). *)

(* bridge: on arrays of length 2^n the translated source never raises and returns the model's value *)
Theorem C17_bridge :
  forall n p q, length p = (2 ^ n)%nat -> length q = (2 ^ n)%nat ->
  gen_compute_Hellinger_distance p q n = Ok (hell p q).
Proof. exact gen_is_hell. Qed.
Print Assumptions C17_bridge.

Theorem C17_hell_formula :
  forall n p q, pvec n p -> pvec n q ->
  gen_compute_Hellinger_distance p q n = Ok (sqrt (1 - bc p q)).
Proof. exact gen_formula. Qed.
Print Assumptions C17_hell_formula.

Theorem C17_bounds :
  forall n p q, pvec n p -> pvec n q ->
  exists h, gen_compute_Hellinger_distance p q n = Ok h /\ 0 <= h <= 1.
Proof. exact gen_bounds. Qed.
Print Assumptions C17_bounds.

Theorem C17_zero_iff_equal :
  forall n p q, pvec n p -> pvec n q ->
  exists h, gen_compute_Hellinger_distance p q n = Ok h /\ (h = 0 <-> p = q).
Proof. exact gen_zero_iff. Qed.
Print Assumptions C17_zero_iff_equal.

Theorem C17_one_iff_disjoint :
  forall n p q, pvec n p -> pvec n q ->
  exists h, gen_compute_Hellinger_distance p q n = Ok h /\
            (h = 1 <-> forall i, (i < 2 ^ n)%nat -> nth i p 0 * nth i q 0 = 0).
Proof. exact gen_one_iff. Qed.
Print Assumptions C17_one_iff_disjoint.

Theorem C17_symmetric :
  forall n p q, pvec n p -> pvec n q ->
  gen_compute_Hellinger_distance p q n = gen_compute_Hellinger_distance q p n.
Proof. exact gen_sym. Qed.
Print Assumptions C17_symmetric.

Theorem C17_triangle :
  forall n p q r, pvec n p -> pvec n q -> pvec n r ->
  exists hpq hqr hpr,
    gen_compute_Hellinger_distance p q n = Ok hpq /\ gen_compute_Hellinger_distance q r n = Ok hqr /\
    gen_compute_Hellinger_distance p r n = Ok hpr /\ hpr <= hpq + hqr.
Proof. exact gen_triangle. Qed.
Print Assumptions C17_triangle.

(* Non-vacuity: probability vectors exist (two point masses and the uniform vector on one qubit). *)
Example C17_example : pvec 1 [1; 0] /\ pvec 1 [0; 1] /\ pvec 1 [1/2; 1/2].
Proof. exact pvec_example. Qed.
