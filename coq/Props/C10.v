(* C10 — placeholder while the proofs are being written *)
Require Import QG.Model.Cache QG.Gen.GenCacheKey.
Theorem key_covers_all : gen_shape = full_shape. Proof. reflexivity. Qed.
