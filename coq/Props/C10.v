(* C10 — fixed numpy seed reproduces results; sampling has no hidden history.
   Property theorems only.  Model: Model/Cache.v (Integrator.integrate as a step function over a per-object dictionary
   whose key is the tuple read from the CURRENT integrator.py: Gen/GenCacheKey.v, regenerated on every run by
   checks/c10_translate.py; the sampling step over an abstract generator).  Proofs: Proofs/CacheProofs.v.
   Vocabulary (defined in Proofs/CacheProofs.v):
     reach sh p c      c is the dictionary of an integrator for pulse p after ANY sequence of integrate calls
                       (calls that raise leave it unchanged);
     cache_inv sh p c  every entry (k |-> v) of c satisfies v = eval p k, and only validated keys are stored;
     wreach sh w       w is a process state reachable by any history of Integrator constructions and integrate calls;
     integ_inv sh g    cache_inv for the integrator object g.
   I, T, A, V, P are arbitrary types (integrand names, angles, durations, values, pulses) with decidable equality on the
   key components; eval is the uncached evaluation; known / a_pos are the two assertions of integrate. *)
From Coq Require Import List Bool.
Require Import QG.Base.Res QG.Model.Cache QG.Gen.GenCacheKey QG.Proofs.CacheProofs.
Import ListNotations.

(* The tie to the source: the key read from integrator.py contains all three arguments and the dictionary is created
   per object.  Dropping a component or moving _cache to the class makes this fail, and with it every theorem below. *)
Theorem C10_key_covers_all :
  key_uses_integrand && key_uses_theta && key_uses_a && cache_per_instance = true /\ gen_shape = full_shape.
Proof. split; reflexivity. Qed.
Print Assumptions C10_key_covers_all.

(* cache_inv: after ANY sequence of integrate calls every cached entry is the uncached value of its key *)
Theorem C10_cache_inv :
  forall (I T A V P : Type) (I_eqb : I -> I -> bool) (T_eqb : T -> T -> bool) (A_eqb : A -> A -> bool),
  (forall x y, I_eqb x y = true <-> x = y) -> (forall x y, T_eqb x y = true <-> x = y) -> (forall x y, A_eqb x y = true <-> x = y) ->
  forall (known : I -> bool) (a_pos : A -> bool) (eval : P -> I -> T -> A -> res V) (p : P) c,
  reach I T A V P I_eqb T_eqb A_eqb known a_pos eval gen_shape p c ->
  forall i th a v, lookup I T A V I_eqb T_eqb A_eqb (mk_key I T A gen_shape i th a) c = Some v ->
                   eval p i th a = Ok v /\ known i = true /\ a_pos a = true.
Proof. intros. eapply cache_inv_reach; eauto; try reflexivity. Qed.
Print Assumptions C10_cache_inv.

(* cached_eq_uncached: in every reachable cache state a call returns exactly what an integrator without cache returns
   (same value, or the same exception) *)
Theorem C10_cached_eq_uncached :
  forall (I T A V P : Type) (I_eqb : I -> I -> bool) (T_eqb : T -> T -> bool) (A_eqb : A -> A -> bool),
  (forall x y, I_eqb x y = true <-> x = y) -> (forall x y, T_eqb x y = true <-> x = y) -> (forall x y, A_eqb x y = true <-> x = y) ->
  forall (known : I -> bool) (a_pos : A -> bool) (eval : P -> I -> T -> A -> res V) (p : P) c i th a,
  reach I T A V P I_eqb T_eqb A_eqb known a_pos eval gen_shape p c ->
  rmap (fun r => fst (fst r)) (integrate_on I T A V P I_eqb T_eqb A_eqb known a_pos eval gen_shape p c i th a)
  = uncached I T A V P known a_pos eval p i th a.
Proof. intros. apply cached_eq_uncached; auto. Qed.
Print Assumptions C10_cached_eq_uncached.

(* key_complete: requests with equal keys have equal arguments, hence equal uncached values; requests differing in any
   argument (equal angles with different durations, equal durations with different angles, ...) have different keys *)
Theorem C10_key_complete :
  forall (I T A V P : Type) (I_eqb : I -> I -> bool) (T_eqb : T -> T -> bool) (A_eqb : A -> A -> bool),
  (forall x y, I_eqb x y = true <-> x = y) -> (forall x y, T_eqb x y = true <-> x = y) -> (forall x y, A_eqb x y = true <-> x = y) ->
  forall (known : I -> bool) (a_pos : A -> bool) (eval : P -> I -> T -> A -> res V) (p : P) i th a i' th' a',
  (key_eqb I T A I_eqb T_eqb A_eqb (mk_key I T A gen_shape i th a) (mk_key I T A gen_shape i' th' a') = true ->
     uncached I T A V P known a_pos eval p i th a = uncached I T A V P known a_pos eval p i' th' a') /\
  ((i <> i' \/ th <> th' \/ a <> a') ->
     key_eqb I T A I_eqb T_eqb A_eqb (mk_key I T A gen_shape i th a) (mk_key I T A gen_shape i' th' a') = false).
Proof.
  intros. split.
  - apply key_complete; auto.
  - apply distinct_requests_distinct_keys; auto.
Qed.
Print Assumptions C10_key_complete.

(* instances_disjoint: a call on integrator k changes no other integrator and there is no shared dictionary; and in every
   reachable process state a call returns the uncached value for ITS OWN pulse *)
Theorem C10_instances_disjoint :
  forall (I T A V P : Type) (I_eqb : I -> I -> bool) (T_eqb : T -> T -> bool) (A_eqb : A -> A -> bool)
         (known : I -> bool) (a_pos : A -> bool) (eval : P -> I -> T -> A -> res V) w k i th a w' out,
  wstep I T A V P I_eqb T_eqb A_eqb known a_pos eval gen_shape w (WInt I T A P k i th a) = Ok (w', out) ->
  (forall j, j <> k -> nth_error (objs I T A V P w') j = nth_error (objs I T A V P w) j) /\
  shared I T A V P w' = shared I T A V P w /\ length (objs I T A V P w') = length (objs I T A V P w).
Proof. intros. eapply instances_disjoint; eauto; try reflexivity. Qed.
Print Assumptions C10_instances_disjoint.

Theorem C10_world_cached_eq_uncached :
  forall (I T A V P : Type) (I_eqb : I -> I -> bool) (T_eqb : T -> T -> bool) (A_eqb : A -> A -> bool),
  (forall x y, I_eqb x y = true <-> x = y) -> (forall x y, T_eqb x y = true <-> x = y) -> (forall x y, A_eqb x y = true <-> x = y) ->
  forall (known : I -> bool) (a_pos : A -> bool) (eval : P -> I -> T -> A -> res V) w k g i th a,
  wreach I T A V P I_eqb T_eqb A_eqb known a_pos eval gen_shape w ->
  nth_error (objs I T A V P w) k = Some g ->
  rmap (fun r => match snd r with Some (v, _) => Some v | None => None end)
       (wstep I T A V P I_eqb T_eqb A_eqb known a_pos eval gen_shape w (WInt I T A P k i th a))
  = rmap Some (uncached I T A V P known a_pos eval (pulse I T A V P g) i th a).
Proof. intros. apply world_cached_eq_uncached; auto. Qed.
Print Assumptions C10_world_cached_eq_uncached.

(* sample_history_free: the matrix and the successor generator state of a sampling step depend only on the program
   (= method and arguments), the pulse and the generator state — not on the cache contents *)
Theorem C10_sample_history_free :
  forall (I T A V P : Type) (I_eqb : I -> I -> bool) (T_eqb : T -> T -> bool) (A_eqb : A -> A -> bool),
  (forall x y, I_eqb x y = true <-> x = y) -> (forall x y, T_eqb x y = true <-> x = y) -> (forall x y, A_eqb x y = true <-> x = y) ->
  forall (known : I -> bool) (a_pos : A -> bool) (eval : P -> I -> T -> A -> res V)
         (G D X Mx : Type) (draw : D -> G -> X * G) (pr : prog I T A V D X Mx) (g1 g2 : integ I T A V P) (r : G),
  integ_inv I T A V P I_eqb T_eqb A_eqb known a_pos eval gen_shape g1 ->
  integ_inv I T A V P I_eqb T_eqb A_eqb known a_pos eval gen_shape g2 ->
  pulse I T A V P g1 = pulse I T A V P g2 ->
  rmap (fun x => (fst (fst x), snd (fst x))) (run_prog I T A V P I_eqb T_eqb A_eqb known a_pos eval gen_shape G D X Mx draw pr g1 r)
  = rmap (fun x => (fst (fst x), snd (fst x))) (run_prog I T A V P I_eqb T_eqb A_eqb known a_pos eval gen_shape G D X Mx draw pr g2 r).
Proof. intros. apply sample_history_free; auto. Qed.
Print Assumptions C10_sample_history_free.

(* ... in particular after ANY sequence of gates previously sampled from the same gate set (other angles, other
   durations, the same request: warm cache): re-seeding to r reproduces what a newly built gate set samples from r *)
Theorem C10_sample_after_any_history :
  forall (I T A V P : Type) (I_eqb : I -> I -> bool) (T_eqb : T -> T -> bool) (A_eqb : A -> A -> bool),
  (forall x y, I_eqb x y = true <-> x = y) -> (forall x y, T_eqb x y = true <-> x = y) -> (forall x y, A_eqb x y = true <-> x = y) ->
  forall (known : I -> bool) (a_pos : A -> bool) (eval : P -> I -> T -> A -> res V)
         (G D X Mx : Type) (draw : D -> G -> X * G) (hist : list (prog I T A V D X Mx)) (pr : prog I T A V D X Mx)
         (p : P) (r0 r : G) ms r1 g1,
  run_progs I T A V P I_eqb T_eqb A_eqb known a_pos eval gen_shape G D X Mx draw hist (new_integ I T A V P p) r0 = Ok (ms, r1, g1) ->
  rmap (fun x => (fst (fst x), snd (fst x))) (run_prog I T A V P I_eqb T_eqb A_eqb known a_pos eval gen_shape G D X Mx draw pr g1 r)
  = rmap (fun x => (fst (fst x), snd (fst x)))
         (run_prog I T A V P I_eqb T_eqb A_eqb known a_pos eval gen_shape G D X Mx draw pr (new_integ I T A V P p) r).
Proof. intros. eapply sample_after_any_history; eauto. Qed.
Print Assumptions C10_sample_after_any_history.

(* seeding reproduces: a whole sequence of gates from generator state r is the same on any two gate-set objects for the
   same pulse, whatever their cache states (first pass vs second pass on one object; two objects) *)
Theorem C10_sequence_reproducible :
  forall (I T A V P : Type) (I_eqb : I -> I -> bool) (T_eqb : T -> T -> bool) (A_eqb : A -> A -> bool),
  (forall x y, I_eqb x y = true <-> x = y) -> (forall x y, T_eqb x y = true <-> x = y) -> (forall x y, A_eqb x y = true <-> x = y) ->
  forall (known : I -> bool) (a_pos : A -> bool) (eval : P -> I -> T -> A -> res V)
         (G D X Mx : Type) (draw : D -> G -> X * G) (ps : list (prog I T A V D X Mx)) (g1 g2 : integ I T A V P) (r : G),
  integ_inv I T A V P I_eqb T_eqb A_eqb known a_pos eval gen_shape g1 ->
  integ_inv I T A V P I_eqb T_eqb A_eqb known a_pos eval gen_shape g2 ->
  pulse I T A V P g1 = pulse I T A V P g2 ->
  rmap (fun x => (fst (fst x), snd (fst x))) (run_progs I T A V P I_eqb T_eqb A_eqb known a_pos eval gen_shape G D X Mx draw ps g1 r)
  = rmap (fun x => (fst (fst x), snd (fst x))) (run_progs I T A V P I_eqb T_eqb A_eqb known a_pos eval gen_shape G D X Mx draw ps g2 r).
Proof. intros. apply sequence_reproducible; auto. Qed.
Print Assumptions C10_sequence_reproducible.

(* The hypotheses on the key are not idle: without the duration in the key, or with one dictionary for all integrators,
   the model returns a wrong value on a two-call history. *)
Theorem C10_key_without_a_refuted :
  forall (I T A V P : Type) (I_eqb : I -> I -> bool) (T_eqb : T -> T -> bool) (A_eqb : A -> A -> bool),
  (forall x y, I_eqb x y = true <-> x = y) -> (forall x y, T_eqb x y = true <-> x = y) -> (forall x y, A_eqb x y = true <-> x = y) ->
  forall (known : I -> bool) (a_pos : A -> bool) (eval : P -> I -> T -> A -> res V) (sh : shape) p i th a1 a2 v1 v2,
  uses_a sh = false -> known i = true -> a_pos a1 = true -> a_pos a2 = true ->
  eval p i th a1 = Ok v1 -> eval p i th a2 = Ok v2 -> v1 <> v2 ->
  exists c1, integrate_on I T A V P I_eqb T_eqb A_eqb known a_pos eval sh p [] i th a1 = Ok (v1, c1, true) /\
             integrate_on I T A V P I_eqb T_eqb A_eqb known a_pos eval sh p c1 i th a2 = Ok (v1, c1, false) /\
             uncached I T A V P known a_pos eval p i th a2 = Ok v2.
Proof. intros. eapply key_without_a_collides; eauto. Qed.
Print Assumptions C10_key_without_a_refuted.

Theorem C10_shared_cache_refuted :
  forall (I T A V P : Type) (I_eqb : I -> I -> bool) (T_eqb : T -> T -> bool) (A_eqb : A -> A -> bool),
  (forall x y, I_eqb x y = true <-> x = y) -> (forall x y, T_eqb x y = true <-> x = y) -> (forall x y, A_eqb x y = true <-> x = y) ->
  forall (known : I -> bool) (a_pos : A -> bool) (eval : P -> I -> T -> A -> res V) (sh : shape) p1 p2 i th a v1 v2,
  per_instance sh = false -> known i = true -> a_pos a = true ->
  eval p1 i th a = Ok v1 -> eval p2 i th a = Ok v2 -> v1 <> v2 ->
  exists w out, wexec I T A V P I_eqb T_eqb A_eqb known a_pos eval sh (empty_world I T A V P)
                  [WNew I T A P p1; WNew I T A P p2; WInt I T A P 0 i th a; WInt I T A P 1 i th a] = Ok (w, out) /\
                nth 3 out None = Some (v1, false) /\ uncached I T A V P known a_pos eval p2 i th a = Ok v2.
Proof. intros. eapply shared_cache_collides; eauto. Qed.
Print Assumptions C10_shared_cache_refuted.

(* Non-vacuity: a concrete history on the instance used by the correspondence run (keys = integers, value = provenance):
   same angle / other duration misses, repeating the first request hits, and every reachable state satisfies the
   hypotheses of the theorems above. *)
Example C10_example :
  let ev := fun (p i th a : nat) => Ok (p, i, th, a) in
  let kn := fun i : nat => Nat.ltb i 8 in
  let ap := fun a : nat => Nat.ltb 0 a in
  let step := integrate_on nat nat nat (nat * nat * nat * nat) nat Nat.eqb Nat.eqb Nat.eqb kn ap ev gen_shape 5 in
  exists c1 c2, step [] 0 3 1 = Ok ((5, 0, 3, 1), c1, true) /\ step c1 0 3 2 = Ok ((5, 0, 3, 2), c2, true) /\
                step c2 0 3 1 = Ok ((5, 0, 3, 1), c2, false) /\
                reach nat nat nat (nat * nat * nat * nat) nat Nat.eqb Nat.eqb Nat.eqb kn ap ev gen_shape 5 c2.
Proof.
  intros. eexists _, _. split; [vm_compute; reflexivity|]. split; [vm_compute; reflexivity|]. split; [vm_compute; reflexivity|].
  eapply reach_call with (i := 0) (th := 3) (a := 2);
    [eapply reach_call with (i := 0) (th := 3) (a := 1); [apply reach_new|]|]; vm_compute; reflexivity.
Qed.
