(* C19 — batch helpers run every job exactly once and merge result files exactly.
   Property theorems only; proofs live in Proofs/Batch.v; the model in Model/Batch.v is tied to
   simulations_utility.{perform_parallel_simulation_with_multiprocessing, perform_parallel_simulation,
   mock_perform_parallel_simulation, post_process_split} by the exact correspondence run of checks/c19.py. *)
From Coq Require Import List NArith ZArith Permutation.
Require Import QG.Base.Res QG.Model.Batch QG.Proofs.Batch.
Import ListNotations.

(* Merge.  For every entry type V with an addition and a division by an integer, every file system f, all lists of
   source and (pairwise distinct) target paths and every split: if post_process_split returns normally then
   split > 1, target j holds the element-wise mean (left-to-right sum divided by split) of the split arrays stored
   under sources[j*split .. (j+1)*split-1] in the ORIGINAL file system, every path that is not a target -- in particular
   every source -- holds what it held before. *)
Theorem C19_merge_ok :
  forall (V : Type) (vadd : V -> V -> V) (vdiv : V -> Z -> V) (d : V)
         (f : list (N * list V)) (sources targets : list N) (split : Z) (f' : list (N * list V)),
  NoDup targets ->
  post_process_split V vadd vdiv f sources targets split = (f', Ok tt) ->
  (1 < split)%Z /\
  (forall j t, nth_error targets j = Some t ->
     exists arrs m,
       Forall2 (fun s a => lookup V s f = Some a)
               (slice sources (j * Z.to_nat split) (j * Z.to_nat split + Z.to_nat split)) arrs /\
       length arrs = Z.to_nat split /\ lookup V t f' = Some m /\ is_mean V vadd vdiv d arrs split m) /\
  (forall p, ~ In p targets -> lookup V p f' = lookup V p f) /\
  (forall s, In s sources -> lookup V s f' = lookup V s f).
Proof. exact merge_ok. Qed.
Print Assumptions C19_merge_ok.

(* is_mean over the integers is the plain arithmetic mean *)
Theorem C19_mean_meaning_Z :
  forall arrs count m, is_mean Z Z.add Z.div 0%Z arrs count m ->
  forall i, (i < length m)%nat -> nth i m 0%Z = (fold_right Z.add 0 (column Z i 0 arrs) / count)%Z.
Proof. exact is_mean_Z. Qed.
Print Assumptions C19_mean_meaning_Z.

(* Refusal.  Inconsistent counts, a missing source, ANY existing target, or split <= 1: AssertionError and the file
   system is returned unchanged. *)
Theorem C19_merge_refuses :
  forall (V : Type) (vadd : V -> V -> V) (vdiv : V -> Z -> V)
         (f : list (N * list V)) (sources targets : list N) (split : Z),
  ((split * Z.of_nat (length targets) <> Z.of_nat (length sources))%Z \/
   (exists s, In s sources /\ isfile V f s = false) \/
   (exists t, In t targets /\ isfile V f t = true) \/
   (split <= 1)%Z) ->
  post_process_split V vadd vdiv f sources targets split = (f, Err AssertionError).
Proof. exact merge_refuses. Qed.
Print Assumptions C19_merge_refuses.

(* ... and it refuses nothing else: consistent counts, split > 1, no existing target, every group made of existing
   files of one common shape => returns normally. *)
Theorem C19_merge_accepts :
  forall (V : Type) (vadd : V -> V -> V) (vdiv : V -> Z -> V)
         (f : list (N * list V)) (sources targets : list N) (split : Z),
  (split * Z.of_nat (length targets) = Z.of_nat (length sources))%Z -> (1 < split)%Z ->
  (forall t, In t targets -> isfile V f t = false) ->
  (forall j, (j < length targets)%nat ->
     exists a0 arrs, Forall2 (fun s a => lookup V s f = Some a)
                             (slice sources (j * Z.to_nat split) (j * Z.to_nat split + Z.to_nat split)) (a0 :: arrs) /\
                     Forall (fun a => length a = length a0) arrs) ->
  exists f', post_process_split V vadd vdiv f sources targets split = (f', Ok tt).
Proof. exact merge_accepts. Qed.
Print Assumptions C19_merge_accepts.

(* Runners.  all_succeed sim args: the simulation returns an (elapsed, label) pair on every argument.
   Library behaviour (trusted, stated as premises): imap_unordered with >= 1 process and chunksize >= 1 yields the
   results of func on a permutation of the iterable; a ProcessPoolExecutor runs every submitted call once. *)
Theorem C19_runner_once_pool :
  forall (A T L : Type) (sim : A -> res (T * L)) (pool_order : list A -> nat -> nat -> list A) (cpu : nat) (args : list A),
  (forall l p c, (1 <= p)%nat -> (1 <= c)%nat -> Permutation (pool_order l p c) l) ->
  all_succeed A T L sim args ->
  exists log, pool_runner A T L sim pool_order cpu args = (log, Ok tt) /\ Permutation log args.
Proof. exact pool_runner_once. Qed.
Print Assumptions C19_runner_once_pool.

Theorem C19_runner_once_executor :
  forall (A T L : Type) (sim : A -> res (T * L)) (exec_order : list A -> option Z -> list A) (mw : option Z) (args : list A),
  (forall l w, Permutation (exec_order l w) l) ->
  match mw with Some w => (0 < w)%Z | None => True end ->
  all_succeed A T L sim args ->
  exists log, executor_runner A T L sim exec_order mw args = (log, Ok tt) /\ Permutation log args.
Proof. exact executor_runner_once. Qed.
Print Assumptions C19_runner_once_executor.

Theorem C19_runner_once_mock :
  forall (A T L : Type) (sim : A -> res (T * L)) (args : list A),
  all_succeed A T L sim args -> mock_runner A T L sim args = (args, Ok tt).
Proof. exact mock_runner_once. Qed.
Print Assumptions C19_runner_once_mock.

(* Non-vacuity: four two-entry files merged into two targets with split 2 (paths 0..3 sources, 10 and 11 targets). *)
Example C19_example :
  let f := [(0%N, [60; 120]%Z); (1%N, [180; 0]%Z); (2%N, [-60; 60]%Z); (3%N, [60; 60]%Z)] in
  NoDup [10; 11]%N /\
  post_process_split Z Z.add Z.div f [0; 1; 2; 3]%N [10; 11]%N 2 =
    (f ++ [(10%N, [120; 60]%Z); (11%N, [0; 60]%Z)], Ok tt) /\
  post_process_split Z Z.add Z.div ((11%N, [1; 1]%Z) :: f) [0; 1; 2; 3]%N [10; 11]%N 2 = ((11%N, [1; 1]%Z) :: f, Err AssertionError).
Proof.
  split; [|split].
  - repeat constructor; simpl; intuition discriminate.
  - vm_compute. reflexivity.
  - vm_compute. reflexivity.
Qed.
