(* C03 — with noise switched off the simulator reproduces the ideal circuit.
   Gate level and hand-off level: decided by reflection over the regenerated models (GenGates.v from gates.py,
   GenCircuit.v from circuit.py). Circuit level: a theorem over an arbitrary commutative ring (Proofs/FrameSim.v). *)
From Coq Require Import QArith List String Bool.
Require Import QG.Base.State QG.Sym.Expr QG.Sym.Norm QG.Sym.Mat QG.Model.Handoff.
Require Import QG.Proofs.GateRefl QG.Proofs.C07Refl QG.Proofs.C03Frames QG.Proofs.HandoffRefl QG.Proofs.FrameSim QG.Gen.GenGates QG.Gen.GenCircuit.
Import ListNotations.
Close Scope Q_scope.

(* 1. Gate level, for all phases: the noise-free matrices of gates.py are the textbook gates conjugated by the virtual-Z
      frames P(phi) = diag(1, e^{i phi}), up to a global phase of modulus one:
        CNOT(pc,pt)      = i           (P(pc - pi/2) x P(pt))^dag CX(control slot 0) (P(pc) x P(pt))
        CNOT_inv(pc,pt)  = e^{-3i pi/4} (P(pt + pi/2) x P(pc + 3pi/2))^dag CX(control slot 1) (P(pt) x P(pc))
        ECR(pc,pt)       =             (P(pc) x P(pt))^dag ECR(control slot 0) (P(pc) x P(pt))
        ECR_inv(a,b)     =             (P(a) x P(b))^dag ECR(control slot 1) (P(a) x P(b))
        X(-phi)  = -i P(phi)^dag X P(phi),   SX(-phi) = e^{-i pi/4} P(phi)^dag SX P(phi);   idle gates = identity. *)
Theorem C03_gate_frames :
  mexpr_eqb cf gen_nf_CNOT (MScale EI (MMul (MDag (PP (ESub phc (pi_over 2)) pht)) (MMul CX01 (PP phc pht)))) = true /\
  mexpr_eqb cf gen_nf_CNOT_inv (MScale (cis (ENeg (EMul (q 3 4) EPi))) (MMul (MDag (PP (EAdd pht (pi_over 2)) (EAdd phc (EMul (q 3 2) EPi)))) (MMul CX10 (PP pht phc)))) = true /\
  mexpr_eqb cf gen_nf_ECR (MMul (MDag (PP phc pht)) (MMul ECR01 (PP phc pht))) = true /\
  mexpr_eqb cf gen_nf_ECR_inv (MMul (MDag (PP phc pht)) (MMul ECR10 (PP phc pht))) = true /\
  mexpr_eqb cf (at_minus_phi gen_nf_X) (MScale mi (MMul (MDag (Pm phi)) (MMul Xm (Pm phi)))) = true /\
  mexpr_eqb cf (at_minus_phi gen_nf_SX) (MScale (cis (ENeg (pi_over 4))) (MMul (MDag (Pm phi)) (MMul SXm (Pm phi)))) = true /\
  (mexpr_eqb cf gen_nf_relaxation (id_mat 2) && mexpr_eqb cf gen_nf_bitflip (id_mat 2) && mexpr_eqb cf gen_nf_depolarizing (id_mat 2) = true).
Proof.
  split; [exact cnot_frame | split; [exact cnot_inv_frame | split; [exact ecr_frame | split; [exact ecr_inv_frame | split; [exact x_frame | split; [exact sx_frame | exact nf_idle_identity]]]]]].
Qed.
Print Assumptions C03_gate_frames.

(* the reflective comparison is sound: mexpr_eqb cf a b = true implies interpM rho a = interpM rho b for every valuation *)
Theorem C03_reflection_sound : forall a b, mexpr_eqb cf a b = true -> forall rho, interpM rho a = interpM rho b.
Proof. exact (mexpr_eq_sound cf). Qed.
Print Assumptions C03_reflection_sound.

(* 2. Hand-off level, for every circuit class, both two-qubit gates, both directions (16 traced variants) and X / SX:
      the noise-free matrix the method obtains from the gate set — at the arguments it really passes — equals
      (global phase) * (P(new phase of slot-0 qubit) x P(new phase of slot-1 qubit))^dag  K  (P(old) x P(old)),
      where the new phases are the values the method really WRITES to phi, slot 0 / 1 are the qubits the method places the
      matrix on, and K is the textbook CX / ECR with its control on the slot holding the instruction's control qubit. *)
Theorem C03_handoff_frames :
  forallb (fun h => negb (is_two h) || frame_two_ok h) gen_handoff = true /\ forallb frame_one_ok gen_handoff = true /\
  (expr_eqb cf (EMul EI (EConj EI)) z1 && expr_eqb cf (EMul (cis (ENeg (EMul (q 3 4) EPi))) (EConj (cis (ENeg (EMul (q 3 4) EPi))))) z1 &&
   expr_eqb cf (EMul mi (EConj mi)) z1 && expr_eqb cf (EMul (cis (ENeg (pi_over 4))) (EConj (cis (ENeg (pi_over 4))))) z1 = true).
Proof. split; [exact frames_two_qubit | split; [exact frames_one_qubit | exact frame_phases_unit]]. Qed.
Print Assumptions C03_handoff_frames.

(* NOTE: in FrameSim the inverse frame is not updated by OpZ, so wf_prog below excludes programs that apply a one-qubit gate
   after an rz on the same qubit; the end-to-end statements further down (C03_run_invariant, the C03_noise_free_born theorems) use
   NoiseFreeRun.nf_step, which does update it, and have no such restriction. *)
(* 3. Circuit level, for every commutative ring, every number of qubits, every program and every initial state:
      a simulator that (a) keeps a diagonal frame, (b) applies one- and two-qubit gates in the framed form of statement 2
      and updates the frame as written, (c) implements rz by multiplying the frame entry, maintains
          frame(b) * sim(b) = g * ideal(b)      for all basis states b,
      where ideal applies the textbook gates (rz = diag(a, a e)) and g is the product of the global phases. *)
Theorem C03_frame_simulation :
  forall (R : Type) (rO rI : R) (radd rmul rsub : R -> R -> R) (ropp : R -> R),
  ring_theory rO rI radd rmul rsub ropp eq ->
  forall n p s g ideal,
  wf_prog R rI radd rmul n s p -> Inv R rI rmul n g (s_f R s) (s_psi R s) ideal ->
  Inv R rI rmul n (fold_left (fun x o => rmul x (scalar_of R o)) p g)
      (s_f R (fold_left (sim_step R rI radd rmul) p s)) (s_psi R (fold_left (sim_step R rI radd rmul) p s))
      (fold_left (ideal_step R rO radd rmul) p ideal).
Proof. intros R rO rI radd rmul rsub ropp Rth. exact (frame_simulation R rO rI radd rmul rsub ropp Rth). Qed.
Print Assumptions C03_frame_simulation.

(* with all phases zero at the start the invariant holds with g = 1 *)
Theorem C03_initial_invariant :
  forall (R : Type) (rO rI : R) (radd rmul rsub : R -> R -> R) (ropp : R -> R),
  ring_theory rO rI radd rmul rsub ropp eq -> forall n psi, Inv R rI rmul n rI (f_one R rI) psi psi.
Proof. intros R rO rI radd rmul rsub ropp Rth. exact (Inv_init R rO rI radd rmul rsub ropp Rth). Qed.
Print Assumptions C03_initial_invariant.

(* 4. Born weights: frame entries and global phases of modulus one are invisible, so the simulated and the ideal
      outcome distributions coincide basis state by basis state (marginalisation and key order: C14). *)
Theorem C03_born_invisible :
  forall (R : Type) (rO rI : R) (radd rmul rsub : R -> R -> R) (ropp : R -> R),
  ring_theory rO rI radd rmul rsub ropp eq ->
  forall cj : R -> R, (forall x y, cj (rmul x y) = rmul (cj x) (cj y)) -> cj rI = rI ->
  forall n g f sim ideal, Inv R rI rmul n g f sim ideal -> nrm R rmul cj g = rI -> (forall q, nrm R rmul cj (f q) = rI) ->
  forall b : list bool, List.length b = n -> nrm R rmul cj (sim b) = nrm R rmul cj (ideal b).
Proof. intros R rO rI radd rmul rsub ropp Rth. exact (born_invisible R rO rI radd rmul rsub ropp Rth). Qed.
Print Assumptions C03_born_invisible.


(* ======================================================================================================================
   5. LIFTING to whole noise-free runs (Model/NoiseFreeRun.v, Proofs/NoiseFreeRun*.v).

   Split of the argument — which part is which:
   (R) by REFLECTION over the model regenerated from circuit.py + gates.py on every run: the choice table `choose2` /
       `choose1` / the symbolic textbook tables of Model/NoiseFreeRun.v are what the code does (C03_table_is_the_code):
       placement on [lower; higher], slot of the control, which phases are written and by how many quarter turns, the
       SPECIFIC global phase, and the matrix identity  traced matrix = gph (P(new) x P(new))^dag K (P(old) x P(old))  for
       all real phases (C03_table_sound: equality of complex matrices under every valuation).
   (G) RING-GENERIC theorems (any commutative ring, any n, any program, any initial state): `compile` is a function of
       that table; the item list `run_items` = framed matrices at the current frame on [lower; higher]; its semantics is
       the frame simulator's (C03_run_is_framed), satisfies the invariant against the textbook circuit on
       (control, target) (C03_run_invariant), and has the ideal Born weights (C03_noise_free_born_index); the builder
       model of BinaryCircuit appends exactly run_items and BinaryBackend returns its semantics (C03_builder_backend_run,
       with C02_bin_spec), the builder's symbolic phases are the frame (C03_builder_phases_track); for the layered
       classes the complete layers of a run mean the same item list (C03_run_layers_sem) and are well-formed input for
       the C01 backend theorems (C03_run_layers_wf), hence C03_noise_free_born_layered.
   (C) the instance at Coquelicot's complex numbers with the very constants of (R): C03_noise_free_born_C,
       C03_noise_free_born_layered_C (all hypotheses discharged).
   (S) the seam (R)/(G): C03_token_is_framed, C03_token_is_framed1 — the complex matrix expression of (R) is entry by
       entry the function-valued token `framed2 ...` / `framed1 ...` of (G) at R = C.
   NOT one theorem (correspondence / other properties): the simulator's loop from Qiskit instructions to method calls on internal indices (layout, delay,
   barrier, measure: C08 / C14 + call-sequence correspondence); the layered builder `lstep` producing `run_layers`
   (C11 model + correspondence); marginalisation and key order (C14). *)
Require Import QG.Model.NoiseFreeRun QG.Proofs.NoiseFreeRun QG.Proofs.NoiseFreeRunRefl QG.Proofs.NoiseFreeRunLayered QG.Proofs.NoiseFreeRunBuilder.
Require Import QG.Model.Backends QG.Proofs.BackendsSpec QG.Model.Builders QG.Model.Sparse QG.Proofs.OptimizerSem QG.Proofs.SparseApply QG.Base.Res.

(* (R) the table is the code: all 28 relevant traced records (16 two-qubit, X / SX / Rz of the four class variants); the
       index class contributes its 4 + 2 + 1 *)
Theorem C03_table_is_the_code :
  forallb record_ok gen_handoff = true /\
  List.length (filter (fun h => is_index h && relevant h) gen_handoff) = 7%nat /\
  List.length (filter relevant gen_handoff) = 28%nat.
Proof. exact table_is_the_code. Qed.
Print Assumptions C03_table_is_the_code.

Theorem C03_tables_are_textbook :
  mexpr_eqb cf (tab_mexpr CX01t) CX01 && mexpr_eqb cf (tab_mexpr CX10t) CX10 &&
  mexpr_eqb cf (tab_mexpr ECR01t) ECR01 && mexpr_eqb cf (tab_mexpr ECR10t) ECR10 &&
  mexpr_eqb cf (tab_mexpr Xt) Xm && mexpr_eqb cf (tab_mexpr SXt) SXm = true.
Proof. exact tables_are_textbook. Qed.
Print Assumptions C03_tables_are_textbook.

Theorem C03_table_sound : forall h, In h gen_handoff -> forall k, kind2_of (h_meth h) = Some k ->
  forall rho, interpM rho (traced_matrix h) = interpM rho (expected_two h k (choose2 k (h_lt h))).
Proof. exact table_is_the_code_sound. Qed.
Print Assumptions C03_table_sound.

(* (G) ring-generic.  K : consts R A names i, 1/sqrt2, e^{-i pi/4}, e^{-3i pi/4} and, per rz angle, e^{i theta} and
       e^{-i theta/2} with their inverses; consts_ok: i*i = -1 and the named inverses are inverses. *)
Theorem C03_run_is_framed :
  forall (R : Type) (rO rI : R) (radd rmul : R -> R -> R) (ropp : R -> R) (A : Type) (K : consts R A)
         (p : list (NoiseFreeRun.instr A)) (psi : state R),
  sem R radd rmul (run_items R rO rI radd rmul ropp A K p) psi
  = s_psi R (fold_left (nf_step R rO rI radd rmul ropp A K) p (s_one R rI psi)).
Proof. exact run_is_framed. Qed.
Print Assumptions C03_run_is_framed.

(* one step of the run is FrameSim's sim_step on the compiled operation (frame and state; the inverse frame too except
   for rz, where sim_step does not update it and nf_step does) *)
Theorem C03_nf_step_is_sim_step :
  forall (R : Type) (rO rI : R) (radd rmul : R -> R -> R) (ropp : R -> R) (A : Type) (K : consts R A)
         (s : FrameSim.sstate R) (x : NoiseFreeRun.instr A),
  let o := compile R rO rI radd rmul ropp A K (s_f R s) (s_fi R s) x in
  s_f R (nf_step R rO rI radd rmul ropp A K s x) = s_f R (sim_step R rI radd rmul s o) /\
  s_psi R (nf_step R rO rI radd rmul ropp A K s x) = s_psi R (sim_step R rI radd rmul s o) /\
  match x with NoiseFreeRun.NRz _ _ => True | _ => s_fi R (nf_step R rO rI radd rmul ropp A K s x) = s_fi R (sim_step R rI radd rmul s o) end.
Proof. exact nf_step_sim. Qed.
Print Assumptions C03_nf_step_is_sim_step.

(* along a run the inverse frame stays the inverse, so every compiled operation meets FrameSim's side conditions *)
Theorem C03_run_frames_ok :
  forall (R : Type) (rO rI : R) (radd rmul rsub : R -> R -> R) (ropp : R -> R),
  ring_theory rO rI radd rmul rsub ropp eq ->
  forall (A : Type) (K : consts R A), consts_ok R rI rmul ropp A K ->
  forall (n : nat) (p : list (NoiseFreeRun.instr A)) (psi0 : state R), Forall (wf_instr n) p ->
  let s := fold_left (nf_step R rO rI radd rmul ropp A K) p (s_one R rI psi0) in
  (forall j, rmul (s_f R s j) (s_fi R s j) = rI) /\
  (forall x, wf_instr n x -> wf_op R rI rmul n s (compile R rO rI radd rmul ropp A K (s_f R s) (s_fi R s) x)).
Proof.
  intros R rO rI radd rmul rsub ropp Rth A K OK n p psi0 W. split.
  - exact (run_frames_ok R rO rI radd rmul rsub ropp Rth A K OK n p psi0 W).
  - intros x Wx. exact (compiled_wf R rO rI radd rmul rsub ropp Rth A K OK n _ x Wx (run_frames_ok R rO rI radd rmul rsub ropp Rth A K OK n p psi0 W)).
Qed.
Print Assumptions C03_run_frames_ok.

(* frame(b) * simulated(b) = g * ideal(b): ideal = textbook gates, two-qubit gates on the ordered pair (control, target),
   rz = diag(a, a e); g = product of the unit constants *)
Theorem C03_run_invariant :
  forall (R : Type) (rO rI : R) (radd rmul rsub : R -> R -> R) (ropp : R -> R),
  ring_theory rO rI radd rmul rsub ropp eq ->
  forall (A : Type) (K : consts R A), consts_ok R rI rmul ropp A K ->
  forall (n : nat) (p : list (NoiseFreeRun.instr A)) (psi0 : state R), Forall (wf_instr n) p ->
  Inv R rI rmul n (gscalar R rI rmul ropp A K p)
      (s_f R (fold_left (nf_step R rO rI radd rmul ropp A K) p (s_one R rI psi0)))
      (sem R radd rmul (run_items R rO rI radd rmul ropp A K p) psi0)
      (sem R radd rmul (ideal_items R rO rI radd rmul ropp A K p) psi0).
Proof. exact run_invariant. Qed.
Print Assumptions C03_run_invariant.

(* Born weights, basis state by basis state; conj_ok: cj multiplicative, cj 1 = 1, cj (-x) = - cj x, and cj of each unit
   constant is its named inverse *)
Theorem C03_noise_free_born_index :
  forall (R : Type) (rO rI : R) (radd rmul rsub : R -> R -> R) (ropp : R -> R),
  ring_theory rO rI radd rmul rsub ropp eq ->
  forall (A : Type) (K : consts R A), consts_ok R rI rmul ropp A K ->
  forall cj : R -> R, conj_ok R rI rmul ropp A K cj ->
  forall (n : nat) (p : list (NoiseFreeRun.instr A)) (psi0 : state R), Forall (wf_instr n) p ->
  forall b : list bool, List.length b = n ->
  nrm R rmul cj (sem R radd rmul (run_items R rO rI radd rmul ropp A K p) psi0 b)
  = nrm R rmul cj (sem R radd rmul (ideal_items R rO rI radd rmul ropp A K p) psi0 b).
Proof. exact noise_free_born_index. Qed.
Print Assumptions C03_noise_free_born_index.

(* the builder model of BinaryCircuit (Model/Builders.v, C11), fed the framed matrices as the tokens of the method calls
   X / SX / CNOT / ECR / Rz on internal indices, never raises, holds exactly run_items p, and BinaryBackend.statevector
   (Model/Sparse.v, C02) returns its semantics *)
Theorem C03_builder_backend_run :
  forall (R : Type) (rO rI : R) (radd rmul rsub : R -> R -> R) (ropp : R -> R),
  ring_theory rO rI radd rmul rsub ropp eq ->
  forall (A : Type) (K : consts R A) (ph : A -> Z * Z) (n : nat) (layout : option (list Z))
         (p : list (NoiseFreeRun.instr A)) (psi : list bool -> R),
  Forall (wf_instr n) p ->
  (exists s', bexec (mat R) (mid2 R rO rI) (b_init (mat R) n layout) (ops R rO rI radd rmul ropp A K ph p) = Ok (s', nil) /\
     map (den R rO rI) (b_content (mat R) s') = run_items R rO rI radd rmul ropp A K p /\
     Forall (wf_in R n) (b_content (mat R) s')) /\
  (run_items R rO rI radd rmul ropp A K p <> nil ->
   exists s' out, bexec (mat R) (mid2 R rO rI) (b_init (mat R) n layout) (ops R rO rI radd rmul ropp A K ph p) = Ok (s', nil) /\
     bin_statevector R rO radd rmul (mat R) (mmul R radd rmul) (mkron R rmul) (mid2 R rO rI) (mid4 R rO rI) (entry_mat R rO)
       n (b_content (mat R) s') psi = Ok out /\
     state_eq R n out (sem R radd rmul (run_items R rO rI radd rmul ropp A K p) psi)).
Proof.
  intros R rO rI radd rmul rsub ropp Rth A K ph n layout p psi W. split.
  - exact (builder_appends_run_items R rO rI radd rmul ropp A K ph n layout p W).
  - exact (builder_backend_run R rO rI radd rmul rsub ropp Rth A K ph n layout p psi W).
Qed.
Print Assumptions C03_builder_backend_run.

(* the builder's symbolic virtual phases ARE the frame: for every multiplicative reading E of the symbolic phases that
   sends quarter turns to powers of i and the recorded rz angle to the rz factor *)
Theorem C03_builder_phases_track :
  forall (R : Type) (rO rI : R) (radd rmul rsub : R -> R -> R) (ropp : R -> R),
  ring_theory rO rI radd rmul rsub ropp eq ->
  forall (A : Type) (K : consts R A) (ph : A -> Z * Z) (E : Z * Z -> R),
  (forall a b, E (padd a b) = rmul (E a) (E b)) -> E (quarter (-1)) = ropp (k_i K) -> E (quarter 1) = k_i K ->
  E (quarter 2) = ropp rI -> (forall th, E (ph th) = k_e K th) -> E p0 = rI ->
  forall (n : nat) (layout : option (list Z)) (p : list (NoiseFreeRun.instr A)) s',
  Forall (wf_instr n) p ->
  bexec (mat R) (mid2 R rO rI) (b_init (mat R) n layout) (ops R rO rI radd rmul ropp A K ph p) = Ok (s', nil) ->
  forall j, (j < n)%nat ->
  fst (fold_left (fstep R rO rI radd rmul ropp A K) p (ff_one R rI)) j = E (nth j (b_phi (mat R) s') p0).
Proof.
  intros R rO rI radd rmul rsub ropp Rth A K ph E h1 h2 h3 h4 h5 h6 n layout p s' W Ex.
  exact (builder_phases_track R rO rI radd rmul rsub ropp Rth A K ph E h1 h2 h3 h4 h5 h6 n layout p s' W Ex).
Qed.
Print Assumptions C03_builder_phases_track.

(* layered classes (adjacent pairs): the complete layers of a run mean the item list of the index class ... *)
Theorem C03_run_layers_sem :
  forall (R : Type) (rO rI : R) (radd rmul rsub : R -> R -> R) (ropp : R -> R),
  ring_theory rO rI radd rmul rsub ropp eq ->
  forall (A : Type) (K : consts R A) (n : nat) (p : list (NoiseFreeRun.instr A)) (psi : bits -> R),
  Forall (wf_instr n) p -> Forall adjacent_instr p ->
  forall b : bits, layers_sem R radd rmul (run_layers R rO rI radd rmul ropp A K n p) psi b
                   = sem R radd rmul (run_items R rO rI radd rmul ropp A K p) psi b.
Proof. exact run_layers_sem. Qed.
Print Assumptions C03_run_layers_sem.

(* ... are well-formed layers over n qubits (the hypothesis of C01_std_spec / C01_eff_spec_partial / C01_ones_spec) ... *)
Theorem C03_run_layers_wf :
  forall (R : Type) (rO rI : R) (radd rmul : R -> R -> R) (ropp : R -> R) (A : Type) (K : consts R A)
         (n : nat) (p : list (NoiseFreeRun.instr A)),
  Forall (wf_instr n) p -> Forall adjacent_instr p ->
  Forall (wf_layer R n) (run_layers R rO rI radd rmul ropp A K n p).
Proof. exact run_layers_wf. Qed.
Print Assumptions C03_run_layers_wf.

(* ... and have the ideal Born weights *)
Theorem C03_noise_free_born_layered :
  forall (R : Type) (rO rI : R) (radd rmul rsub : R -> R -> R) (ropp : R -> R),
  ring_theory rO rI radd rmul rsub ropp eq ->
  forall (A : Type) (K : consts R A) (cj : R -> R), consts_ok R rI rmul ropp A K -> conj_ok R rI rmul ropp A K cj ->
  forall (n : nat) (p : list (NoiseFreeRun.instr A)) (psi0 : bits -> R),
  Forall (wf_instr n) p -> Forall adjacent_instr p ->
  forall b : list bool, List.length b = n ->
  nrm R rmul cj (layers_sem R radd rmul (run_layers R rO rI radd rmul ropp A K n p) psi0 b)
  = nrm R rmul cj (sem R radd rmul (ideal_items R rO rI radd rmul ropp A K p) psi0 b).
Proof. exact noise_free_born_layered. Qed.
Print Assumptions C03_noise_free_born_layered.

(* (C) the instance at the complex numbers: KC = (i, 1/sqrt 2, e^{-i pi/4}, e^{-3i pi/4}, theta |-> e^{i theta}, e^{-i theta/2})
       satisfies consts_ok, Cconj satisfies conj_ok; Born weights as squared moduli *)
Require Import QG.Proofs.NoiseFreeRunC.
From Coq Require Import Reals.
From Coquelicot Require Import Complex.
Local Close Scope R_scope.

Theorem C03_complex_instance :
  consts_ok C (RtoC 1) Cmult Copp Rdefinitions.R KC /\ conj_ok C (RtoC 1) Cmult Copp Rdefinitions.R KC Cconj /\
  k_i KC = Ci /\ k_h KC = RtoC (/ sqrt 2)%R /\ k_w1 KC = cisR (- (PI / 4))%R /\ k_w3 KC = cisR (- (3 * PI / 4))%R /\
  (forall th, k_e KC th = cisR th /\ k_a KC th = cisR (- (th / 2))%R).
Proof. split; [exact KC_ok | split; [exact KC_conj | repeat split]]. Qed.
Print Assumptions C03_complex_instance.

Theorem C03_noise_free_born_C :
  forall (n : nat) (p : list (NoiseFreeRun.instr Rdefinitions.R)) (psi0 : state C), Forall (wf_instr n) p ->
  forall b : list bool, List.length b = n ->
  (Cmod (sem C Cplus Cmult (run_items C (RtoC 0) (RtoC 1) Cplus Cmult Copp Rdefinitions.R KC p) psi0 b) ^ 2
   = Cmod (sem C Cplus Cmult (ideal_items C (RtoC 0) (RtoC 1) Cplus Cmult Copp Rdefinitions.R KC p) psi0 b) ^ 2)%R.
Proof. exact noise_free_born_C. Qed.
Print Assumptions C03_noise_free_born_C.

Theorem C03_noise_free_born_layered_C :
  forall (n : nat) (p : list (NoiseFreeRun.instr Rdefinitions.R)) (psi0 : state C),
  Forall (wf_instr n) p -> Forall adjacent_instr p ->
  forall b : list bool, List.length b = n ->
  (Cmod (layers_sem C Cplus Cmult (run_layers C (RtoC 0) (RtoC 1) Cplus Cmult Copp Rdefinitions.R KC n p) psi0 b) ^ 2
   = Cmod (sem C Cplus Cmult (ideal_items C (RtoC 0) (RtoC 1) Cplus Cmult Copp Rdefinitions.R KC p) psi0 b) ^ 2)%R.
Proof. exact noise_free_born_layered_C. Qed.
Print Assumptions C03_noise_free_born_layered_C.

(* ---- the seam between (R) and (G), proved (Proofs/NoiseFreeRunToken.v): the object the gate set returns — identified by
        (R) as a complex matrix expression — is, entry by entry, the function-valued framed matrix that (G) uses as the
        token of the method call: FrameSim.framed2 f q1 q2 gam K ui1 ui2 r c = gam * pb2 ui1 ui2 r * K r c * pb2 (f q1) (f q2) c
        with slot frames f = exp(i old phase), inverse new frames ui = conjugates of exp(i new phase), K = gate2 of the same
        table, gam = the table's global phase; likewise framed1 for X / SX ---- *)
Require Import QG.Proofs.NoiseFreeRunToken.
Theorem C03_token_is_framed :
  forall h, In h gen_handoff -> forall k, kind2_of (h_meth h) = Some k -> forall rho a b, h_place h = [a; b] ->
  let ch := choose2 k (h_lt h) in
  let fo := fun s => interpC rho (cis (phi_old s)) in
  let fn := fun s => interpC rho (cis (phi_new h s)) in
  forall r c : bool * bool,
  nth (idx2 c) (nth (idx2 r) (interpM rho (traced_matrix h)) nil) (RtoC 0)
  = Cmult (Cmult (Cmult (gph_val C (RtoC 1) Copp Rdefinitions.R KC (c_gph ch)) (pb2 C (RtoC 1) Cmult (Cconj (fn a)) (Cconj (fn b)) r))
                 (gate2 C (RtoC 0) (RtoC 1) Cplus Cmult Copp Rdefinitions.R KC k (c_ctl_slot ch) r c))
          (pb2 C (RtoC 1) Cmult (fo a) (fo b) c).
Proof. exact token_is_framed. Qed.
Print Assumptions C03_token_is_framed.

Theorem C03_token_is_framed1 :
  forall h, In h gen_handoff -> forall k, kind1_of (h_meth h) = Some k -> forall rho,
  let f := interpC rho (cis (phi_old 0)) in
  forall r c : bool,
  nth (b2n c) (nth (b2n r) (interpM rho (traced_one h k)) nil) (RtoC 0)
  = Cmult (Cmult (Cmult (gph_val C (RtoC 1) Copp Rdefinitions.R KC (choose1 k)) (if r then Cconj f else RtoC 1))
                 (gate1 C (RtoC 0) (RtoC 1) Cplus Cmult Copp Rdefinitions.R KC k r c))
          (if c then f else RtoC 1).
Proof. exact token_is_framed1. Qed.
Print Assumptions C03_token_is_framed1.

(* ---- what is NOT proved, stated in full ---- *)
(* the layered builder state machine (Model/Builders.v: lstep, tied to circuit.py by C11's correspondence), fed the
        calls the simulator issues per instruction (layered_ops: the gate on its qubit, I(k) on the others, nothing for
        the target), stores exactly run_layers and is back at _s = 0 *)
Definition C03_layered_builder_full : Prop :=
  forall (R : Type) (rO rI : R) (radd rmul : R -> R -> R) (ropp : R -> R) (A : Type) (K : consts R A) (ph : A -> Z * Z)
         (n : nat) (bk : backend_kind) (p : list (NoiseFreeRun.instr A)),
  Forall (wf_instr n) p -> Forall adjacent_instr p ->
  exists s', lexec (mat R) (mid2 R rO rI) (l_init (mat R) n bk) (layered_ops R rO rI radd rmul ropp A K ph n p) = Ok (s', nil) /\
    map (map (ent_den R)) (l_content (mat R) s') = run_layers R rO rI radd rmul ropp A K n p /\ l_s (mat R) s' = 0%nat.

(* non-vacuity: the reflection statements range over 16 two-qubit records; a 3-qubit program with a distant reversed
   CNOT is well-formed for the index class, and C03_complex_instance discharges the hypotheses of the generic theorems *)
Example C03_example : List.length (filter is_two gen_handoff) = 16%nat /\
  Forall (@wf_instr Rdefinitions.R 3) [NoiseFreeRun.NRz 0 (1%R); NSX 0; NCX 2 0; NoiseFreeRun.NECR 1 2; NoiseFreeRun.NX 1].
Proof. split; [vm_compute; reflexivity | repeat constructor; auto]. Qed.

(* ================================================================== 6. THE INSTRUCTION LOOP AND THE COMPOSED END-TO-END THEOREM (index class)
   Model/SimLoop.v is the executable model of _preprocess_circuit and of the BinaryCircuit branch of _apply_gates_on_circuit
   (simulator.py:198-243, 388-430), tied to the code by the exact correspondence run of checks/c03.py (family simloop_translate:
   the recorded method calls of the real simulator = translate_calls evaluated by vm_compute).  Vocabulary:
     qinstr = SimRun.instr (name, qubit labels, clbit labels);  theta j / dur j = angle / duration of circ.data[j];
     translate_calls used nq data : res (list call)   the method calls of one shot on internal indices (Rz, X, SX, CNOT, ECR,
         relaxation, bitflip), Python exceptions as Err;  nf_prog drops the relaxation and bitflip calls;  translate = rmap nf_prog;
     call_items cs  the item list the circuit object holds after the calls under the noise-free gate set (identity matrices for
         relaxation / bitflip, framed matrices at the current frame otherwise);
     nf_perform born theta dur data psi0 : front_out -> res (list R)   the shot: calls, statevector of call_items, Born rule;
     wf_qiskit x   what Qiskit guarantees of an instruction: measure = one qubit + one clbit, cx / ecr = two DISTINCT qubits,
         rz / sx / x / delay = one qubit, barrier / other = at least one;
     call_on used c   every internal index of c is list.index of the call's own physical label in `used`, control <> target,
         the k-th read-out call carries used[k];
     meas_ranks f   for the k-th measured label its rank among the used labels;  marginal_sum g n pos t = sum of g b over the
         n-bit lists b (ascending) with  [b[pos_0]; b[pos_1]; ...] = t. *)
Require Import QG.Base.Res QG.Model.FixCounts QG.Model.SimRun QG.Model.SimLoop.
Require Import QG.Proofs.FixCountsProofs QG.Proofs.SimRunKeys QG.Proofs.SimRunProofs QG.Proofs.SimLoop QG.Proofs.SimLoopE2E QG.Proofs.SimLoopC.

(* the calls nf_prog drops are exactly those that append an identity matrix: the stored item list (identities included) and
   run_items of the noise-free program denote the same state, amplitude by amplitude *)
Theorem C03_dropped_calls_are_identity :
  forall (T : Type) (rO rI : T) (radd rmul rsub : T -> T -> T) (ropp : T -> T),
  ring_theory rO rI radd rmul rsub ropp eq ->
  forall (A D : Type) (K : consts T A) (cs : list (call A D)) (psi : state T) (b : bits),
  sem T radd rmul (call_items T rO rI radd rmul ropp A D K cs) psi b
  = sem T radd rmul (run_items T rO rI radd rmul ropp A K (nf_prog A D cs)) psi b.
Proof. exact call_items_sem. Qed.
Print Assumptions C03_dropped_calls_are_identity.

(* on data accepted by _process_layout the loop raises nothing, for every nqubit up to the number n of used qubits; internal
   indices are the positions of the calls' own labels in the layout; the noise-free program is well-formed over n qubits
   (indices < n, control <> target) *)
Theorem C03_translate_wf :
  forall (A D : Type) (theta : nat -> A) (dur : nat -> D)
         (data : list SimRun.instr) (used : list BinNums.N) (meas : list (BinNums.N * BinNums.N)) (n : nat) (nq : BinNums.Z),
  Forall wf_qiskit data -> SimRun.process_layout data = Ok (used, meas, n) -> (nq <= BinInt.Z.of_nat n)%Z ->
  exists cs, translate_calls A D theta dur used nq data = Ok cs /\ Forall (call_on A D used) cs /\
    translate A D theta dur used nq data = Ok (nf_prog A D cs) /\
    Forall (NoiseFreeRun.wf_instr n) (nf_prog A D cs).
Proof. exact translate_wf. Qed.
Print Assumptions C03_translate_wf.

(* END TO END, for every commutative ring T with the named constants and a conjugation, every Born reading `born` of an
   amplitude as a non-negative real that depends on x * cj x only, every circuit: if run() accepts the arguments (front a = Ok f),
   the data is as Qiskit builds it, every qubit is measured at most once and nqubit is the number of used qubits, then the loop
   succeeds with a well-formed program prog and -- when the ideal weights do not all vanish (C14's hypothesis 0 < sum) -- run()
   around the noise-free shot returns a dictionary whose value under every key t of |measured| characters is
       sum over the basis states b with b[rank of k-th measured qubit] = t[k] for all k  of  ideal(b) / (sum of all ideal),
   ideal(b) = born of the amplitude of the IDEAL circuit (textbook gates on (control, target), rz = diag(a, a e)) on psi0. *)
Theorem C03_end_to_end :
  forall (T : Type) (rO rI : T) (radd rmul rsub : T -> T -> T) (ropp : T -> T),
  ring_theory rO rI radd rmul rsub ropp eq ->
  forall (A : Type) (K : consts T A), consts_ok T rI rmul ropp A K ->
  forall cj : T -> T, conj_ok T rI rmul ropp A K cj ->
  forall born : T -> Rdefinitions.R,
  (forall x y, nrm T rmul cj x = nrm T rmul cj y -> born x = born y) -> (forall x, (0 <= born x)%R) ->
  forall (D : Type) (theta : nat -> A) (dur : nat -> D)
         (a : args) (f : front_out) (data : list SimRun.instr) (psi0 : state T),
  front a = Ok f -> a_circ a = CData true data -> Forall wf_qiskit data ->
  NoDup (map fst (f_meas f)) -> f_nqubit f = BinInt.Z.of_nat (f_n f) ->
  exists prog, translate A D theta dur (f_used f) (f_nqubit f) data = Ok prog /\
    Forall (NoiseFreeRun.wf_instr (f_n f)) prog /\
    let ideal := fun b => born (sem T radd rmul (ideal_items T rO rI radd rmul ropp A K prog) psi0 b) in
    let total := rsum (map ideal (binary_vector (f_n f))) in
    ((0 < total)%R ->
     exists out, run_model Rdefinitions.R 0%R Rplus Rdiv rpos a
                   (nf_perform T rO rI radd rmul ropp A D K Rdefinitions.R born theta dur data psi0) = Ok out /\
       forall t, List.length t = List.length (f_meas f) ->
         lookup Rdefinitions.R t out = Some (marginal_sum (fun b => (ideal b / total)%R) (f_n f) (meas_ranks f) t)).
Proof. exact end_to_end. Qed.
Print Assumptions C03_end_to_end.

(* the same at the complex numbers: constants KC, Born rule |amplitude|^2, every hypothesis on the scalars discharged *)
Theorem C03_end_to_end_C :
  forall (D : Type) (theta : nat -> Rdefinitions.R) (dur : nat -> D)
         (a : args) (f : front_out) (data : list SimRun.instr) (psi0 : state C),
  front a = Ok f -> a_circ a = CData true data -> Forall wf_qiskit data ->
  NoDup (map fst (f_meas f)) -> f_nqubit f = BinInt.Z.of_nat (f_n f) ->
  exists prog, translate Rdefinitions.R D theta dur (f_used f) (f_nqubit f) data = Ok prog /\
    Forall (NoiseFreeRun.wf_instr (f_n f)) prog /\
    let ideal := fun b => (Cmod (sem C Cplus Cmult (ideal_items C (RtoC 0) (RtoC 1) Cplus Cmult Copp Rdefinitions.R KC prog) psi0 b) ^ 2)%R in
    let total := rsum (map ideal (binary_vector (f_n f))) in
    ((0 < total)%R ->
     exists out, run_model Rdefinitions.R 0%R Rplus Rdiv rpos a
                   (nf_perform C (RtoC 0) (RtoC 1) Cplus Cmult Copp Rdefinitions.R D KC Rdefinitions.R bornC theta dur data psi0) = Ok out /\
       forall t, List.length t = List.length (f_meas f) ->
         lookup Rdefinitions.R t out = Some (marginal_sum (fun b => (ideal b / total)%R) (f_n f) (meas_ranks f) t)).
Proof. exact end_to_end_C. Qed.
Print Assumptions C03_end_to_end_C.

(* reading of the statement's vocabulary *)
Theorem C03_end_to_end_vocabulary :
  (forall z : C, bornC z = (Cmod z ^ 2)%R) /\
  (forall f, meas_ranks f = map (RelabelRank.rank (map BinNat.N.to_nat (f_used f))) (map (fun qc => BinNat.N.to_nat (fst qc)) (f_meas f))) /\
  (forall g n pos t, marginal_sum g n pos t = rsum (map g (filter (fun b => key_eqb (sel b pos) t) (binary_vector n)))) /\
  (forall s pos, sel s pos = map (fun i => nth i s false) pos).
Proof. repeat split. Qed.
Print Assumptions C03_end_to_end_vocabulary.

(* the calls of the loop, relaxation and bitflip included, fed to the builder model of BinaryCircuit (C11's bstep; the token of an
   idle call is the exact identity): no exception, the content handed to the backend denotes call_items, and BinaryBackend.statevector's
   model (C02_bin_spec) returns its semantics -- so `sem (call_items cs) psi0` in nf_perform IS what builder + backend compute.
   call_wf n: indices < n, control <> target; it follows from call_on (C03_translate_wf) with n = number of used qubits. *)
Require Import QG.Proofs.SimLoopBuilder.
Theorem C03_calls_builder_backend :
  forall (T : Type) (rO rI : T) (radd rmul rsub : T -> T -> T) (ropp : T -> T),
  ring_theory rO rI radd rmul rsub ropp eq ->
  forall (A D : Type) (K : consts T A) (ph : A -> Z * Z) (n : nat) (layout : option (list Z))
         (cs : list (call A D)) (psi : list bool -> T),
  Forall (call_wf A D n) cs ->
  exists s', bexec (mat T) (mid2 T rO rI) (b_init (mat T) n layout) (call_ops T rO rI radd rmul ropp A D K ph cs) = Ok (s', nil) /\
    map (den T rO rI) (b_content (mat T) s') = call_items T rO rI radd rmul ropp A D K cs /\
    Forall (wf_in T n) (b_content (mat T) s') /\
    (call_items T rO rI radd rmul ropp A D K cs <> nil ->
     exists out, bin_statevector T rO radd rmul (mat T) (mmul T radd rmul) (mkron T rmul) (mid2 T rO rI) (mid4 T rO rI) (entry_mat T rO)
                   n (b_content (mat T) s') psi = Ok out /\
       state_eq T n out (sem T radd rmul (call_items T rO rI radd rmul ropp A D K cs) psi)).
Proof. exact calls_builder_backend. Qed.
Print Assumptions C03_calls_builder_backend.
Theorem C03_call_on_is_wf :
  forall (A D : Type) (used : list BinNums.N) (c : call A D), call_on A D used c -> call_wf A D (List.length used) c.
Proof. exact call_on_call_wf. Qed.
Print Assumptions C03_call_on_is_wf.

(* non-vacuity: rz(5); delay(7) [label 7 otherwise unused: dropped]; cx(5,2) [control has the higher internal index]; barrier(2,5,3);
   delay(2); measure 5 -> c0; ecr(2,5); measure 2 -> c1 on labels {2,5}: accepted by run(), well-formed, the calls and the
   noise-free program computed by the model, measured ranks [1; 0] *)
Example C03_end_to_end_example :
  let data := [mkinstr OpRz [5%N] []; mkinstr OpDelay [7%N] []; mkinstr OpCx [5%N; 2%N] []; mkinstr OpBarrier [2%N; 5%N; 3%N] [];
               mkinstr OpDelay [2%N] []; mkinstr OpMeasure [5%N] [0%N]; mkinstr OpEcr [2%N; 5%N] []; mkinstr OpMeasure [2%N] [1%N]] in
  let a := mkargs (CData true data) true (PsiShape [4%Z]) (Some 3%Z) (Some (T1Len 8%Z)) (Some 2%Z) in
  let f := mkfront [2%N; 5%N] [(5%N, 0%N); (2%N, 1%N)] 2 2%Z 3%Z in
  front a = Ok f /\ Forall wf_qiskit data /\ NoDup (map fst (f_meas f)) /\ f_nqubit f = BinInt.Z.of_nat (f_n f) /\
  translate_calls nat nat (fun j => j) (fun j => j) (f_used f) (f_nqubit f) data
    = Ok [CRz 1 0; C2 KCX 1 0 5%N 2%N; CRelax 0 4 2%N; C2 KECR 0 1 2%N 5%N; CBitflip 0 2%N; CBitflip 1 5%N] /\
  translate nat nat (fun j => j) (fun j => j) (f_used f) (f_nqubit f) data = Ok [NoiseFreeRun.NRz 1 0; NCX 1 0; NoiseFreeRun.NECR 0 1] /\
  meas_ranks f = [1; 0]%nat.
Proof.
  cbv zeta. split; [vm_compute; reflexivity|]. split.
  { repeat (apply Forall_cons; [unfold wf_qiskit; cbn; eauto; try (do 2 eexists; split; [reflexivity|discriminate]); try discriminate|]). apply Forall_nil. }
  split. { cbn. repeat constructor; cbn; intuition discriminate. }
  repeat split; vm_compute; reflexivity.
Qed.

(* ================================================================== 7. NORM PRESERVATION AND SHOTS: the end-to-end theorem without `0 < total`, without the division, for any number of shots
   Proofs/NormPres.v, NormPresE2E.v, SimLoopShots.v.  Vocabulary (C03_norm_vocabulary below):
     nrm2 n psi = sum over ALL bit lists b of length n of |psi b|^2 (Base/Mat.v: bsum);
     unitary2 U / unitary4 G: entrywise sum_k conj(U k i) * U k j = delta i j;  unitary_item: the item's matrix is unitary;
     seq_perform / par_perform: _perform_simulation (C09's model Model/Shots.v: perform_seq / perform_par) around a shot that
       returns the same vector v whatever random samples it reads -- `mk v` is ANY reader program with that property (Ret v
       reads nothing): r_sum = zeros(2**nqubit); shots times r_sum += shot; r_sum / shots. *)
From Coq Require Import Permutation.
Require Import QG.Base.Mat QG.Model.Shots QG.Proofs.NormPres QG.Proofs.NormPresE2E QG.Proofs.SimLoopShots.

Theorem C03_norm_vocabulary :
  (forall n (psi : state C), nrm2 n psi = bsum Rdefinitions.R Rplus n (fun b => (Cmod (psi b) ^ 2)%R)) /\
  (forall U : m2 C, unitary2 U <->
     forall i j, Cplus (Cmult (Cconj (U false i)) (U false j)) (Cmult (Cconj (U true i)) (U true j)) = if Bool.eqb i j then RtoC 1 else RtoC 0) /\
  (forall G : m4 C, unitary4 G <->
     forall i j, Cplus (Cplus (Cplus (Cmult (Cconj (G (false, false) i)) (G (false, false) j)) (Cmult (Cconj (G (false, true) i)) (G (false, true) j)))
                              (Cmult (Cconj (G (true, false) i)) (G (true, false) j))) (Cmult (Cconj (G (true, true) i)) (G (true, true) j))
                 = if Bool.eqb (fst i) (fst j) && Bool.eqb (snd i) (snd j) then RtoC 1 else RtoC 0) /\
  (forall (A : m2 C) q, unitary_item (It1 A q) = unitary2 A) /\ (forall (G : m4 C) q1 q2, unitary_item (It2 G q1 q2) = unitary4 G) /\
  (forall n (g : list bool -> Rdefinitions.R), (0 < n)%nat -> rsum (map g (binary_vector n)) = bsum Rdefinitions.R Rplus n g).
Proof. repeat split; try (intros H; exact H). exact rsum_bv. Qed.
Print Assumptions C03_norm_vocabulary.

(* every list of unitary matrices on qubits < n (two-qubit ones on distinct qubits) preserves the squared norm of every state *)
Theorem C03_unitary_items_preserve_norm :
  forall (n : nat) (items : list (item C)), Forall (wf_item C n) items -> Forall unitary_item items ->
  forall psi : state C, nrm2 n (sem C Cplus Cmult items psi) = nrm2 n psi.
Proof. exact sem_norm. Qed.
Print Assumptions C03_unitary_items_preserve_norm.

(* the textbook matrices of the ideal circuit (X, SX, CX, ECR on (control, target), rz = diag(e^{-i th/2}, e^{i th/2})) at the
   constants of C03_complex_instance are unitary *)
Theorem C03_ideal_gates_unitary :
  forall x : NoiseFreeRun.instr Rdefinitions.R, unitary_item (ideal_item C (RtoC 0) (RtoC 1) Cplus Cmult Copp Rdefinitions.R KC x).
Proof. exact ideal_item_unitary. Qed.
Print Assumptions C03_ideal_gates_unitary.

(* NORM PRESERVATION of the ideal run, in the vocabulary of C03_end_to_end_C: every n, every well-formed program, every state *)
Theorem C03_ideal_norm_preserved :
  forall (n : nat) (p : list (NoiseFreeRun.instr Rdefinitions.R)) (psi0 : state C), Forall (NoiseFreeRun.wf_instr n) p ->
  rsum (map (fun b => (Cmod (sem C Cplus Cmult (ideal_items C (RtoC 0) (RtoC 1) Cplus Cmult Copp Rdefinitions.R KC p) psi0 b) ^ 2)%R) (binary_vector n))
  = rsum (map (fun b => (Cmod (psi0 b) ^ 2)%R) (binary_vector n)).
Proof. exact ideal_norm_rsum. Qed.
Print Assumptions C03_ideal_norm_preserved.

(* END TO END for a normalised initial state: the ideal Born weights sum to 1 (no hypothesis 0 < total), and the value under
   every key t is exactly the sum of the ideal circuit's Born probabilities over the basis states whose bits at the measured
   qubits' ranks spell t -- no division *)
Theorem C03_end_to_end_C_normalised :
  forall (D : Type) (theta : nat -> Rdefinitions.R) (dur : nat -> D)
         (a : args) (f : front_out) (data : list SimRun.instr) (psi0 : state C),
  front a = Ok f -> a_circ a = CData true data -> Forall wf_qiskit data ->
  NoDup (map fst (f_meas f)) -> f_nqubit f = BinInt.Z.of_nat (f_n f) ->
  rsum (map (fun b => (Cmod (psi0 b) ^ 2)%R) (binary_vector (f_n f))) = 1%R ->
  exists prog, translate Rdefinitions.R D theta dur (f_used f) (f_nqubit f) data = Ok prog /\
    Forall (NoiseFreeRun.wf_instr (f_n f)) prog /\
    let ideal := fun b => (Cmod (sem C Cplus Cmult (ideal_items C (RtoC 0) (RtoC 1) Cplus Cmult Copp Rdefinitions.R KC prog) psi0 b) ^ 2)%R in
    rsum (map ideal (binary_vector (f_n f))) = 1%R /\
    exists out, run_model Rdefinitions.R 0%R Rplus Rdiv rpos a
                  (nf_perform C (RtoC 0) (RtoC 1) Cplus Cmult Copp Rdefinitions.R D KC Rdefinitions.R bornC theta dur data psi0) = Ok out /\
      forall t, List.length t = List.length (f_meas f) ->
        lookup Rdefinitions.R t out = Some (marginal_sum ideal (f_n f) (meas_ranks f) t).
Proof. exact end_to_end_C_normalised. Qed.
Print Assumptions C03_end_to_end_C_normalised.

(* SHOTS: with the shot loop of _perform_simulation (sequential mode, any generator state g) around the noise-free shot, run()
   returns what it returns with the single shot -- success or exception alike; any scalar ring T, any Born reading *)
Theorem C03_shots_irrelevant :
  forall (T : Type) (rO rI : T) (radd rmul : T -> T -> T) (ropp : T -> T) (A D : Type) (K : consts T A)
         (born : T -> Rdefinitions.R) (theta : nat -> A) (dur : nat -> D) (data : list SimRun.instr) (psi0 : state T)
         (sample : Type) (init : list sample -> BinNums.N -> sample) (mk : list Rdefinitions.R -> Shots.prog sample (list Rdefinitions.R)),
  (forall v s p, fst (run_prog sample (mk v) s p) = v) ->
  forall (a : args) (g : gen sample),
  run_model Rdefinitions.R 0%R Rplus Rdiv rpos a
    (seq_perform sample init mk g (nf_perform T rO rI radd rmul ropp A D K Rdefinitions.R born theta dur data psi0))
  = run_model Rdefinitions.R 0%R Rplus Rdiv rpos a (nf_perform T rO rI radd rmul ropp A D K Rdefinitions.R born theta dur data psi0).
Proof. exact shots_irrelevant. Qed.
Print Assumptions C03_shots_irrelevant.

(* the same for the pool: any cpu count, worker assignment and worker generators; execution and delivery order permutations of
   the chunk indices (C09_pool_independent's hypotheses) *)
Theorem C03_shots_irrelevant_parallel :
  forall (T : Type) (rO rI : T) (radd rmul : T -> T -> T) (ropp : T -> T) (A D : Type) (K : consts T A)
         (born : T -> Rdefinitions.R) (theta : nat -> A) (dur : nat -> D) (data : list SimRun.instr) (psi0 : state T)
         (sample : Type) (init : list sample -> BinNums.N -> sample) (mk : list Rdefinitions.R -> Shots.prog sample (list Rdefinitions.R)),
  (forall v s p, fst (run_prog sample (mk v) s p) = v) ->
  forall (a : args) (cpu : BinNums.Z) (g : gen sample) (sc : sched) (ws : nat -> gen sample),
  (forall f, front a = Ok f ->
     let nch := List.length (chunks (BinInt.Z.to_nat (chunksize (f_shots f) (n_processes cpu))) (seq 0 (BinInt.Z.to_nat (f_shots f)))) in
     Permutation (sc_exec sc) (seq 0 nch) /\ Permutation (sc_deliver sc) (seq 0 nch)) ->
  run_model Rdefinitions.R 0%R Rplus Rdiv rpos a
    (par_perform sample init mk cpu g sc ws (nf_perform T rO rI radd rmul ropp A D K Rdefinitions.R born theta dur data psi0))
  = run_model Rdefinitions.R 0%R Rplus Rdiv rpos a (nf_perform T rO rI radd rmul ropp A D K Rdefinitions.R born theta dur data psi0).
Proof. exact shots_irrelevant_parallel. Qed.
Print Assumptions C03_shots_irrelevant_parallel.

(* reading of seq_perform / par_perform *)
Theorem C03_shots_vocabulary :
  forall (sample : Type) (init : list sample -> BinNums.N -> sample) (mk : list Rdefinitions.R -> Shots.prog sample (list Rdefinitions.R))
         (one : front_out -> res (list Rdefinitions.R)) (f : front_out),
  (forall g, seq_perform sample init mk g one f =
     rbind (one f) (fun v => rbind (perform_seq Rdefinitions.R 0%R Rplus Rdiv IZR sample init (mk v) (f_shots f)
                                       (BinInt.Z.to_N (BinInt.Z.pow 2 (f_nqubit f))) g) (fun x => Ok (fst (fst x))))) /\
  (forall cpu g sc ws, par_perform sample init mk cpu g sc ws one f =
     rbind (one f) (fun v => rbind (perform_par Rdefinitions.R 0%R Rplus Rdiv IZR sample init (mk v) (f_shots f)
                                       (BinInt.Z.to_N (BinInt.Z.pow 2 (f_nqubit f))) cpu g sc ws) (fun x => Ok (fst (fst x))))).
Proof. intros. split; reflexivity. Qed.
Print Assumptions C03_shots_vocabulary.

(* COMPOSED: normalised initial state, any number of shots (>= 1 by run()'s validation), sequential or parallel: ONE dictionary
   `out` is returned in every mode and schedule, and its value under every key t is the exact Born probability of the ideal
   circuit marginalised to the measured qubits *)
Theorem C03_end_to_end_C_shots :
  forall (D : Type) (theta : nat -> Rdefinitions.R) (dur : nat -> D)
         (a : args) (f : front_out) (data : list SimRun.instr) (psi0 : state C)
         (sample : Type) (init : list sample -> BinNums.N -> sample) (mk : list Rdefinitions.R -> Shots.prog sample (list Rdefinitions.R)),
  (forall v s p, fst (run_prog sample (mk v) s p) = v) ->
  front a = Ok f -> a_circ a = CData true data -> Forall wf_qiskit data ->
  NoDup (map fst (f_meas f)) -> f_nqubit f = BinInt.Z.of_nat (f_n f) ->
  rsum (map (fun b => (Cmod (psi0 b) ^ 2)%R) (binary_vector (f_n f))) = 1%R ->
  exists prog, translate Rdefinitions.R D theta dur (f_used f) (f_nqubit f) data = Ok prog /\
    Forall (NoiseFreeRun.wf_instr (f_n f)) prog /\
    let ideal := fun b => (Cmod (sem C Cplus Cmult (ideal_items C (RtoC 0) (RtoC 1) Cplus Cmult Copp Rdefinitions.R KC prog) psi0 b) ^ 2)%R in
    let shot := nf_perform C (RtoC 0) (RtoC 1) Cplus Cmult Copp Rdefinitions.R D KC Rdefinitions.R bornC theta dur data psi0 in
    rsum (map ideal (binary_vector (f_n f))) = 1%R /\
    exists out,
      (forall g, run_model Rdefinitions.R 0%R Rplus Rdiv rpos a (seq_perform sample init mk g shot) = Ok out) /\
      (forall cpu g sc ws,
         (let nch := List.length (chunks (BinInt.Z.to_nat (chunksize (f_shots f) (n_processes cpu))) (seq 0 (BinInt.Z.to_nat (f_shots f)))) in
          Permutation (sc_exec sc) (seq 0 nch) /\ Permutation (sc_deliver sc) (seq 0 nch)) ->
         run_model Rdefinitions.R 0%R Rplus Rdiv rpos a (par_perform sample init mk cpu g sc ws shot) = Ok out) /\
      forall t, List.length t = List.length (f_meas f) ->
        lookup Rdefinitions.R t out = Some (marginal_sum ideal (f_n f) (meas_ranks f) t).
Proof. exact end_to_end_C_shots. Qed.
Print Assumptions C03_end_to_end_C_shots.

(* non-vacuity: the shot program that reads no sample is deterministic; |00> is normalised on the two qubits of
   C03_end_to_end_example (whose other hypotheses are shown there); 3 shots *)
Example C03_shots_example :
  (forall (v : list Rdefinitions.R) (s : BinNums.N -> unit) (p : BinNums.N), fst (run_prog unit (Ret v) s p) = v) /\
  rsum (map (fun b => (Cmod (if key_eqb b [false; false] then RtoC 1 else RtoC 0) ^ 2)%R) (binary_vector 2)) = 1%R.
Proof.
  split; [reflexivity|]. rewrite rsum_bv by auto. cbn [bsum key_eqb Bool.eqb andb]. rewrite Cmod_1, Cmod_0. ring.
Qed.

(* ================================================================== 7. THE LAYERED CLASSES END TO END  [block of agent/c03lay -- BEGIN]
   StandardCircuit / EfficientCircuit / OneCircuit (= AlternativeCircuit with the Standard / Efficient / ForOnes backend); the grid class
   Circuit shares the simulator branch (same calls: correspondence) but its own statevector() has no Coq model, so the theorems below
   speak about the three AlternativeCircuit classes.
   Model/SimLoopLayered.v is the executable model of _preprocess_circuit and of the else-branch of _apply_gates_on_circuit
   (simulator.py:198-243, 431-489), tied to the code by the exact correspondence run of checks/c03.py (family simloop_translate_layered:
   the recorded method calls -- I(k) included -- of the real simulator on each of the four classes = translate_calls_layered evaluated
   by vm_compute, builder exceptions included).  Vocabulary:
     group            what one kept instruction makes the loop do: GRz q th (circ.Rz(q, theta), q = the PHYSICAL label used as index),
                      G1 k q / G2 k c t / GRelax q d (the `for k in range(nqubit)` loop: the gate on its own qubit, nothing for the target
                      of a two-qubit gate, circ.I(k) on every other qubit);  group_calls nq g = those calls;
     translate_groups used data : res (list group);   calls_of_groups nq gs = all calls of the shot, then bitflip(k, tm[k], rout[k]), k < nq;
     translate_calls_layered used nq data = rmap (calls_of_groups nq) (translate_groups used data);   translate_layered = the noise-free
                      program (delay groups dropped);
     id_layout n = [0; ...; n-1];   adjacent_q x: a cx / ecr acts on labels c, t with |c - t| = 1;
     group_wf n / group_adj: every index < n, two-qubit groups on distinct / neighbouring indices;
     shot_ops n gs    the builder operations of the shot: every call with the matrix the noise-free gate set returns as its token (framed matrix
                      at the frame of the moment; the exact identity for relaxation / bitflip);  flat_ops cs: the same as a function of the FLAT
                      call list;   shot_layers n gs: one layer per sx / x / cx / ecr (NoiseFreeRun.layer_of), the all-identity layer per delay,
                      the final all-identity layer of the read-out;
     backend_run bk n ls psi   AlternativeCircuit.statevector: psi itself when nothing is stored, else std / eff (min 3, opt 4) / ones;
     backend_ok bk n  the backend's own assertion: True / (8 <= n -> 2 * eff_nchunks n 3 4 <= 26) / n <= 26;
     nf_perform_layered bk theta dur data psi0 : front_out -> res (list R)   the shot: calls -> lexec (C11's lstep) -> stored layers ->
                      backend_run -> Born rule over the basis states in index order. *)
Require Import QG.Model.SimLoopLayered QG.Proofs.SimLoopLayeredBuilder QG.Proofs.SimLoopLayeredCalls QG.Proofs.SimLoopLayered.
Require Import QG.Proofs.SimLoopLayeredE2E QG.Proofs.SimLoopLayeredC QG.Proofs.BackendsEffFull.
From Coq Require Import Lia.

(* (i) C03_layered_builder_full (stated above as a Definition) holds: the layered builder lstep, fed the simulator's per-qubit calls,
   stores exactly run_layers and is back at _s = 0 *)
Theorem C03_layered_builder : C03_layered_builder_full.
Proof. exact layered_builder_full. Qed.
Print Assumptions C03_layered_builder.

(* the same for the calls of the loop, relaxation and bitflip included: the operations are a function of the flat call list; a fresh
   AlternativeCircuit never raises, holds shot_layers and is at _s = 0; these layers are well-formed, non-empty input of the C01 backend
   theorems and denote, under C01's layers_sem, run_items of the noise-free program *)
Theorem C03_layered_calls_builder :
  forall (T : Type) (rO rI : T) (radd rmul rsub : T -> T -> T) (ropp : T -> T),
  ring_theory rO rI radd rmul rsub ropp eq ->
  forall (A D : Type) (K : consts T A) (ph : A -> Z * Z) (n : nat) (bk : backend_kind) (gs : list (group A D)),
  (1 <= n)%nat -> Forall (group_wf A D n) gs -> Forall (group_adj A D) gs ->
  shot_ops T rO rI radd rmul ropp A D K ph n gs = flat_ops T rO rI radd rmul ropp A D K ph (calls_of_groups A D n gs) /\
  (exists s', lexec (mat T) (mid2 T rO rI) (l_init (mat T) n bk) (shot_ops T rO rI radd rmul ropp A D K ph n gs) = Ok (s', nil) /\
     map (map (ent_den T)) (l_content (mat T) s') = shot_layers T rO rI radd rmul ropp A D K n gs /\
     l_s (mat T) s' = 0%nat /\ l_bk (mat T) s' = bk) /\
  Forall (wf_layer T n) (shot_layers T rO rI radd rmul ropp A D K n gs) /\
  shot_layers T rO rI radd rmul ropp A D K n gs <> nil /\
  forall (psi : bits -> T) (b : bits),
    layers_sem T radd rmul (shot_layers T rO rI radd rmul ropp A D K n gs) psi b
    = sem T radd rmul (run_items T rO rI radd rmul ropp A K (nf_prog_groups A D gs)) psi b.
Proof. exact calls_builder_layers. Qed.
Print Assumptions C03_layered_calls_builder.

(* AlternativeCircuit.statevector on well-formed layers returns the layered specification (C01_std_spec / C01_eff_spec / C01_ones_spec) *)
Theorem C03_layered_backend :
  forall (T : Type) (rO rI : T) (radd rmul rsub : T -> T -> T) (ropp : T -> T),
  ring_theory rO rI radd rmul rsub ropp eq ->
  forall is_id : Backends.entry T -> bool,
  (forall e, is_id e = true -> exists a, e = Backends.En2 a /\ forall r c, a r c = id2 T rO rI r c) ->
  forall (bk : backend_kind) (n : nat) (ls : list (list (Backends.entry T))) (psi : state T),
  (1 <= n)%nat -> ls <> nil -> Forall (wf_layer T n) ls -> backend_ok bk n ->
  exists out, backend_run T rI radd rmul is_id bk n ls psi = Ok out /\ state_eq T n out (layers_sem T radd rmul ls psi).
Proof. exact backend_run_spec. Qed.
Print Assumptions C03_layered_backend.

(* (ii) on data as Qiskit builds it whose used labels are exactly 0..n-1 and whose cx / ecr act on neighbouring labels, the layered loop
   raises nothing with nqubit = n; every group addresses indices < n (two-qubit groups distinct neighbouring ones); the noise-free program
   is well-formed over n qubits and adjacent *)
Theorem C03_translate_layered_wf :
  forall (A D : Type) (theta : nat -> A) (dur : nat -> D)
         (data : list SimRun.instr) (used : list BinNums.N) (meas : list (BinNums.N * BinNums.N)) (n : nat),
  Forall wf_qiskit data -> SimRun.process_layout data = Ok (used, meas, n) -> used = id_layout n -> Forall adjacent_q data ->
  exists gs, translate_groups A D theta dur used data = Ok gs /\
    Forall (group_wf A D n) gs /\ Forall (group_adj A D) gs /\
    translate_calls_layered A D theta dur used (BinInt.Z.of_nat n) data = Ok (calls_of_groups A D n gs) /\
    translate_layered A D theta dur used data = Ok (nf_prog_groups A D gs) /\
    Forall (NoiseFreeRun.wf_instr n) (nf_prog_groups A D gs) /\ Forall NoiseFreeRun.adjacent_instr (nf_prog_groups A D gs).
Proof. exact translate_layered_wf. Qed.
Print Assumptions C03_translate_layered_wf.

(* with the layout 0..n-1 (qubits_layout.index(q) = q) the layered branch and the index branch of Model/SimLoop.v yield the SAME
   noise-free program: the `prog` of C03_end_to_end and of C03_end_to_end_layered coincide *)
Theorem C03_translate_layered_is_translate :
  forall (A D : Type) (theta : nat -> A) (dur : nat -> D)
         (data : list SimRun.instr) (used : list BinNums.N) (meas : list (BinNums.N * BinNums.N)) (n : nat),
  Forall wf_qiskit data -> SimRun.process_layout data = Ok (used, meas, n) -> used = id_layout n ->
  translate A D theta dur used (BinInt.Z.of_nat n) data = translate_layered A D theta dur used data.
Proof. exact translate_layered_is_translate. Qed.
Print Assumptions C03_translate_layered_is_translate.

(* (iii) END TO END for the layered classes, same shape as C03_end_to_end: for every commutative ring T with the named constants and a
   conjugation, every Born reading, every sound identity test of BackendForOnes, every backend kind bk whose own assertion holds at n:
   if run() accepts the arguments, the data is as Qiskit builds it on labels 0..n-1 with neighbouring two-qubit gates, every qubit is
   measured at most once and nqubit = n, then the loop succeeds with a well-formed adjacent program prog and -- when the ideal weights do
   not all vanish -- run() around the layered noise-free shot (calls -> builder -> stored layers -> backend -> Born rule) returns a
   dictionary whose value under every key t is the normalised sum of the IDEAL circuit's Born weights over the basis states b with
   b[rank of k-th measured qubit] = t[k] *)
Theorem C03_end_to_end_layered :
  forall (T : Type) (rO rI : T) (radd rmul rsub : T -> T -> T) (ropp : T -> T),
  ring_theory rO rI radd rmul rsub ropp eq ->
  forall (A : Type) (K : consts T A), consts_ok T rI rmul ropp A K ->
  forall cj : T -> T, conj_ok T rI rmul ropp A K cj ->
  forall born : T -> Rdefinitions.R,
  (forall x y, nrm T rmul cj x = nrm T rmul cj y -> born x = born y) -> (forall x, (0 <= born x)%R) ->
  forall (D : Type) (theta : nat -> A) (dur : nat -> D) (ph : A -> Z * Z) (is_id : Backends.entry T -> bool),
  (forall e, is_id e = true -> exists a, e = Backends.En2 a /\ forall r c, a r c = id2 T rO rI r c) ->
  forall (bk : backend_kind) (a : args) (f : front_out) (data : list SimRun.instr) (psi0 : state T),
  front a = Ok f -> a_circ a = CData true data -> Forall wf_qiskit data ->
  NoDup (map fst (f_meas f)) -> f_nqubit f = BinInt.Z.of_nat (f_n f) ->
  f_used f = id_layout (f_n f) -> Forall adjacent_q data -> backend_ok bk (f_n f) ->
  exists prog, translate_layered A D theta dur (f_used f) data = Ok prog /\
    Forall (NoiseFreeRun.wf_instr (f_n f)) prog /\ Forall NoiseFreeRun.adjacent_instr prog /\
    let ideal := fun b => born (sem T radd rmul (ideal_items T rO rI radd rmul ropp A K prog) psi0 b) in
    let total := rsum (map ideal (binary_vector (f_n f))) in
    ((0 < total)%R ->
     exists out, run_model Rdefinitions.R 0%R Rplus Rdiv rpos a
                   (nf_perform_layered T rO rI radd rmul ropp A D K ph is_id Rdefinitions.R born bk theta dur data psi0) = Ok out /\
       forall t, List.length t = List.length (f_meas f) ->
         lookup Rdefinitions.R t out = Some (marginal_sum (fun b => (ideal b / total)%R) (f_n f) (meas_ranks f) t)).
Proof. exact end_to_end_layered. Qed.
Print Assumptions C03_end_to_end_layered.

(* the same at the complex numbers: constants KC, Born rule |amplitude|^2, every hypothesis on the scalars discharged *)
Theorem C03_end_to_end_layered_C :
  forall (D : Type) (theta : nat -> Rdefinitions.R) (dur : nat -> D) (ph : Rdefinitions.R -> Z * Z) (is_id : Backends.entry C -> bool),
  (forall e, is_id e = true -> exists a, e = Backends.En2 a /\ forall r c, a r c = id2 C (RtoC 0) (RtoC 1) r c) ->
  forall (bk : backend_kind) (a : args) (f : front_out) (data : list SimRun.instr) (psi0 : state C),
  front a = Ok f -> a_circ a = CData true data -> Forall wf_qiskit data ->
  NoDup (map fst (f_meas f)) -> f_nqubit f = BinInt.Z.of_nat (f_n f) ->
  f_used f = id_layout (f_n f) -> Forall adjacent_q data -> backend_ok bk (f_n f) ->
  exists prog, translate_layered Rdefinitions.R D theta dur (f_used f) data = Ok prog /\
    Forall (NoiseFreeRun.wf_instr (f_n f)) prog /\ Forall NoiseFreeRun.adjacent_instr prog /\
    let ideal := fun b => (Cmod (sem C Cplus Cmult (ideal_items C (RtoC 0) (RtoC 1) Cplus Cmult Copp Rdefinitions.R KC prog) psi0 b) ^ 2)%R in
    let total := rsum (map ideal (binary_vector (f_n f))) in
    ((0 < total)%R ->
     exists out, run_model Rdefinitions.R 0%R Rplus Rdiv rpos a
                   (nf_perform_layered C (RtoC 0) (RtoC 1) Cplus Cmult Copp Rdefinitions.R D KC ph is_id Rdefinitions.R bornC bk theta dur data psi0) = Ok out /\
       forall t, List.length t = List.length (f_meas f) ->
         lookup Rdefinitions.R t out = Some (marginal_sum (fun b => (ideal b / total)%R) (f_n f) (meas_ranks f) t)).
Proof. exact end_to_end_layered_C. Qed.
Print Assumptions C03_end_to_end_layered_C.

(* reading of the statements' vocabulary *)
Theorem C03_end_to_end_layered_vocabulary :
  (forall n, id_layout n = map BinNat.N.of_nat (seq 0 n)) /\
  (forall n, backend_ok BkStandard n = True /\ backend_ok BkOnes n = (n <= 26)%nat /\
             backend_ok BkEfficient n = ((4 <= n)%nat -> (2 * 4 <= n)%nat -> (2 * eff_nchunks n 3 4 <= 26)%nat)) /\
  (forall (A D : Type) nq k1 q, group_calls A D nq (G1 k1 q)
      = map (fun k => if Nat.eqb k q then LC (C1 k1 k (BinNat.N.of_nat k)) else LI k) (seq 0 nq)) /\
  (forall (A D : Type) nq k2 c t, group_calls A D nq (G2 k2 c t)
      = flat_map (fun k => if Nat.eqb k c then [LC (C2 k2 k t (BinNat.N.of_nat k) (BinNat.N.of_nat t))]
                           else if Nat.eqb k t then [] else [LI k]) (seq 0 nq)) /\
  (forall (A D : Type) nq gs, calls_of_groups A D nq gs
      = (flat_map (group_calls A D nq) gs ++ map (fun k => LC (CBitflip k (BinNat.N.of_nat k))) (seq 0 nq))%list).
Proof. repeat split. Qed.
Print Assumptions C03_end_to_end_layered_vocabulary.

(* non-vacuity: rz(0); delay(3) [label 3 otherwise unused: dropped]; cx(2,1) [control has the higher index]; barrier(0,1,2,3); delay(1);
   measure 1 -> c1; ecr(0,1); x(2); then all three measured, on labels {0,1,2}: accepted by run(), well-formed, neighbouring pairs, layout
   0..2, every backend's assertion holds at n = 3; the calls (I(k) padding, no call for the target, the three bitflips) and the noise-free
   program computed by the model; the index-class model computes the same program; measured ranks [1; 0; 2] *)
Example C03_end_to_end_layered_example :
  let data := [mkinstr OpRz [0%N] []; mkinstr OpDelay [3%N] []; mkinstr OpCx [2%N; 1%N] []; mkinstr OpBarrier [0%N; 1%N; 2%N; 3%N] [];
               mkinstr OpDelay [1%N] []; mkinstr OpMeasure [1%N] [1%N]; mkinstr OpEcr [0%N; 1%N] []; mkinstr OpX [2%N] [];
               mkinstr OpMeasure [0%N] [0%N]; mkinstr OpMeasure [2%N] [2%N]] in
  let a := mkargs (CData true data) true (PsiShape [8%Z]) (Some 3%Z) (Some (T1Len 8%Z)) (Some 3%Z) in
  let f := mkfront [0%N; 1%N; 2%N] [(1%N, 1%N); (0%N, 0%N); (2%N, 2%N)] 3 3%Z 3%Z in
  front a = Ok f /\ Forall wf_qiskit data /\ NoDup (map fst (f_meas f)) /\ f_nqubit f = BinInt.Z.of_nat (f_n f) /\
  f_used f = id_layout (f_n f) /\ Forall adjacent_q data /\
  (backend_ok BkStandard (f_n f) /\ backend_ok BkEfficient (f_n f) /\ backend_ok BkOnes (f_n f)) /\
  translate_calls_layered nat nat (fun j => j) (fun j => j) (f_used f) (f_nqubit f) data
    = Ok [LC (CRz 0 0);
          LI 0 (* cx(2,1): k = 0 identity, k = 1 is the target: no call, k = 2 the gate *); LC (C2 KCX 2 1 2%N 1%N);
          LI 0; LC (CRelax 1 4 1%N); LI 2;
          LC (C2 KECR 0 1 0%N 1%N); LI 2;
          LI 0; LI 1; LC (C1 KX 2 2%N);
          LC (CBitflip 0 0%N); LC (CBitflip 1 1%N); LC (CBitflip 2 2%N)] /\
  translate_layered nat nat (fun j => j) (fun j => j) (f_used f) data = Ok [NoiseFreeRun.NRz 0 0; NCX 2 1; NoiseFreeRun.NECR 0 1; NoiseFreeRun.NX 2] /\
  translate nat nat (fun j => j) (fun j => j) (f_used f) (f_nqubit f) data = Ok [NoiseFreeRun.NRz 0 0; NCX 2 1; NoiseFreeRun.NECR 0 1; NoiseFreeRun.NX 2] /\
  meas_ranks f = [1; 0; 2]%nat.
Proof.
  cbv zeta. split; [vm_compute; reflexivity|]. split.
  { repeat (apply Forall_cons; [unfold wf_qiskit; cbn; eauto; try (do 2 eexists; split; [reflexivity|discriminate]); try discriminate|]). apply Forall_nil. }
  split. { cbn. repeat constructor; cbn; intuition discriminate. }
  split; [reflexivity|]. split; [reflexivity|]. split.
  { repeat (apply Forall_cons; [unfold adjacent_q; cbn; auto|]). apply Forall_nil. }
  split. { cbn. repeat split; intros; lia. }
  repeat split; vm_compute; reflexivity.
Qed.
(* ---- the grid class Circuit: what is NOT proved, stated in full ----
   Circuit shares the simulator branch (the calls are the same: correspondence on every run, its own exceptions through C11's gstep), but
   Circuit.statevector (kron-reduce per column, product of the columns) has no Coq model, so there is no end-to-end theorem for it.  The
   builder half, stated: constructed with depth = the number of layers the shot fills (= len(data) - n_rz + 1 when every kept non-rz
   instruction issues calls), the grid builder gstep fed the same operations never raises and its columns are exactly shot_layers *)
Definition C03_grid_builder_full : Prop :=
  forall (T : Type) (rO rI : T) (radd rmul : T -> T -> T) (ropp : T -> T) (A D : Type) (K : consts T A) (ph : A -> Z * Z)
         (n : nat) (gs : list (group A D)),
  (1 <= n)%nat -> Forall (group_wf A D n) gs -> Forall (group_adj A D) gs ->
  exists sg, gexec (mat T) (mid2 T rO rI) (g_init (mat T) n (List.length (shot_layers T rO rI radd rmul ropp A D K n gs)))
               (shot_ops T rO rI radd rmul ropp A D K ph n gs) = Ok (sg, nil) /\
    map (map (ent_den T)) (g_content (mat T) sg) = shot_layers T rO rI radd rmul ropp A D K n gs.
(* computed instance (matrices abstracted to unit, as in the correspondence run): on the 14 calls of the example above, with the depth the
   simulator passes, the grid builder and the layered builder hold the same five columns / layers *)
Example C03_grid_builder_example :
  let data := [mkinstr OpRz [0%N] []; mkinstr OpDelay [3%N] []; mkinstr OpCx [2%N; 1%N] []; mkinstr OpBarrier [0%N; 1%N; 2%N; 3%N] [];
               mkinstr OpDelay [1%N] []; mkinstr OpMeasure [1%N] [1%N]; mkinstr OpEcr [0%N; 1%N] []; mkinstr OpX [2%N] [];
               mkinstr OpMeasure [0%N] [0%N]; mkinstr OpMeasure [2%N] [2%N]] in
  let cs := match translate_calls_layered nat nat (fun j => j) (fun j => j) [0%N; 1%N; 2%N] 3%Z data with Ok c => c | Err _ => nil end in
  let cols := [[Builders.En2 tt; Builders.EnOne; Builders.En4 tt]; [Builders.En2 tt; Builders.En2 tt; Builders.En2 tt];
               [Builders.En4 tt; Builders.EnOne; Builders.En2 tt]; [Builders.En2 tt; Builders.En2 tt; Builders.En2 tt];
               [Builders.En2 tt; Builders.En2 tt; Builders.En2 tt]] in
  List.length cs = 14%nat /\ depth_of [0%N; 1%N; 2%N] data = Ok 5%nat /\
  rmap (fun r => (g_content unit (fst r), snd r)) (gexec unit tt (g_init unit 3 5) (map unit_op cs)) = Ok (cols, nil) /\
  rmap (fun r => (l_content unit (fst r), snd r)) (lexec unit tt (l_init unit 3 BkStandard) (map unit_op cs)) = Ok (cols, nil).
Proof. cbv zeta. split; [vm_compute; reflexivity|]. split; [vm_compute; reflexivity|]. split; vm_compute; reflexivity. Qed.
(* [block of agent/c03lay -- END] *)

(* ================================================================== 8. THE GRID CLASS Circuit END TO END  [block of agent/c03grid -- BEGIN]
   The legacy fixed-depth class Circuit(nqubit, depth, gates): a depth x nqubit grid of placeholders 1, counters j (current column) and
   s (qubits written in it; when s == nqubit the NEXT call moves on to column j + 1); statevector kron-reduces every column and multiplies
   the column matrices from the left.  It shares the simulator's layered branch with the AlternativeCircuit classes (same calls:
   Model/SimLoopLayered.v, same correspondence).  New here:
     Model/GridBackend.v   executable model of Circuit.statevector (circuit.py:90-105), tied to the code by the exact correspondence run of
                           checks/c03_grid.py (family grid_statevector: the real class driven with Gaussian-integer token matrices, directly
                           filled grids and grids built through the real apply / I / CNOT / ECR, result vector resp. exception class);
       column grid c = entry c of every row;  columns depth grid = [column 0; ...; column (depth-1)];
       grid_product cols = ft.reduce(np.kron, column) per column, `@` from the left (IndexError when there is no column or no row; TypeError
                           for scalar @ scalar: nothing written in the first two columns);
       grid_statevector_cols n cols psi = grid_product, then `@ psi0` for psi0 on n qubits (ValueError when the product is not 2^n x 2^n, in
                           particular when it is the 0-dimensional kron of placeholders only);  grid_statevector n depth grid = on the fields;
     Proofs/GridBackendSpec.v, GridBuilder.v, SimLoopGrid.v, SimLoopGridC.v.
     native_q x            the instruction's name is one the loop knows (rz / sx / x / cx / ecr / delay / measure / barrier): iname x <> OpOther;
     depth_of used data    len(data) - n_rz + 1 over the instructions _preprocess_circuit keeps: the depth the simulator constructs Circuit with;
     nf_perform_grid theta dur data psi0 : front_out -> res (list R)   the shot: calls -> gexec (C11's gstep) on a fresh Circuit(nqubit, depth_of)
                           with the noise-free tokens -> its columns -> grid_statevector_cols -> Born rule over the basis states in index order. *)
Require Import QG.Model.GridBackend QG.Proofs.GridBackendSpec QG.Proofs.GridBuilder QG.Proofs.SimLoopGrid QG.Proofs.SimLoopGridC.

(* (i) C03_grid_builder_full (stated above as a Definition) holds: constructed with depth = the number of layers the shot fills, the grid
   builder gstep fed the shot's operations never raises and its columns are exactly shot_layers *)
Theorem C03_grid_builder : C03_grid_builder_full.
Proof. exact grid_builder_full. Qed.
Print Assumptions C03_grid_builder.

(* the reason, for ANY matrix tokens and ANY history: whenever the layered builder lstep executes a history without reset() and ends on a
   completed layer, the CNOT / ECR operations act on neighbouring indices (Circuit asserts it) and at most `depth` layers are completed, a
   fresh Circuit(n, depth) executes the same history without exception and its columns are those layers, then untouched placeholder columns *)
Theorem C03_grid_follows_layered :
  forall (M : Type) (idM : M) (n depth : nat) (bk : backend_kind) (h : list (op M)) (l' : lstate M),
  lexec M idM (l_init M n bk) h = Ok (l', nil) ->
  Forall (fun o => is_reset M o = false) h ->
  Forall (fun o => match o with OCNOT _ i k | OECR _ i k => Z.abs (i - k) = 1%Z | _ => True end) h ->
  l_s M l' = 0%nat -> (List.length (l_mplist M l') <= depth)%nat ->
  exists g', gexec M idM (g_init M n depth) h = Ok (g', nil) /\ g_n M g' = n /\ g_depth M g' = depth /\
    g_content M g' = (l_mplist M l' ++ repeat (repeat (@Builders.EnOne M) n) (depth - List.length (l_mplist M l')))%list.
Proof. exact grid_follows_layered. Qed.
Print Assumptions C03_grid_follows_layered.

(* (ii) Circuit.statevector IS StandardBackend.statevector on the columns: on a non-empty rectangular column list with at least one row the
   two models return the same vector or the same exception (scalar_col c0: the first column is untouched, placeholders only
   -- its kron is a scalar, and scalar @ scalar is a TypeError in the grid model; StandardBackend's model has no such clause) *)
Theorem C03_grid_statevector_is_std :
  forall (T : Type) (rI : T) (radd rmul : T -> T -> T) (n : nat) (c0 : list (Backends.entry T)) (rest : list (list (Backends.entry T)))
         (psi : state T),
  (1 <= n)%nat -> c0 <> nil -> scalar_col T c0 = false -> Forall (fun c => List.length c = List.length c0) rest ->
  grid_statevector_cols T rI radd rmul n (c0 :: rest) psi
  = match std T rI radd rmul n (c0 :: rest) psi with Ok (OutVec s) => Ok s | Ok OutEye => Err IndexError | Err e => Err e end.
Proof. exact grid_is_std. Qed.
Print Assumptions C03_grid_statevector_is_std.

(* hence C01_std_spec's specification: on well-formed columns (C01's wf_layer n) it returns a vector state_eq to layers_sem of the columns
   in order -- stated on the column list and on the object's fields *)
Theorem C03_grid_statevector_spec :
  forall (T : Type) (rO rI : T) (radd rmul rsub : T -> T -> T) (ropp : T -> T),
  ring_theory rO rI radd rmul rsub ropp eq ->
  forall (n : nat) (cols : list (list (Backends.entry T))) (psi : state T),
  (1 <= n)%nat -> cols <> nil -> Forall (wf_layer T n) cols ->
  exists out, grid_statevector_cols T rI radd rmul n cols psi = Ok out /\ state_eq T n out (layers_sem T radd rmul cols psi).
Proof. exact grid_statevector_cols_spec. Qed.
Print Assumptions C03_grid_statevector_spec.
Theorem C03_grid_statevector_fields_spec :
  forall (T : Type) (rO rI : T) (radd rmul rsub : T -> T -> T) (ropp : T -> T),
  ring_theory rO rI radd rmul rsub ropp eq ->
  forall (n depth : nat) (grid : list (list (Backends.entry T))) (psi : state T),
  (1 <= n)%nat -> (1 <= depth)%nat -> Forall (wf_layer T n) (columns T depth grid) ->
  exists out, grid_statevector T rI radd rmul n depth grid psi = Ok out /\
    state_eq T n out (layers_sem T radd rmul (columns T depth grid) psi).
Proof. exact grid_statevector_spec. Qed.
Print Assumptions C03_grid_statevector_fields_spec.

(* (iii) the depth rule of the simulator: when every instruction bears a name the loop knows, depth = len(data) - n_rz + 1 is exactly the
   number of layers the shot fills (one per kept sx / x / cx / ecr / delay, plus the read-out layer) *)
Theorem C03_grid_depth_rule :
  forall (A D : Type) (theta : nat -> A) (dur : nat -> D) (T : Type) (rO rI : T) (radd rmul : T -> T -> T) (ropp : T -> T) (K : consts T A)
         (used : list BinNums.N) (data : list SimRun.instr) (gs : list (group A D)) (n : nat),
  Forall native_q data -> translate_groups A D theta dur used data = Ok gs ->
  depth_of used data = Ok (List.length (shot_layers T rO rI radd rmul ropp A D K n gs)).
Proof. exact depth_rule. Qed.
Print Assumptions C03_grid_depth_rule.
Theorem C03_grid_layer_count :
  forall (T : Type) (rO rI : T) (radd rmul : T -> T -> T) (ropp : T -> T) (A D : Type) (K : consts T A) (n : nat) (gs : list (group A D)),
  List.length (shot_layers T rO rI radd rmul ropp A D K n gs)
  = (List.length (filter (fun g => match g with GRz _ _ => false | _ => true end) gs) + 1)%nat.
Proof. exact shot_layers_count. Qed.
Print Assumptions C03_grid_layer_count.

(* ... and it is NEEDED: constructed with any larger depth (a kept instruction of another name -- `id`, `reset`, ... -- is counted in
   len(data) but issues no call) the builder still never raises, the surplus columns stay untouched, and Circuit.statevector raises
   ValueError: ft.reduce(np.kron, [1, ..., 1]) is 0-dimensional and `@` refuses it -- for every shot, and for every grid whose well-formed
   columns are followed by an untouched one *)
Theorem C03_grid_depth_too_large :
  forall (T : Type) (rO rI : T) (radd rmul rsub : T -> T -> T) (ropp : T -> T),
  ring_theory rO rI radd rmul rsub ropp eq ->
  forall (n : nat) (cols : list (list (Backends.entry T))) (m : nat) (psi : state T),
  (1 <= n)%nat -> cols <> nil -> Forall (wf_layer T n) cols ->
  grid_statevector_cols T rI radd rmul n (cols ++ repeat (repeat (@Backends.EnOne T) n) (S m)) psi = Err ValueError.
Proof. exact grid_depth_too_large. Qed.
Print Assumptions C03_grid_depth_too_large.
Theorem C03_grid_shot_too_deep :
  forall (T : Type) (rO rI : T) (radd rmul rsub : T -> T -> T) (ropp : T -> T),
  ring_theory rO rI radd rmul rsub ropp eq ->
  forall (A D : Type) (K : consts T A) (ph : A -> Z * Z) (n : nat) (gs : list (group A D)) (dp : nat) (psi0 : state T),
  (1 <= n)%nat -> Forall (group_wf A D n) gs -> Forall (group_adj A D) gs ->
  (List.length (shot_layers T rO rI radd rmul ropp A D K n gs) < dp)%nat ->
  exists sg, gexec (mat T) (mid2 T rO rI) (g_init (mat T) n dp) (shot_ops T rO rI radd rmul ropp A D K ph n gs) = Ok (sg, nil) /\
    grid_statevector_cols T rI radd rmul n (map (map (ent_den T)) (g_content (mat T) sg)) psi0 = Err ValueError.
Proof. exact grid_shot_too_deep. Qed.
Print Assumptions C03_grid_shot_too_deep.

(* (iv) END TO END for the grid class, same shape as C03_end_to_end_layered: for every commutative ring T with the named constants and a
   conjugation, every Born reading: if run() accepts the arguments, the data is as Qiskit builds it on labels 0..n-1 with neighbouring
   two-qubit gates and names the loop knows, every qubit is measured at most once and nqubit = n, then the loop succeeds with a well-formed
   adjacent program prog and -- when the ideal weights do not all vanish -- run() around the grid noise-free shot (calls -> Circuit(n,
   len(data) - n_rz + 1) -> columns -> kron-reduce and multiply -> Born rule) returns a dictionary whose value under every key t is the
   normalised sum of the IDEAL circuit's Born weights over the basis states b with b[rank of k-th measured qubit] = t[k] *)
Theorem C03_end_to_end_grid :
  forall (T : Type) (rO rI : T) (radd rmul rsub : T -> T -> T) (ropp : T -> T),
  ring_theory rO rI radd rmul rsub ropp eq ->
  forall (A : Type) (K : consts T A), consts_ok T rI rmul ropp A K ->
  forall cj : T -> T, conj_ok T rI rmul ropp A K cj ->
  forall born : T -> Rdefinitions.R,
  (forall x y, nrm T rmul cj x = nrm T rmul cj y -> born x = born y) -> (forall x, (0 <= born x)%R) ->
  forall (D : Type) (theta : nat -> A) (dur : nat -> D) (ph : A -> Z * Z)
         (a : args) (f : front_out) (data : list SimRun.instr) (psi0 : state T),
  front a = Ok f -> a_circ a = CData true data -> Forall wf_qiskit data ->
  NoDup (map fst (f_meas f)) -> f_nqubit f = BinInt.Z.of_nat (f_n f) ->
  f_used f = id_layout (f_n f) -> Forall adjacent_q data -> Forall native_q data ->
  exists prog, translate_layered A D theta dur (f_used f) data = Ok prog /\
    Forall (NoiseFreeRun.wf_instr (f_n f)) prog /\ Forall NoiseFreeRun.adjacent_instr prog /\
    let ideal := fun b => born (sem T radd rmul (ideal_items T rO rI radd rmul ropp A K prog) psi0 b) in
    let total := rsum (map ideal (binary_vector (f_n f))) in
    ((0 < total)%R ->
     exists out, run_model Rdefinitions.R 0%R Rplus Rdiv rpos a
                   (nf_perform_grid T rO rI radd rmul ropp A D K ph Rdefinitions.R born theta dur data psi0) = Ok out /\
       forall t, List.length t = List.length (f_meas f) ->
         lookup Rdefinitions.R t out = Some (marginal_sum (fun b => (ideal b / total)%R) (f_n f) (meas_ranks f) t)).
Proof. exact end_to_end_grid. Qed.
Print Assumptions C03_end_to_end_grid.

(* the same at the complex numbers: constants KC, Born rule |amplitude|^2, every hypothesis on the scalars discharged *)
Theorem C03_end_to_end_grid_C :
  forall (D : Type) (theta : nat -> Rdefinitions.R) (dur : nat -> D) (ph : Rdefinitions.R -> Z * Z)
         (a : args) (f : front_out) (data : list SimRun.instr) (psi0 : state C),
  front a = Ok f -> a_circ a = CData true data -> Forall wf_qiskit data ->
  NoDup (map fst (f_meas f)) -> f_nqubit f = BinInt.Z.of_nat (f_n f) ->
  f_used f = id_layout (f_n f) -> Forall adjacent_q data -> Forall native_q data ->
  exists prog, translate_layered Rdefinitions.R D theta dur (f_used f) data = Ok prog /\
    Forall (NoiseFreeRun.wf_instr (f_n f)) prog /\ Forall NoiseFreeRun.adjacent_instr prog /\
    let ideal := fun b => (Cmod (sem C Cplus Cmult (ideal_items C (RtoC 0) (RtoC 1) Cplus Cmult Copp Rdefinitions.R KC prog) psi0 b) ^ 2)%R in
    let total := rsum (map ideal (binary_vector (f_n f))) in
    ((0 < total)%R ->
     exists out, run_model Rdefinitions.R 0%R Rplus Rdiv rpos a
                   (nf_perform_grid C (RtoC 0) (RtoC 1) Cplus Cmult Copp Rdefinitions.R D KC ph Rdefinitions.R bornC theta dur data psi0) = Ok out /\
       forall t, List.length t = List.length (f_meas f) ->
         lookup Rdefinitions.R t out = Some (marginal_sum (fun b => (ideal b / total)%R) (f_n f) (meas_ranks f) t)).
Proof. exact end_to_end_grid_C. Qed.
Print Assumptions C03_end_to_end_grid_C.

(* reading of the statements' vocabulary *)
Theorem C03_end_to_end_grid_vocabulary :
  (forall x, native_q x = (iname x <> OpOther)) /\
  (forall used data, depth_of used data
     = rbind (preprocess used (numbered data))
         (fun d => Ok (List.length d - List.length (filter (fun jx : nat * SimRun.instr => is_rz (iname (snd jx))) d) + 1)%nat)) /\
  (forall (T : Type) (grid : list (list (Backends.entry T))) depth,
     columns T depth grid = map (fun c => map (fun row => nth c row Backends.EnOne) grid) (seq 0 depth)) /\
  (forall (T : Type) (rI : T) (radd rmul : T -> T -> T) n cols psi, grid_statevector_cols T rI radd rmul n cols psi
     = rbind (grid_product T rI radd rmul cols)
         (fun p => if Nat.ltb 0 (fst p) && Nat.eqb (fst p) n then Ok (memoT n (mv T radd rmul n (snd p) psi)) else Err ValueError)) /\
  (forall (T : Type) (rI : T) (radd rmul : T -> T -> T) n depth grid psi,
     grid_statevector T rI radd rmul n depth grid psi = grid_statevector_cols T rI radd rmul n (columns T depth grid) psi) /\
  (forall (T : Type) (c : list (Backends.entry T)), scalar_col T c = forallb (isOne T) c) /\
  (forall (T : Type) (rO rI : T) (radd rmul : T -> T -> T) (ropp : T -> T) (A D : Type) (K : consts T A) (ph : A -> Z * Z) (V : Type) (born : T -> V)
          theta dur data psi0 f,
     nf_perform_grid T rO rI radd rmul ropp A D K ph V born theta dur data psi0 f
     = rbind (translate_groups A D theta dur (f_used f) data) (fun gs =>
       rbind (depth_of (f_used f) data) (fun dp =>
       let n := BinInt.Z.to_nat (f_nqubit f) in
       rbind (gexec (mat T) (mid2 T rO rI) (g_init (mat T) n dp) (shot_ops T rO rI radd rmul ropp A D K ph n gs)) (fun r =>
       rbind (grid_statevector_cols T rI radd rmul n (map (map (ent_den T)) (g_content (mat T) (fst r))) psi0) (fun out =>
       Ok (map (fun b => born (out b)) (binary_vector n))))))).
Proof. repeat split. Qed.
Print Assumptions C03_end_to_end_grid_vocabulary.

(* non-vacuity: the circuit of C03_end_to_end_layered_example (whose other hypotheses are shown there) bears known names only and gets depth 5
   = its five layers; the observation's circuit sx(0); id(1); cx(0,1); measures does not: depth 4 for three layers (C03_grid_shot_too_deep) *)
Example C03_end_to_end_grid_example :
  let data := [mkinstr OpRz [0%N] []; mkinstr OpDelay [3%N] []; mkinstr OpCx [2%N; 1%N] []; mkinstr OpBarrier [0%N; 1%N; 2%N; 3%N] [];
               mkinstr OpDelay [1%N] []; mkinstr OpMeasure [1%N] [1%N]; mkinstr OpEcr [0%N; 1%N] []; mkinstr OpX [2%N] [];
               mkinstr OpMeasure [0%N] [0%N]; mkinstr OpMeasure [2%N] [2%N]] in
  let bad := [mkinstr OpSx [0%N] []; mkinstr OpOther [1%N] []; mkinstr OpCx [0%N; 1%N] []; mkinstr OpMeasure [0%N] [0%N]; mkinstr OpMeasure [1%N] [1%N]] in
  let layers := fun used d => rmap (fun gs : list (group nat nat) =>
                    (List.length (filter (fun g => match g with GRz _ _ => false | _ => true end) gs) + 1)%nat)
                  (translate_groups nat nat (fun j => j) (fun j => j) used d) in
  Forall native_q data /\ depth_of [0%N; 1%N; 2%N] data = Ok 5%nat /\ layers [0%N; 1%N; 2%N] data = Ok 5%nat /\
  ~ Forall native_q bad /\ depth_of [0%N; 1%N] bad = Ok 4%nat /\ layers [0%N; 1%N] bad = Ok 3%nat.
Proof.
  cbv zeta. split. { repeat (apply Forall_cons; [unfold native_q; cbn; discriminate|]). apply Forall_nil. }
  split; [vm_compute; reflexivity|]. split; [vm_compute; reflexivity|]. split.
  { intros F. apply Forall_inv_tail in F. apply Forall_inv in F. apply F. reflexivity. }
  split; vm_compute; reflexivity.
Qed.
(* [block of agent/c03grid -- END] *)
