(* C03 — with noise switched off the simulator reproduces the ideal circuit.
   Gate level and hand-off level: decided by reflection over the regenerated models (GenGates.v from gates.py,
   GenCircuit.v from circuit.py). Circuit level: a theorem over an arbitrary commutative ring (Proofs/FrameSim.v). *)
From Coq Require Import QArith List String Bool.
Require Import QG.Base.State QG.Sym.Expr QG.Sym.Norm QG.Sym.Mat QG.Model.Handoff.
Require Import QG.Proofs.GateRefl QG.Proofs.C07Refl QG.Proofs.C03Frames QG.Proofs.HandoffRefl QG.Proofs.FrameSim QG.Gen.GenGates QG.Gen.GenCircuit.
Import ListNotations.
Close Scope Q_scope.

(* 1. Gate level, for all phases: the noise-free matrices of gates.py are the textbook gates conjugated by the virtual-Z
      frames P(phi) = diag(1, e^{i phi}), up to a global phase of modulus one:
        CNOT(pc,pt)      = i           (P(pc - pi/2) x P(pt))^dag CX(control slot 0) (P(pc) x P(pt))
        CNOT_inv(pc,pt)  = e^{-3i pi/4} (P(pt + pi/2) x P(pc + 3pi/2))^dag CX(control slot 1) (P(pt) x P(pc))
        ECR(pc,pt)       =             (P(pc) x P(pt))^dag ECR(control slot 0) (P(pc) x P(pt))
        ECR_inv(a,b)     =             (P(a) x P(b))^dag ECR(control slot 1) (P(a) x P(b))
        X(-phi)  = -i P(phi)^dag X P(phi),   SX(-phi) = e^{-i pi/4} P(phi)^dag SX P(phi);   idle gates = identity. *)
Theorem C03_gate_frames :
  mexpr_eqb cf gen_nf_CNOT (MScale EI (MMul (MDag (PP (ESub phc (pi_over 2)) pht)) (MMul CX01 (PP phc pht)))) = true /\
  mexpr_eqb cf gen_nf_CNOT_inv (MScale (cis (ENeg (EMul (q 3 4) EPi))) (MMul (MDag (PP (EAdd pht (pi_over 2)) (EAdd phc (EMul (q 3 2) EPi)))) (MMul CX10 (PP pht phc)))) = true /\
  mexpr_eqb cf gen_nf_ECR (MMul (MDag (PP phc pht)) (MMul ECR01 (PP phc pht))) = true /\
  mexpr_eqb cf gen_nf_ECR_inv (MMul (MDag (PP phc pht)) (MMul ECR10 (PP phc pht))) = true /\
  mexpr_eqb cf (at_minus_phi gen_nf_X) (MScale mi (MMul (MDag (Pm phi)) (MMul Xm (Pm phi)))) = true /\
  mexpr_eqb cf (at_minus_phi gen_nf_SX) (MScale (cis (ENeg (pi_over 4))) (MMul (MDag (Pm phi)) (MMul SXm (Pm phi)))) = true /\
  (mexpr_eqb cf gen_nf_relaxation (id_mat 2) && mexpr_eqb cf gen_nf_bitflip (id_mat 2) && mexpr_eqb cf gen_nf_depolarizing (id_mat 2) = true).
Proof.
  split; [exact cnot_frame | split; [exact cnot_inv_frame | split; [exact ecr_frame | split; [exact ecr_inv_frame | split; [exact x_frame | split; [exact sx_frame | exact nf_idle_identity]]]]]].
Qed.
Print Assumptions C03_gate_frames.

(* the reflective comparison is sound: mexpr_eqb cf a b = true implies interpM rho a = interpM rho b for every valuation *)
Theorem C03_reflection_sound : forall a b, mexpr_eqb cf a b = true -> forall rho, interpM rho a = interpM rho b.
Proof. exact (mexpr_eq_sound cf). Qed.
Print Assumptions C03_reflection_sound.

(* 2. Hand-off level, for every circuit class, both two-qubit gates, both directions (16 traced variants) and X / SX:
      the noise-free matrix the method obtains from the gate set — at the arguments it really passes — equals
      (global phase) * (P(new phase of slot-0 qubit) x P(new phase of slot-1 qubit))^dag  K  (P(old) x P(old)),
      where the new phases are the values the method really WRITES to phi, slot 0 / 1 are the qubits the method places the
      matrix on, and K is the textbook CX / ECR with its control on the slot holding the instruction's control qubit. *)
Theorem C03_handoff_frames :
  forallb (fun h => negb (is_two h) || frame_two_ok h) gen_handoff = true /\ forallb frame_one_ok gen_handoff = true /\
  (expr_eqb cf (EMul EI (EConj EI)) z1 && expr_eqb cf (EMul (cis (ENeg (EMul (q 3 4) EPi))) (EConj (cis (ENeg (EMul (q 3 4) EPi))))) z1 &&
   expr_eqb cf (EMul mi (EConj mi)) z1 && expr_eqb cf (EMul (cis (ENeg (pi_over 4))) (EConj (cis (ENeg (pi_over 4))))) z1 = true).
Proof. split; [exact frames_two_qubit | split; [exact frames_one_qubit | exact frame_phases_unit]]. Qed.
Print Assumptions C03_handoff_frames.

(* 3. Circuit level, for every commutative ring, every number of qubits, every program and every initial state:
      a simulator that (a) keeps a diagonal frame, (b) applies one- and two-qubit gates in the framed form of statement 2
      and updates the frame as written, (c) implements rz by multiplying the frame entry, maintains
          frame(b) * sim(b) = g * ideal(b)      for all basis states b,
      where ideal applies the textbook gates (rz = diag(a, a e)) and g is the product of the global phases. *)
Theorem C03_frame_simulation :
  forall (R : Type) (rO rI : R) (radd rmul rsub : R -> R -> R) (ropp : R -> R),
  ring_theory rO rI radd rmul rsub ropp eq ->
  forall n p s g ideal,
  wf_prog R rI radd rmul n s p -> Inv R rI rmul n g (s_f R s) (s_psi R s) ideal ->
  Inv R rI rmul n (fold_left (fun x o => rmul x (scalar_of R o)) p g)
      (s_f R (fold_left (sim_step R rI radd rmul) p s)) (s_psi R (fold_left (sim_step R rI radd rmul) p s))
      (fold_left (ideal_step R rO radd rmul) p ideal).
Proof. intros R rO rI radd rmul rsub ropp Rth. exact (frame_simulation R rO rI radd rmul rsub ropp Rth). Qed.
Print Assumptions C03_frame_simulation.

(* with all phases zero at the start the invariant holds with g = 1 *)
Theorem C03_initial_invariant :
  forall (R : Type) (rO rI : R) (radd rmul rsub : R -> R -> R) (ropp : R -> R),
  ring_theory rO rI radd rmul rsub ropp eq -> forall n psi, Inv R rI rmul n rI (f_one R rI) psi psi.
Proof. intros R rO rI radd rmul rsub ropp Rth. exact (Inv_init R rO rI radd rmul rsub ropp Rth). Qed.
Print Assumptions C03_initial_invariant.

(* 4. Born weights: frame entries and global phases of modulus one are invisible, so the simulated and the ideal
      outcome distributions coincide basis state by basis state (marginalisation and key order: C14). *)
Theorem C03_born_invisible :
  forall (R : Type) (rO rI : R) (radd rmul rsub : R -> R -> R) (ropp : R -> R),
  ring_theory rO rI radd rmul rsub ropp eq ->
  forall cj : R -> R, (forall x y, cj (rmul x y) = rmul (cj x) (cj y)) -> cj rI = rI ->
  forall n g f sim ideal, Inv R rI rmul n g f sim ideal -> nrm R rmul cj g = rI -> (forall q, nrm R rmul cj (f q) = rI) ->
  forall b : list bool, List.length b = n -> nrm R rmul cj (sim b) = nrm R rmul cj (ideal b).
Proof. intros R rO rI radd rmul rsub ropp Rth. exact (born_invisible R rO rI radd rmul rsub ropp Rth). Qed.
Print Assumptions C03_born_invisible.

Example C03_example : List.length (filter is_two gen_handoff) = 16%nat.
Proof. vm_compute. reflexivity. Qed.
